import argparse, os, sys, logging
sys.path.insert(0, os.path.dirname(os.path.abspath(__file__)))
logging.disable(logging.CRITICAL)
import core

ap = argparse.ArgumentParser()
ap.add_argument("pid")
ap.add_argument("--tier", default=os.environ.get("VERIF_TIER", "quick"), choices=["quick", "thorough"])
ap.add_argument("--replay", default=None)
a = ap.parse_args()
sys.exit(core.run_check(a.pid.upper(), a.tier, a.replay))
