"""Shared machinery of ./check: Coq build, proof-obligation accounting, correspondence by
generated cases evaluated inside Coq (vm_compute), oracle search, known findings, replay and
evidence files.  See DESIGN.md section 2.
"""
import fcntl, hashlib, importlib, json, os, random, re, subprocess, sys, time, traceback

VERIF = os.path.dirname(os.path.dirname(os.path.abspath(__file__)))
REPO = os.environ.get("ENSPARA_REPO", "/repo")
COQ = os.path.join(VERIF, "coq")
if os.path.realpath(REPO) != "/repo" and not os.environ.get("VERIF_SHARED_COQ"):
    # runs against a scratch tree (mutation testing) get a private copy of the Coq tree (with the
    # compiled files, timestamps preserved), so that the Gen files regenerated from the mutated
    # source never leak into the tree that checks of /repo use; removed when the run ends.
    import atexit, shutil
    COQ = os.path.join(VERIF, ".cache", "coq_scratch",
                       hashlib.sha1(os.path.realpath(REPO).encode()).hexdigest()[:12] + "_%d" % os.getpid())
    os.makedirs(os.path.dirname(COQ), exist_ok=True)
    subprocess.run(["rsync", "-a", "--delete", "--exclude", "Cases/", os.path.join(VERIF, "coq") + "/", COQ + "/"],
                   check=True)
    os.makedirs(os.path.join(COQ, "Cases"), exist_ok=True)
    atexit.register(lambda d=COQ: shutil.rmtree(d, ignore_errors=True))
NPROC = 16

ALLOWED_AXIOMS = {
    # axioms declared by Coq's own standard library (Reals, FunctionalExtensionality, Classical)
    "ClassicalDedekindReals.sig_forall_dec", "ClassicalDedekindReals.sig_not_dec",
    "FunctionalExtensionality.functional_extensionality_dep", "Classical_Prop.classic",
}
FORBIDDEN = re.compile(r"\b(Admitted|admit|Axiom|Axioms|Parameter|Parameters|Conjecture|Hypothesis|Variable)\b"
                       r"|Unset\s+Guard|bypass_check|type-in-type|impredicative-set|Admit\s+Obligations")


class TranslatorReject(Exception):
    pass


# ----------------------------------------------------------------------------- Coq literals
def cz(n):
    n = int(n)
    return "(%d)%%Z" % n


def cn(n):
    n = int(n)
    assert 0 <= n < 5000, n
    return "%d%%nat" % n


def cb(b):
    return "true" if b else "false"


def cq(fr):
    """fractions.Fraction / int -> Q literal (den must be positive)."""
    from fractions import Fraction
    fr = Fraction(fr)
    return "(Qmake (%d) %d)" % (fr.numerator, fr.denominator)


def clist(xs, f, ty=None):
    if len(xs) == 0 and ty:
        return "(@nil %s)" % ty
    return "[" + "; ".join(f(x) for x in xs) + "]"


def copt(x, f, ty=None):
    if x is None:
        return "(@None %s)" % ty if ty else "None"
    return "(Some %s)" % f(x)


# ----------------------------------------------------------------------------- build
def sh(cmd, cwd=None, timeout=1800, env=None):
    e = dict(os.environ)
    if env:
        e.update(env)
    try:
        r = subprocess.run(cmd, cwd=cwd, shell=isinstance(cmd, str), stdout=subprocess.PIPE,
                           stderr=subprocess.STDOUT, text=True, timeout=timeout, env=e)
        return r.returncode, r.stdout
    except subprocess.TimeoutExpired as ex:
        return 124, (ex.stdout or "") + "\nTIMEOUT"


class Lock:
    def __enter__(self):
        os.makedirs(os.path.join(VERIF, ".cache"), exist_ok=True)
        self.f = open(os.path.join(VERIF, ".cache", "build.lock"), "w")
        fcntl.flock(self.f, fcntl.LOCK_EX)

    def __exit__(self, *a):
        fcntl.flock(self.f, fcntl.LOCK_UN)
        self.f.close()


def write_if_changed(path, text):
    os.makedirs(os.path.dirname(path), exist_ok=True)
    try:
        with open(path) as f:
            if f.read() == text:
                return False
    except FileNotFoundError:
        pass
    with open(path, "w") as f:
        f.write(text)
    return True


def ensure_makefile():
    mk = os.path.join(COQ, "Makefile")
    cp = os.path.join(COQ, "_CoqProject")
    if (not os.path.exists(mk)) or os.path.getmtime(mk) < os.path.getmtime(cp):
        rc, out = sh("coq_makefile -f _CoqProject -o Makefile", cwd=COQ)
        if rc != 0:
            raise SystemExit("coq_makefile failed:\n" + out)


def make(targets, timeout=1500):
    """Build the given .vo targets (and their dependencies).  Returns (ok, log)."""
    rc, out = sh(["timeout", str(timeout), "make", "-j%d" % NPROC] + targets, cwd=COQ,
                 timeout=timeout + 30)
    return rc == 0, out


def coqc(relpath, timeout=600):
    rc, out = sh(["timeout", str(timeout), "coqc", "-q", "-R", ".", "EV", relpath], cwd=COQ,
                 timeout=timeout + 30)
    return rc == 0, out


def run_translators(mods):
    """mods: property modules; each may define translate() -> {relpath: text}.
    Returns list of (module, error-string) for rejected sources."""
    rejected = []
    for m in mods:
        tr = getattr(m, "translate", None)
        if tr is None:
            continue
        try:
            files = tr(REPO)
        except TranslatorReject as ex:
            rejected.append((m, str(ex)))
            # leave a deliberately failing file so that nothing stale is used
            for rel in getattr(m, "GEN_FILES", []):
                write_if_changed(os.path.join(COQ, rel),
                                 "(* translator rejected the source: %s *)\nFail Fail Check I.\n" %
                                 str(ex).replace("*)", "* )"))
            continue
        for rel, text in files.items():
            write_if_changed(os.path.join(COQ, rel), text)
    return rejected


# ----------------------------------------------------------------------------- proof obligations
def parse_props_output(out):
    """From coqc stdout of a Props file: {theorem: [axioms]} from Print Assumptions blocks.
    Our Props files print `(*OBLIGATION name*)` markers via idtac? No: we rely on the fixed
    layout `Print Assumptions name.` emitting either 'Closed under the global context' or
    'Axioms:' followed by indented lines."""
    blocks = []
    cur = None
    for line in out.splitlines():
        if line.startswith("Closed under the global context"):
            blocks.append([])
            cur = None
        elif line.startswith("Axioms:"):
            cur = []
            blocks.append(cur)
        elif cur is not None:
            # Coq prints each axiom name at column 0 ("name : type"), continuation lines indented
            m = re.match(r"([A-Za-z_][\w.']*)\s*(:|$)", line)
            if m:
                cur.append(m.group(1))
            elif line.startswith(" ") or line.startswith("\t") or line.strip() == "":
                pass
            else:
                cur = None
    return blocks


def props_theorems(relpath):
    with open(os.path.join(COQ, relpath)) as f:
        src = f.read()
    src_nc = re.sub(r"\(\*.*?\*\)", "", src, flags=re.S)
    thms = re.findall(r"^\s*(?:Theorem|Example)\s+([\w']+)", src_nc, flags=re.M)
    prints = re.findall(r"^\s*Print\s+Assumptions\s+([\w']+)\s*\.", src_nc, flags=re.M)
    return thms, prints


def forbidden_scan():
    bad = []
    for root, _, files in os.walk(COQ):
        if os.sep + "Cases" in root:
            continue
        for fn in files:
            if not fn.endswith(".v"):
                continue
            p = os.path.join(root, fn)
            with open(p) as f:
                txt = re.sub(r"\(\*.*?\*\)", "", f.read(), flags=re.S)
            # Section-local Variable/Hypothesis are allowed: only flag them outside sections
            depth = 0
            for i, line in enumerate(txt.splitlines(), 1):
                if re.match(r"\s*Section\s+\w+", line):
                    depth += 1
                if re.match(r"\s*End\s+\w+", line) and depth > 0:
                    depth -= 1
                m = FORBIDDEN.search(line)
                if m:
                    tok = m.group(0)
                    if tok in ("Variable", "Hypothesis") and depth > 0:
                        continue
                    if tok in ("Variable", "Hypothesis") and not re.match(r"\s*(Variable|Hypothesis)\b", line):
                        continue
                    if tok in ("Parameter", "Parameters") and not re.match(r"\s*Parameters?\b", line):
                        continue
                    bad.append("%s:%d: %s" % (os.path.relpath(p, COQ), i, line.strip()))
    return bad


# ----------------------------------------------------------------------------- cases in Coq
CASES_DIR = os.path.join(COQ, "Cases")


def eval_cases(pid, header, terms, shard=300, timeout=900):
    """terms: list of Coq terms of type bool.  Returns (failing_indices, errors)."""
    os.makedirs(CASES_DIR, exist_ok=True)
    for fn in os.listdir(CASES_DIR):
        if fn.startswith(pid + "_"):
            os.remove(os.path.join(CASES_DIR, fn))
    shards = [terms[i:i + shard] for i in range(0, len(terms), shard)]
    files = []
    for k, sh_terms in enumerate(shards):
        rel = "Cases/%s_%d.v" % (pid, k)
        body = [header, "From EV Require Import CaseLib.", "Open Scope list_scope.",
                "Definition results : list bool := ["]
        body.append(";\n".join("  (%s)" % t for t in sh_terms))
        body.append("].")
        body.append("Eval vm_compute in (failing results).")
        with open(os.path.join(COQ, rel), "w") as f:
            f.write("\n".join(body) + "\n")
        files.append(rel)
    from concurrent.futures import ThreadPoolExecutor
    failing, errors = [], []

    def one(args):
        k, rel = args
        ok, out = coqc(rel, timeout=timeout)
        return k, rel, ok, out
    with ThreadPoolExecutor(max_workers=NPROC) as ex:
        for k, rel, ok, out in ex.map(one, list(enumerate(files))):
            if not ok:
                errors.append((rel, out[-3000:]))
                continue
            m = re.search(r"=\s*(\[.*?\]|nil)\s*:\s*list nat", out, flags=re.S)
            if not m:
                errors.append((rel, "unparsable output: " + out[-2000:]))
                continue
            body = m.group(1)
            if body != "nil":
                for tok in re.findall(r"\d+", body):
                    failing.append(k * shard + int(tok))
    for fn in os.listdir(CASES_DIR):
        if fn.startswith(pid + "_") and not fn.endswith(".v"):
            try:
                os.remove(os.path.join(CASES_DIR, fn))
            except OSError:
                pass
    return sorted(failing), errors


def eval_show(pid, header, term, timeout=300):
    rel = "Cases/%s_show.v" % pid
    os.makedirs(CASES_DIR, exist_ok=True)
    with open(os.path.join(COQ, rel), "w") as f:
        f.write(header + "\nOpen Scope list_scope.\nEval vm_compute in (%s).\n" % term)
    ok, out = coqc(rel, timeout=timeout)
    return out.strip()[-4000:]


# ----------------------------------------------------------------------------- known findings
def load_findings(pid):
    res = []
    p = os.path.join(VERIF, "known_findings.txt")
    if not os.path.exists(p):
        return res
    for line in open(p):
        line = line.strip()
        m = re.match(r"finding:\s+property=(\w+)\s+key=(\S+)\s+(.*)$", line)
        if m and m.group(1) == pid:
            res.append({"key": m.group(2), "what": m.group(3)})
    return res


# ----------------------------------------------------------------------------- the run
def jhash(x):
    return hashlib.sha256(json.dumps(x, sort_keys=True, default=str).encode()).hexdigest()[:16]


def run_check(pid, tier, replay=None):
    t0 = time.time()
    seed = int(os.environ.get("VERIF_SEED", "0"))
    sys.path.insert(0, os.path.join(VERIF, "harness"))
    mod = importlib.import_module("props.%s" % pid.lower())
    import bootstrap
    log = lambda *a: print("[%s]" % pid, *a, flush=True)
    violations = []      # dicts: kind, key, detail, case
    known_hits = []
    ev = {"property_id": pid, "tier": tier, "seed": seed, "level": "proof", "coverage": {},
          "assumptions": list(getattr(mod, "ASSUMPTIONS", [])), "wall_s": 0.0, "violations": 0}
    cov = ev["coverage"]

    # ---- 1. build what depends on /repo
    world = getattr(mod, "WORLD_SIZE", 1)
    try:
        bootstrap.install(world)
    except SystemExit as ex:
        violations.append({"kind": "build-failed", "key": "build", "detail": str(ex), "case": None})
    props_rel = mod.PROPS_FILE
    build_targets = list(mod.MODEL_TARGETS) + ["CaseLib.vo"]
    with Lock():   # critical section: generated files, the Makefile, and a rebuild when one is needed
        rejected = run_translators([mod])
        ensure_makefile()
        # Several checks share Gen files and compiled models.  When the source changed, exactly one
        # process rebuilds them (under the lock); when everything is up to date (the normal case)
        # `make -q` says so and the lock is released at once.
        rc_q, _ = sh(["make", "-q"] + build_targets + [props_rel + "o"], cwd=COQ, timeout=600)
        if rc_q != 0:
            make(build_targets)
            make([props_rel + "o"])
    for m, err in rejected:
        violations.append({"kind": "translator-rejected-source", "key": "translator",
                           "detail": err, "case": None,
                           "names": "translator for %s" % ", ".join(getattr(m, "GEN_FILES", []))})
    # model files first (cases need them even when a proof is broken)
    model_ok, model_log = make(build_targets)
    # ---- 2. proof obligations
    proof_ok, proof_log = make([props_rel + "o"])
    assumptions_out = ""
    if proof_ok:
        ok2, assumptions_out = coqc(props_rel)
        proof_ok = ok2
        if not ok2:
            proof_log = assumptions_out
    thms, prints = props_theorems(props_rel)
    cov["obligations"] = len(thms)
    trusted = ["Coq 8.16.1 kernel (coqc, vm_compute); no native_compute",
               "correspondence harness (generators, canonicalisation, NumPy/SciPy as executed)"]
    trusted += list(getattr(mod, "TRUSTED", []))
    if proof_ok:
        blocks = parse_props_output(assumptions_out)
        axioms = sorted({a for b in blocks for a in b})
        extra = [a for a in axioms if a not in ALLOWED_AXIOMS]
        missing_print = [t for t in thms if t not in prints]
        cov["discharged"] = len(thms)
        cov["print_assumptions_blocks"] = len(blocks)
        cov["axioms_reported"] = axioms
        trusted.append("Print Assumptions over %s: %s" % (
            props_rel, ("axioms " + ", ".join(axioms)) if axioms else "Closed under the global context (all theorems)"))
        if extra or len(blocks) < len(prints) or missing_print:
            proof_ok = False
            proof_log = "assumption check failed: extra axioms %s; blocks %d < prints %d; theorems without Print Assumptions %s" % (
                extra, len(blocks), len(prints), missing_print)
        bad = forbidden_scan()
        if bad:
            proof_ok = False
            proof_log = "forbidden tokens in development:\n" + "\n".join(bad[:20])
    if not proof_ok:
        cov["discharged"] = 0
        m = re.search(r'File "\./([^"]+)", line (\d+)', proof_log)
        where = ("%s line %s" % (m.group(1), m.group(2))) if m else props_rel
        violations.append({"kind": "proof-broken", "key": "proof", "detail": proof_log[-3000:],
                           "case": None, "names": "proof obligations of %s (first failure at %s)" % (props_rel, where)})
        log("proof obligations NOT discharged:", where)
    else:
        log("proof obligations discharged: %d theorems in %s" % (len(thms), props_rel))
    # ---- independent re-check of the compiled files (thorough tier): coqchk -o
    if proof_ok and tier == "thorough" and not replay and not os.environ.get("VERIF_SKIP_COQCHK"):
        lib = "EV." + props_rel[:-2].replace("/", ".")
        rc_chk, out_chk = sh(["timeout", "1700", "coqchk", "-silent", "-o", "-R", ".", "EV", lib], cwd=COQ, timeout=1750)
        summ = out_chk[out_chk.find("CONTEXT SUMMARY"):] if "CONTEXT SUMMARY" in out_chk else out_chk[-1500:]
        cov["coqchk"] = {"exit": rc_chk, "summary": summ[-1800:]}
        bad_chk = []
        if rc_chk != 0:
            bad_chk.append("coqchk exit %d" % rc_chk)
        for key in ("type-in-type", "unsafe (co)fixpoints", "positivity is assumed"):
            m = re.search(re.escape(key) + r":\s*(.*)", summ)
            if m and "<none>" not in m.group(1):
                bad_chk.append("%s: %s" % (key, m.group(1)))
        m = re.search(r"\* Axioms:(.*?)\n\s*\n\* Constants", summ, flags=re.S)
        if m and "<none>" not in m.group(1):
            names = re.findall(r"([A-Za-z_][\w.']*)", m.group(1))
            short = {a.split(".")[-1] for a in ALLOWED_AXIOMS}
            extra_chk = [nm for nm in names if nm.split(".")[-1] not in short and "." in nm]
            cov["coqchk"]["axioms"] = names
            if extra_chk:
                bad_chk.append("axioms outside the whitelist: %s" % extra_chk)
        trusted.append("coqchk -o over %s: %s" % (lib, "ok" if not bad_chk else "; ".join(bad_chk)))
        if bad_chk:
            proof_ok = False
            violations.append({"kind": "proof-broken", "key": "coqchk", "detail": "; ".join(bad_chk) + "\n" + summ[-1500:],
                               "case": None, "names": "coqchk -o over %s" % lib})
    cov["checker_cmd"] = "cd /verif/coq && make %so && coqc -q -R . EV %s  (full .vo build; Print Assumptions parsed)" % (props_rel, props_rel)
    cov["trusted_base"] = trusted
    cov["theorems"] = thms

    # ---- 3/4. correspondence + oracle
    rng = random.Random(seed * 1000003 + (1 if tier == "thorough" else 0))
    if replay:
        with open(replay) as f:
            rp = json.load(f)
        cases = [rp["case"]] if rp.get("case") is not None else []
    else:
        cases = []
        corpus = os.path.join(VERIF, "corpus", pid + ".jsonl")
        if os.path.exists(corpus):
            for line in open(corpus):
                if line.strip():
                    cases.append(json.loads(line))
        cases += mod.generate(rng, tier)
    results, oracle_fail = [], []
    hist = {}
    for c in cases:
        try:
            r = mod.run_impl(c)
        except Exception as ex:  # harness bug or unexpected impl error: reported, never hidden
            r = {"err": "Unexpected:" + type(ex).__name__, "msg": str(ex)[:300],
                 "tb": traceback.format_exc()[-1500:]}
        results.append(r)
        try:
            ofs = mod.oracle(c, r) or []
        except Exception as ex:   # the implementation returned something the oracle cannot even read
            ofs = [("oracle-exception", "oracle raised %s: %s on implementation result %s" % (
                type(ex).__name__, str(ex)[:200], json.dumps(r, default=str)[:300]))]
        for key, msg in ofs:
            oracle_fail.append((key, msg, c, r))
        try:
            tg = getattr(mod, "tags", lambda c, r: [])(c, r)
        except Exception:
            tg = ["tags-exception"]
        for tag in tg:
            hist[tag] = hist.get(tag, 0) + 1
    terms = []
    term_idx = []
    for i, (c, r) in enumerate(zip(cases, results)):
        try:
            t = mod.coq_check(c, r)
        except Exception as ex:
            t = None
            oracle_fail.append(("coq-term-exception", "building the Coq comparison raised %s: %s" % (type(ex).__name__, str(ex)[:200]), c, r))
        if t is not None:
            terms.append(t)
            term_idx.append(i)
    mism, errs = ([], [])
    if terms and model_ok:
        mism, errs = eval_cases(pid, mod.CASE_HEADER, terms, shard=getattr(mod, "SHARD", 300))
    elif terms:
        errs = [("model build", model_log[-3000:])]
    findings = load_findings(pid)
    fkeys = {f["key"]: f for f in findings}
    for key, msg, c, r in oracle_fail:
        if key in fkeys:
            known_hits.append((key, msg))
            continue
        violations.append({"kind": "property-fails-on-impl", "key": key, "detail": msg, "case": c, "impl": r})
    for j in mism:
        i = term_idx[j]
        violations.append({"kind": "correspondence-mismatch", "key": "corr", "case": cases[i], "impl": results[i],
                           "detail": "model and implementation disagree",
                           "names": "correspondence %s (model %s vs /repo)" % (pid, ", ".join(mod.MODEL_TARGETS))})
    for rel, out in errs:
        violations.append({"kind": "correspondence-error", "key": "corr", "case": None, "detail": out,
                           "names": "correspondence %s: case file %s did not evaluate" % (pid, rel)})
    # essential branches
    for tag in getattr(mod, "ESSENTIAL_TAGS", []):
        if not replay and hist.get(tag, 0) == 0:
            violations.append({"kind": "coverage-hole", "key": "coverage", "case": None,
                               "detail": "essential branch %r never exercised by this run" % tag,
                               "names": "generator coverage for %s" % pid})
    distinct = {}
    for c, r in zip(cases, results):
        try:
            nt = mod.nontrivial(c, r)
        except Exception:
            nt = False
        if nt:
            distinct[jhash(c)] = 1
    cov["evaluations"] = len(cases)
    cov["traces_validated_against_impl"] = len(terms) - len(mism) if model_ok else 0
    cov["distinct_nontrivial"] = len(distinct)
    cov["rule"] = getattr(mod, "RULE", "")
    cov["histogram"] = hist
    cov["samples"] = [{"case": c, "impl": r} for c, r in list(zip(cases, results))[:3]]
    if proof_ok:
        cov["samples"].append({"obligations": thms[:6]})
    cov["exhaustive"] = bool(getattr(mod, "EXHAUSTIVE", {}).get(tier, False))

    # ---- 5. report
    rc = 0
    concrete = [v for v in violations if v["kind"] == "property-fails-on-impl"]
    other = [v for v in violations if v["kind"] != "property-fails-on-impl"]
    if other and not concrete and not replay and hasattr(mod, "search"):
        # proof/correspondence broke but this run's oracle saw nothing: look harder
        log("searching for a concrete failing input ...")
        found = mod.search(random.Random(seed + 77), tier)
        for key, msg, c, r in found or []:
            if key in fkeys:
                continue
            concrete.append({"kind": "property-fails-on-impl", "key": key, "detail": msg, "case": c, "impl": r})
            break
    if concrete or other:
        rc = 1
        os.makedirs(os.path.join(VERIF, "replays", pid), exist_ok=True)
        concrete.sort(key=lambda v: len(json.dumps(v.get("case"), default=str)))
        lead = concrete[0] if concrete else other[0]
        rp = {"property": pid, "kind": lead["kind"], "key": lead["key"], "detail": lead["detail"],
              "case": lead.get("case"), "impl_result": lead.get("impl"),
              "no_longer_checks": list(dict.fromkeys(v.get("names") for v in other if v.get("names"))),
              "all_violation_kinds": sorted({v["kind"] for v in concrete + other}),
              "replay_cmd": "cd /verif && ./check %s --replay <this file>" % pid}
        if lead.get("case") is not None and model_ok and hasattr(mod, "coq_show"):
            try:
                rp["model_result"] = eval_show(pid, mod.CASE_HEADER, mod.coq_show(lead["case"]))
            except Exception as ex:
                rp["model_result"] = "unavailable: %s" % ex
        path = os.path.join(VERIF, "replays", pid, "%s.json" % jhash(rp))
        with open(path, "w") as f:
            json.dump(rp, f, indent=1, default=str)
        suffix = "" if concrete else " no-failing-input-found"
        for v in (concrete + other)[:8]:
            log("violation:", v["kind"], v["key"], str(v["detail"])[:400].replace("\n", " | "))
        print("VIOLATION property=%s replay=%s%s" % (pid, path, suffix), flush=True)
    seen = set()
    for key, msg in known_hits:
        if key not in seen:
            seen.add(key)
            print("KNOWN-FINDING: property=%s %s (%s)" % (pid, fkeys[key]["what"], msg[:160]), flush=True)
    cov["known_findings_reproduced"] = sorted(seen)
    ev["violations"] = len(concrete) + len(other)
    ev["wall_s"] = round(time.time() - t0, 2)
    if not replay:
        # runs against a scratch tree (mutation testing) must not overwrite the evidence of /repo
        evdir = os.path.join(VERIF, "evidence") if os.path.realpath(REPO) == "/repo" else \
            os.path.join(VERIF, ".cache", "evidence_scratch")
        os.makedirs(evdir, exist_ok=True)
        with open(os.path.join(evdir, pid + ".json"), "w") as f:
            json.dump(ev, f, indent=1, default=str)
    else:
        for c, r in zip(cases, results):
            print("case:", json.dumps(c, default=str)[:3000])
            print("implementation:", json.dumps(r, default=str)[:3000])
            if model_ok and hasattr(mod, "coq_show"):
                print("model:", eval_show(pid, mod.CASE_HEADER, mod.coq_show(c)))
    log("done: %d cases, %d compared in Coq, %d mismatches, %d oracle failures, %.1fs" % (
        len(cases), len(terms), len(mism), len(oracle_fail), time.time() - t0))
    return rc
