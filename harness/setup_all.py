import glob, importlib, json, os, sys
sys.path.insert(0, os.path.dirname(os.path.abspath(__file__)))
import core
claimed = {c["property_id"] for c in json.load(open(os.path.join(core.VERIF, "MANIFEST.json")))["checks"]}
mods = []
for f in sorted(glob.glob(os.path.join(core.VERIF, "harness", "props", "c*.py"))):
    try:
        mods.append(importlib.import_module("props." + os.path.basename(f)[:-3]))
    except Exception as ex:   # a module of a property that is not claimed yet must not break setup
        print("skipping", f, ex)
with core.Lock():
    rej = core.run_translators(mods)
    for m, e in rej:
        print("translator rejected:", m.PID, e)
    core.ensure_makefile()
rc, out = core.sh(["timeout", "3000", "make", "-k", "-j16"], cwd=core.COQ, timeout=3100)
print(out[-2500:])
missing = []
for m in mods:
    if m.PID in claimed:
        for t in list(m.MODEL_TARGETS) + [m.PROPS_FILE + "o"]:
            if not os.path.exists(os.path.join(core.COQ, t)):
                missing.append("%s: %s" % (m.PID, t))
if missing:
    print("setup: claimed properties with unbuilt targets:", missing)
    sys.exit(1)
print("setup ok (%d claimed properties built%s)" % (len(claimed), "" if rc == 0 else "; some unclaimed work-in-progress files failed"))
