import glob, importlib, os, sys
sys.path.insert(0, os.path.dirname(os.path.abspath(__file__)))
import core
mods = []
for f in sorted(glob.glob(os.path.join(core.VERIF, "harness", "props", "c*.py"))):
    mods.append(importlib.import_module("props." + os.path.basename(f)[:-3]))
with core.Lock():
    rej = core.run_translators(mods)
    for m, e in rej:
        print("translator rejected:", m.PID, e)
    core.ensure_makefile()
    rc, out = core.sh(["timeout", "3000", "make", "-k", "-j16"], cwd=core.COQ, timeout=3100)
    print(out[-3000:])
    sys.exit(0 if rc == 0 else 1)
