"""Shared driver for the clustering properties (C01, C02, C09, C10): generators, real-code runner
with recorded randomness, distance matrices as exact rationals, Coq terms for the model, and an
independent Python statement of the invariants (the oracle)."""
import hashlib, itertools
from fractions import Fraction as F
import numpy as np
from core import cn, cq, cb, clist, copt

CASE_HEADER = ("From Coq Require Import List ZArith QArith.\nFrom EV Require Import KcGuardBase KcGuardGen KcArgs Cluster ClusterCase.\n"
               "Import ListNotations.\n")
MODEL_TARGETS = ["Model/Cluster.vo", "Model/ClusterCase.vo", "Model/KcArgs.vo"]
GEN_FILES = ["Gen/KcGuardGen.v", "Gen/ClusterGen.v"]


def translate_all(repo):
    import os, sys
    from core import VERIF
    sys.path.insert(0, os.path.join(VERIF, "translator"))
    import tr_kcguard, tr_cluster
    d = dict(tr_kcguard.translate(repo))
    d.update(tr_cluster.translate(repo))
    return d
TRUSTED = ["modelled not verified: NumPy argmax/boolean-mask assignment/np.unique, the metric kernels themselves "
           "(the model receives the implementation's own distance matrix as exact rationals, C13 covers the kernels)",
           "k-medoids proposals are recorded from the implementation's RandomState and replayed in the model"]


# ----------------------------------------------------------------------------- data & metrics
def gen_points(rng, n, dim, hi):
    while hi ** dim < 2 * n:      # enough room for n distinct points
        hi += 1
    pts = set()
    while len(pts) < n:
        pts.add(tuple(rng.randrange(hi) for _ in range(dim)))
    pts = list(pts)
    rng.shuffle(pts)
    return [list(p) for p in pts]


def gen_matrix(rng, n, hi):
    """arbitrary symmetric integer 'metric' with zero diagonal, positive off it; with
    probability 1/2 made to satisfy the triangle inequality (shortest-path closure)."""
    M = [[0] * n for _ in range(n)]
    for i in range(n):
        for j in range(i + 1, n):
            M[i][j] = M[j][i] = rng.randint(1, hi)
    tri = rng.random() < 0.5
    if tri:
        for k in range(n):
            for i in range(n):
                for j in range(n):
                    if M[i][k] + M[k][j] < M[i][j]:
                        M[i][j] = M[i][k] + M[k][j]
    return M, tri


def make_X(case):
    if case.get("traj"):
        # an md.Trajectory whose frames are told apart by their time stamp; the metric is a user-supplied
        # float64 callable (an arbitrary distance table), as for RMSD-like metrics on structures
        import mdtraj as md
        n = len(case["M"])
        top = md.Topology()
        top.add_atom("CA", md.element.carbon, top.add_residue("ALA", top.add_chain()))
        return md.Trajectory(np.zeros((n, 1, 3), dtype=np.float32), top, time=np.arange(n, dtype=float))
    if case["metric"] == "matrix":
        return np.arange(len(case["M"]), dtype=float).reshape(-1, 1)
    return np.array(case["X"], dtype=case.get("dtype", "float64"))


def make_metric(case):
    if case.get("traj"):
        M = np.array([[float(F(v)) for v in row] for row in case["M"]], dtype=float)

        def dmt(X, y):
            return M[np.asarray(X.time).astype(int), int(np.asarray(y.time)[0])]
        return dmt
    if case["metric"] == "matrix":
        M = np.array(case["M"], dtype=float)

        def dm(X, y):
            return M[np.asarray(X)[:, 0].astype(int), int(np.asarray(y)[0])]
        return dm
    return case["metric"]


def dist_matrix(X, metric):
    from enspara.cluster import util
    dm = util._get_distance_method(metric)
    return [[F(float(v)) for v in dm(X, X[c])] for c in range(len(X))]


def is_metric_space(D):
    n = len(D)
    for i in range(n):
        for j in range(n):
            if D[i][j] != D[j][i]:
                return False
            for k in range(n):
                if D[i][j] > D[i][k] + D[k][j]:
                    return False
    return True


class RecordingRandomState(np.random.RandomState):
    """np.random.RandomState whose `choice` results are logged (the code accepts an instance)."""

    def __init__(self, seed):
        super().__init__(seed)
        self.log = []

    def choice(self, a, *args, **kw):
        r = super().choice(a, *args, **kw)
        self.log.append(int(r))
        return r


def xhash(X):
    if hasattr(X, "xyz"):
        return hashlib.sha256(np.ascontiguousarray(X.xyz).tobytes() + np.ascontiguousarray(X.time).tobytes()).hexdigest()
    return hashlib.sha256(np.ascontiguousarray(X).tobytes()).hexdigest()


def canon(result, X):
    ci = [int(i) for i in result.center_indices]
    def same(c, i):
        if hasattr(c, "time"):
            return len(c) == 1 and float(c.time[0]) == float(X[i].time[0]) and np.array_equal(c.xyz, X[i].xyz)
        return np.array_equal(np.asarray(c), np.asarray(X[i]))
    cen_ok = len(result.centers) == len(ci) and all(same(c, i) for c, i in zip(result.centers, ci))
    return {"ctrs": ci, "asg": [int(a) for a in result.assignments],
            "dst": [str(F(float(d))) for d in result.distances], "centers_are_frames": bool(cen_ok)}


# ----------------------------------------------------------------------------- real-code runner
def run_case(c):
    """Runs the real entry point of the case; returns canonical result + the distance matrix."""
    from enspara.cluster import kcenters as KC, kmedoids as KM, hybrid as KH, util
    X = make_X(c)
    metric = make_metric(c)
    h0 = xhash(X)
    out = {}
    try:
        out["D"] = [[str(v) for v in row] for row in dist_matrix(X, metric)]
        kind = c["kind"]
        if kind == "kcenters":
            init = None if c.get("init") is None else X[c["init"]]
            if c.get("form") == "class":
                est = KC.KCenters(metric, n_clusters=c["nclu"], cluster_radius=c["cutoff"])
                est.fit(X, init_centers=init)
                res = est.result_
                out["attrs_ok"] = bool(np.array_equal(est.labels_, res.assignments) and
                                       np.array_equal(est.distances_, res.distances) and
                                       list(est.center_indices_) == list(res.center_indices))
            else:
                kw = {}
                if c["nclu"] is not None or c.get("explicit_none"):
                    kw["n_clusters"] = c["nclu"]
                if c["cutoff"] is not None or c.get("explicit_none"):
                    kw["dist_cutoff"] = c["cutoff"]
                res = KC.kcenters(X, metric, init_centers=init,
                                  use_triangle_inequality=bool(c.get("ti")), **kw)
            out["res"] = canon(res, X)
        elif kind == "kmedoids":
            rec = RecordingRandomState(c["seed"])
            dmf = util._get_distance_method(metric)
            start = c["start"]
            kw = dict(n_iters=c["n_iters"], random_state=rec)
            if c.get("proposals") is not None:
                kw["proposals"] = list(c["proposals"])
                props_arg = kw["proposals"]
            if start["how"] == "cold":
                # public cold-start path with an integer seed; the proposals it drew are recovered by
                # chaining the real per-sweep routine from the real start state with a recording
                # RandomState seeded the same way (check_random_state(int) builds one per sweep)
                a, d, ci = KM._kmedoids_inputs_tree(X, dmf, start["k"], None, None, None, None,
                                                    random_state=c["seed"])
                out["start_ctrs"] = [int(i) for i in ci]
                res = KM.kmedoids(X, metric, n_clusters=start["k"], n_iters=c["n_iters"],
                                  proposals=kw.get("proposals"), random_state=c["seed"])
                ci, a, d = [int(i) for i in ci], a.copy(), d.copy()
                log = []
                for _ in range(c["n_iters"]):
                    r1 = RecordingRandomState(c["seed"])
                    ci, d, a, cen = KM._kmedoids_pam_update(X, dmf, list(ci), a, d,
                                                            proposals=kw.get("proposals"), random_state=r1)
                    log += r1.log
                rec.log = log
                out["chain_equal"] = bool([int(i) for i in ci] == [int(i) for i in res.center_indices]
                                          and np.array_equal(a, res.assignments)
                                          and np.array_equal(d, res.distances))
            elif start["how"] == "centers":
                out["start_ctrs"] = list(start["ctrs"])
                ci_arg = list(start["ctrs"])
                res = KM.kmedoids(X, metric, cluster_center_inds=ci_arg, **kw)
                out["args_unchanged"] = (ci_arg == list(start["ctrs"]))
            elif start["how"] == "pairs":
                lens = start["lengths"]
                flat = [sum(lens[:t]) + f for t, f in start["pairs"]]
                out["start_ctrs"] = flat
                res = KM.kmedoids(X, metric, cluster_center_inds=[list(p) for p in start["pairs"]],
                                  X_lengths=lens, **kw)
            else:  # "state": consistent (centres, labels, distances) from a k-centers run
                r0 = KC.kcenters(X, metric, n_clusters=start["k"])
                out["start_ctrs"] = [int(i) for i in r0.center_indices]
                ci = list(r0.center_indices) if start.get("give_ctrs", True) else None
                a_arg, d_arg = r0.assignments.copy(), r0.distances.copy()
                ci_copy = None if ci is None else list(ci)
                res = KM.kmedoids(X, metric, assignments=a_arg, distances=d_arg, cluster_center_inds=ci, **kw)
                out["args_unchanged"] = bool(np.array_equal(a_arg, r0.assignments) and np.array_equal(d_arg, r0.distances)
                                             and (ci is None or [int(i) for i in ci] == [int(i) for i in ci_copy]))
                out["result_aliases_args"] = bool(np.shares_memory(res.assignments, a_arg) or np.shares_memory(res.distances, d_arg))
            out["res"] = canon(res, X)
            out["proposals_log"] = list(rec.log)
            if c.get("extras") and start["how"] != "cold":
                out["prefix"] = []
                for j in range(1, c["n_iters"] + 1):
                    cj = dict(c, n_iters=j, extras=False)
                    oj = run_case(cj)
                    out["prefix"].append(oj.get("res"))
                out["repeat_equal"] = (out["prefix"][-1] == out["res"])
        elif kind == "hybrid":
            rec = RecordingRandomState(c["seed"])
            init = None if c.get("init") is None else X[c["init"]]
            if c.get("init_pts") is not None:      # initial centres that are NOT frames of the data (e.g. centroids)
                init = np.array(c["init_pts"], dtype=X.dtype)
            if c.get("form") == "class":
                est = KH.KHybrid(metric, n_clusters=c["nclu"], cluster_radius=c["cutoff"],
                                 kmedoids_updates=c["n_iters"], random_state=rec)
                est.fit(X, init_centers=init)
                res = est.result_
            else:
                kw = {}
                if c["nclu"] is not None:
                    kw["n_clusters"] = c["nclu"]
                if c["cutoff"] is not None:
                    kw["dist_cutoff"] = c["cutoff"]
                res = KH.hybrid(X, metric, n_iters=c["n_iters"], init_centers=init, random_state=rec, **kw)
            out["res"] = canon(res, X)
            out["proposals_log"] = list(rec.log)
            kw2 = {}
            if c["nclu"] is not None:
                kw2["n_clusters"] = c["nclu"]
            if c["cutoff"] is not None:
                kw2["dist_cutoff"] = c["cutoff"]
            out["kc"] = canon(KC.kcenters(X, metric, init_centers=init, **kw2), X)
            if c.get("extras"):
                out["prefix"] = [out["kc"]]
                for j in range(1, c["n_iters"] + 1):
                    oj = run_case(dict(c, n_iters=j, extras=False))
                    out["prefix"].append(oj.get("res"))
                out["repeat_equal"] = (out["prefix"][-1] == out["res"])
        elif kind == "assign":
            cen = X[c["centers"]]
            a, d = util.assign_to_nearest_center(X, cen, util._get_distance_method(metric))
            out["res"] = {"ctrs": list(c["centers"]), "asg": [int(v) for v in a],
                          "dst": [str(F(float(v))) for v in d], "centers_are_frames": True}
    except Exception as ex:
        out["err"] = type(ex).__name__
        out["msg"] = str(ex)[:200]
    out["X_unchanged"] = (xhash(X) == h0)
    return out


# ----------------------------------------------------------------------------- model terms
def q_of(s):
    return cq(F(s))


def D_term(out):
    return clist(out["D"], lambda row: clist(row, q_of, "Q"), "(list Q)")


def res_term(res):
    return "(%s, %s, %s)" % (clist(res["ctrs"], cn, "nat"), clist(res["asg"], cn, "nat"),
                             clist(res["dst"], q_of, "Q"))


def nclu_term(c):
    return copt(c.get("nclu"), cn, "nat")


def cutoff_term(c):
    return cq(F(c["cutoff"])) if c.get("cutoff") is not None else "(Qmake 0 1)"


def split_sweeps(log, k, n_iters):
    return [log[i * k:(i + 1) * k] for i in range(n_iters)]


# ----------------------------------------------------------------------------- oracle pieces
def inv_failures(out, tag=""):
    """C01's statement evaluated on the implementation's result with its own metric."""
    fails = []
    res = out["res"]
    D = [[F(v) for v in row] for row in out["D"]]
    ctrs, asg, dst = res["ctrs"], res["asg"], [F(v) for v in res["dst"]]
    n, k = len(asg), len(ctrs)
    if not res.get("centers_are_frames", True):
        fails.append(("center-not-frame", "a reported centre is not the frame at its index"))
    if len(set(ctrs)) != k or any(not (0 <= c < n) for c in ctrs):
        fails.append(("center-indices", "centre indices %s not distinct frames" % ctrs))
        return fails
    for f in range(n):
        a = asg[f]
        if not (0 <= a < k):
            fails.append(("label-range", "frame %d has label %d, k=%d" % (f, a, k)))
            break
        if dst[f] != D[ctrs[a]][f]:
            fails.append(("distance-value", "frame %d: reported %s, metric distance to its centre %s" % (f, dst[f], D[ctrs[a]][f])))
            break
        closer = [j for j in range(k) if D[ctrs[j]][f] < dst[f]]
        if closer:
            fails.append(("closer-center", "frame %d assigned to %d at %s but centre %d is at %s" % (f, a, dst[f], closer[0], D[ctrs[closer[0]]][f])))
            break
    for j, cfr in enumerate(ctrs):
        if asg[cfr] != j or dst[cfr] != 0:
            fails.append(("center-own-label", "centre %d (frame %d) has label %d distance %s" % (j, cfr, asg[cfr], dst[cfr])))
            break
    if not out.get("X_unchanged", True):
        fails.append(("input-modified", "the data array was modified"))
    if out.get("args_unchanged") is False:
        fails.append(("input-modified", "caller-supplied assignments / distances / cluster_center_inds were modified"))
    return fails


def cost(res):
    return sum(F(v) ** 2 for v in res["dst"])


# ----------------------------------------------------------------------------- generators
def _base(rng, nmax, pam):
    """data set + metric; pam=True restricts to integer-valued metrics (exact float costs)."""
    n = rng.randint(2, nmax)
    r = rng.random()
    c = {}
    if r < 0.3:
        M, tri = gen_matrix(rng, n, rng.choice([3, 6, 12]))
        c.update(metric="matrix", M=M, tri=tri)
    elif r < 0.6 or pam:
        if rng.random() < 0.5 or not pam:
            dim = rng.randint(1, 3)
            c.update(metric="manhattan", X=gen_points(rng, n, dim, rng.choice([4, 6, 10])))
        else:
            c.update(metric="euclidean", X=gen_points(rng, n, 1, rng.choice([n + 2, 20])))
    else:
        dim = rng.randint(1, 3)
        c.update(metric="euclidean", X=gen_points(rng, n, dim, rng.choice([4, 6, 10])))
    if c["metric"] != "matrix":
        c["dtype"] = rng.choice(["float64", "float64", "float32", "int32", "int64"])
    c["n"] = n
    return c


def gen_kcenters(rng, nmax=12):
    c = _base(rng, nmax, pam=False)
    n = c["n"]
    c["kind"] = "kcenters"
    mode = rng.choice(["k", "k", "r", "both"])
    c["nclu"] = rng.randint(1, n + 2) if mode in ("k", "both") else None     # more clusters than frames is legal
    c["cutoff"] = None
    if mode in ("r", "both"):
        c["cutoff"] = rng.choice(([0] if mode == "both" else []) + [1, 2, 3, 1.5, 2.5, 5])
    c["init"] = None
    if rng.random() < 0.35:
        c["init"] = rng.sample(range(n), rng.randint(1, min(3, n)))
    c["form"] = "class" if rng.random() < 0.25 else "func"
    c["ti"] = (c["form"] == "func" and rng.random() < 0.5)
    if c["form"] == "func" and rng.random() < 0.25:
        c["explicit_none"] = True          # pass n_clusters=None / dist_cutoff=None explicitly
        if rng.random() < 0.2:
            c["nclu"], c["cutoff"] = None, None      # no criterion at all: must be rejected
    return c


def gen_traj_kcenters(rng):
    """k-centers on an md.Trajectory with a user-supplied float64 metric whose values differ only far beyond
    single precision (k * 2^-34 on top of small integers): any float32 storage of distances creates ties"""
    n = rng.randint(3, 8)
    M = [["0"] * n for _ in range(n)]
    for i in range(n):
        for j in range(i + 1, n):
            v = F(rng.randint(1, 3)) + F(rng.randint(0, 7), 2 ** 34)
            M[i][j] = M[j][i] = str(v)
    c = {"metric": "matrix", "M": M, "tri": False, "traj": True, "n": n, "kind": "kcenters", "form": "func",
         "ti": False, "init": None, "nclu": rng.randint(2, n), "cutoff": None}
    if rng.random() < 0.4:
        vals = sorted({F(v) for row in M for v in row if F(v) > 0})
        c["nclu"], c["cutoff"] = None, float(rng.choice(vals))       # a cutoff equal to an attained distance
    return c


def gen_ti_boundary(rng):
    """1-D float data where some frame sits a hair above half the centre-to-new-centre distance:
    the comparison `distances > cc_dists/2` of the triangle shortcut is decided by ~1e-7..1e-9."""
    eps = rng.choice([1e-7, 1e-9, 1e-6, 3e-6, 1e-5])
    span = rng.choice([2, 4, 6])
    pts = [0.0, float(span)]
    for _ in range(rng.randint(1, 4)):
        base = span / 2 + rng.choice([0, 0, 1, -1]) * rng.choice([0, 0.5])
        pts.append(base + rng.choice([1, -1, 2, 0]) * eps)
    pts += [float(rng.randint(1, span * 2)) + rng.choice([0, eps]) for _ in range(rng.randint(0, 3))]
    pts = [pts[0]] + sorted(set(pts[1:]), key=lambda v: rng.random())
    n = len(pts)
    return {"metric": "euclidean", "X": [[p] for p in pts], "dtype": "float64", "n": n, "kind": "kcenters",
            "nclu": rng.randint(2, n), "cutoff": None, "init": None, "form": "func", "ti": rng.random() < 0.8}


def gen_kmedoids(rng, nmax=11):
    c = _base(rng, nmax, pam=True)
    n = c["n"]
    c["kind"] = "kmedoids"
    k = rng.randint(1, min(n, 5))
    how = rng.choice(["cold", "centers", "state", "state", "pairs"])
    st = {"how": how, "k": k}
    if how == "centers":
        st["ctrs"] = rng.sample(range(n), k)
    elif how == "pairs":
        cuts = sorted(rng.sample(range(1, n), min(n - 1, rng.randint(0, 2)))) if n > 1 else []
        lens = [b - a for a, b in zip([0] + cuts, cuts + [n])]
        flat = rng.sample(range(n), k)
        pairs = []
        for fidx in flat:
            t, off = 0, fidx
            while off >= lens[t]:
                off -= lens[t]
                t += 1
            pairs.append([t, off])
        st["lengths"], st["pairs"] = lens, pairs
    elif how == "state":
        st["give_ctrs"] = rng.random() < 0.5
    c["start"] = st
    c["n_iters"] = rng.randint(1, 4)
    c["seed"] = rng.randrange(10 ** 6)
    c["proposals"] = None
    if rng.random() < 0.35:
        c["proposals"] = [rng.randrange(n) for _ in range(k)]
    c["form"] = "func"
    return c


def gen_multiscale(rng):
    """1-D integer data with very different length scales: a tight far-away group and a wide spread,
    so that a worse medoid for the tight group changes the mean cost by a relatively tiny amount."""
    far = rng.choice([5000, 20000, 100000])
    tight = sorted({far + d for d in rng.sample(range(0, 6), rng.randint(2, 4))})
    wide = sorted({rng.randrange(0, 40) * 100 for _ in range(rng.randint(3, 7))})
    pts = wide + tight
    rng.shuffle(pts)
    n = len(pts)
    c = {"metric": rng.choice(["euclidean", "manhattan"]), "X": [[p] for p in pts], "dtype": "float64", "n": n,
         "kind": "kmedoids", "n_iters": rng.randint(1, 3), "seed": rng.randrange(10 ** 6), "form": "func"}
    k = rng.randint(2, min(4, n))
    # start from a consistent state whose tight-group medoid is the best one; propose worse ones
    c["start"] = {"how": "centers", "k": k, "ctrs": rng.sample(range(n), k)}
    c["proposals"] = [rng.randrange(n) for _ in range(k)] if rng.random() < 0.7 else None
    return c


def gen_hybrid(rng, nmax=11):
    c = _base(rng, nmax, pam=True)
    n = c["n"]
    c["kind"] = "hybrid"
    mode = rng.choice(["k", "k", "r", "both"])
    c["nclu"] = rng.randint(1, min(n, 6)) if mode in ("k", "both") else None
    c["cutoff"] = rng.choice([1, 2, 3, 5]) if mode in ("r", "both") else None
    c["init"] = None
    c["n_iters"] = rng.randint(0, 3)
    c["seed"] = rng.randrange(10 ** 6)
    c["form"] = "class" if rng.random() < 0.3 else "func"
    return c


def model_term(c, out):
    """Coq term of type st: the model run on the implementation's distance matrix and history."""
    n = c["n"]
    Dt = "(Dext M %s)" % cn(n)
    kind = c["kind"]

    def kc(cc):
        if cc.get("init") is None:
            return "(kcenters_cold %s %s %s %s %s)" % (Dt, nclu_term(cc), cutoff_term(cc), cb(bool(cc.get("ti"))), cn(n))
        return "(kcenters_warm %s %s %s %s %s %s)" % (Dt, nclu_term(cc), cutoff_term(cc), cb(bool(cc.get("ti"))),
                                                      clist(cc["init"], cn, "nat"), cn(n))
    if kind == "kcenters":
        body = kc(c)
        body = body  # stopping criteria go through the translated normalisation, see coq_check
    elif kind == "assign":
        body = "(nearest_state %s %s %s)" % (Dt, clist(c["centers"], cn, "nat"), cn(n))
    elif kind == "kmedoids":
        st = c["start"]
        k = st["k"]
        if st["how"] == "state":
            start = "(kcenters_cold %s (Some %s) (Qmake 0 1) false %s)" % (Dt, cn(k), cn(n))
            k = len(out["start_ctrs"])
        else:
            start = "(nearest_state %s %s %s)" % (Dt, clist(out["start_ctrs"], cn, "nat"), cn(n))
        if c.get("proposals") is not None:
            sweeps = [c["proposals"]] * c["n_iters"]
        else:
            sweeps = split_sweeps(out["proposals_log"], k, c["n_iters"])
        body = "(kmedoids %s %s %s)" % (Dt, start, clist(sweeps, lambda s: clist(s, cn, "nat"), "(list nat)"))
    else:
        k = len(out["kc"]["ctrs"])
        sweeps = split_sweeps(out["proposals_log"], k, c["n_iters"])
        body = "(kmedoids %s %s %s)" % (Dt, kc(c), clist(sweeps, lambda s: clist(s, cn, "nat"), "(list nat)"))
    return "(let M := %s in %s)" % (D_term(out), body)


def arg_terms(c):
    """the n_clusters / dist_cutoff arguments as passed to the function form"""
    explicit = c.get("explicit_none") or c.get("form") == "class"
    nc = "(NcInt %s)" % cn(c["nclu"]) if c["nclu"] is not None else ("NcNone" if explicit else "NcInf")
    dc = "(DcVal %s)" % cq(F(c["cutoff"])) if c["cutoff"] is not None else ("DcNone" if explicit else "(DcVal (Qmake 0 1))")
    return nc, dc


def coq_check(c, out):
    if c["kind"] == "kcenters" and c.get("form") != "class_invalid":
        nc, dc = arg_terms(c)
        n = c["n"]
        if "res" not in out:
            if out.get("err") == "ImproperlyConfigured":
                return "(match effective %s %s with None => true | Some _ => false end)" % (nc, dc)
            return None
        run = ("kcenters_cold (Dext M %s) k r %s %s" % (cn(n), cb(bool(c.get("ti"))), cn(n))) if c.get("init") is None else \
              ("kcenters_warm (Dext M %s) k r %s %s %s" % (cn(n), cb(bool(c.get("ti"))), clist(c["init"], cn, "nat"), cn(n)))
        return ("(let M := %s in valid_matrix M %s && match effective %s %s with Some (k, r) => st_eqb (%s) %s "
                "| None => false end)%%bool") % (D_term(out), cn(n), nc, dc, run, res_term(out["res"]))
    if "res" not in out:
        return None
    return "(let M := %s in valid_matrix M %s && st_eqb %s %s)%%bool" % (
        D_term(out), cn(c["n"]), model_term(c, out).split(" in ", 1)[1][:-1], res_term(out["res"]))


def coq_show(c, out=None):
    if out is None:
        out = run_case(c)
    return "st_show %s" % model_term(c, out)


def common_tags(c, out):
    t = [c["kind"], c["metric"]]
    if c.get("init") is not None:
        t.append("warm-init")
    if c.get("ti"):
        t.append("ti")
    if c["kind"] == "kcenters" and c["metric"] == "euclidean" and any(float(v[0]) != int(v[0]) for v in c["X"] if len(v) == 1):
        t.append("near-half-boundary")
    if c.get("form") == "class":
        t.append("estimator-form")
    if c["kind"] == "kmedoids":
        t.append("start-" + c["start"]["how"])
        t.append("explicit-proposals" if c.get("proposals") is not None else "random-proposals")
    if "err" in out:
        t.append("impl-error")
    if c["kind"] == "kmedoids" and c["metric"] != "matrix" and max(v[0] for v in c["X"]) >= 5000:
        t.append("multi-scale-data")
    if c["kind"] == "kcenters" and c.get("nclu") is not None and c["nclu"] > c["n"]:
        t.append("more-clusters-than-frames")
    if c.get("explicit_none"):
        t.append("explicit-none-args")
    if c.get("traj"):
        t.append("md-trajectory-input")
    return t
