"""Shared driver for the clustering properties (C01, C02, C09, C10): generators, real-code runner
with recorded randomness, distance matrices as exact rationals, Coq terms for the model, and an
independent Python statement of the invariants (the oracle)."""
import hashlib, itertools, signal, struct, threading
from fractions import Fraction as F
import numpy as np
from core import cn, cq, cb, clist, copt

CASE_HEADER = ("From Coq Require Import List ZArith QArith.\nFrom EV Require Import KcGuardBase KcGuardGen KcArgs Cluster ClusterCase.\n"
               "Import ListNotations.\n")
MODEL_TARGETS = ["Model/Cluster.vo", "Model/ClusterCase.vo", "Model/KcArgs.vo"]
GEN_FILES = ["Gen/KcGuardGen.v", "Gen/ClusterGen.v"]


def translate_all(repo):
    import os, sys
    from core import VERIF
    sys.path.insert(0, os.path.join(VERIF, "translator"))
    import tr_kcguard, tr_cluster
    d = dict(tr_kcguard.translate(repo))
    d.update(tr_cluster.translate(repo))
    return d
TRUSTED = ["modelled not verified: NumPy argmax/boolean-mask assignment/np.unique, the metric kernels themselves "
           "(the model receives the implementation's own distance matrix as exact rationals, C13 covers the kernels)",
           "k-medoids proposals are recorded from the implementation's RandomState and replayed in the model"]


# ----------------------------------------------------------------------------- data & metrics
def gen_points(rng, n, dim, hi):
    while hi ** dim < 2 * n:      # enough room for n distinct points
        hi += 1
    pts = set()
    while len(pts) < n:
        pts.add(tuple(rng.randrange(hi) for _ in range(dim)))
    pts = list(pts)
    rng.shuffle(pts)
    return [list(p) for p in pts]


def gen_matrix(rng, n, hi):
    """arbitrary symmetric integer 'metric' with zero diagonal, positive off it; with
    probability 1/2 made to satisfy the triangle inequality (shortest-path closure)."""
    M = [[0] * n for _ in range(n)]
    for i in range(n):
        for j in range(i + 1, n):
            M[i][j] = M[j][i] = rng.randint(1, hi)
    tri = rng.random() < 0.5
    if tri:
        for k in range(n):
            for i in range(n):
                for j in range(n):
                    if M[i][k] + M[k][j] < M[i][j]:
                        M[i][j] = M[i][k] + M[k][j]
    return M, tri


LAYOUTS = ["colsub", "stride", "F", "T", "rev", "colstride", "readonly"]


def layout_of(A, layout):
    """the values of the C-contiguous 2-D array A held in another memory layout (same shape, dtype, values);
    the surrounding memory of the views holds other numbers, so that a reader ignoring the strides sees them"""
    n, d = A.shape
    if layout in (None, "C"):
        return A
    if layout == "F":
        return np.asfortranarray(A)
    if layout == "T":                               # transposed view of a (d, n) array
        return np.ascontiguousarray(A.T).T
    if layout == "colsub":                          # column subset of a wider feature matrix: big[:, 2:2+d]
        big = np.full((n, d + 4), 71, dtype=A.dtype)
        big[:, 2:2 + d] = A
        return big[:, 2:2 + d]
    if layout == "stride":                          # every other frame of a longer trajectory: long[::2]
        lng = np.full((2 * n, d), 53, dtype=A.dtype)
        lng[::2] = A
        return lng[::2]
    if layout == "colstride":                       # every other column
        big = np.full((n, 2 * d), 37, dtype=A.dtype)
        big[:, ::2] = A
        return big[:, ::2]
    if layout == "rev":                             # negative row stride
        return np.ascontiguousarray(A[::-1])[::-1]
    if layout == "readonly":
        B = A.copy()
        B.setflags(write=False)
        return B
    raise ValueError(layout)


def make_pool(case):
    """the data followed by the `vinit` virtual frames (initial centres that are NOT frames of the data), as one
    C-contiguous array / md.Trajectory: rows 0..n-1 are the data, rows n.. the supplied centre points"""
    if case.get("traj"):
        # an md.Trajectory whose frames are told apart by their time stamp; the metric is a user-supplied
        # float64 callable (an arbitrary distance table), as for RMSD-like metrics on structures
        import mdtraj as md
        n = len(case["M"])
        top = md.Topology()
        top.add_atom("CA", md.element.carbon, top.add_residue("ALA", top.add_chain()))
        return md.Trajectory(np.zeros((n, 1, 3), dtype=np.float32), top, time=np.arange(n, dtype=float))
    if case["metric"] == "matrix":
        return np.arange(len(case["M"]), dtype=float).reshape(-1, 1)
    A = np.array(case["X"], dtype=case.get("dtype", "float64"))
    return np.concatenate([A, np.array(case["init_pts"], dtype=A.dtype)]) if case.get("vinit") else A


def make_X(case):
    if case.get("vinit"):
        Z = make_pool(case)[:case["n"]]
        return Z if case.get("traj") else layout_of(np.ascontiguousarray(Z), case.get("layout"))
    if case.get("traj") or case["metric"] == "matrix":
        Z = make_pool(case)
        return Z if case.get("traj") else layout_of(Z, case.get("layout"))
    A = np.array(case["X"], dtype=case.get("dtype", "float64"))
    if case.get("scale_exp"):                 # tiny length scale: coordinates x 2^-e (exact in float32/64)
        assert A.dtype.kind == "f", "tiny-scale cases need a float dtype"
        A = A * A.dtype.type(2.0 ** -case["scale_exp"])
    return layout_of(A, case.get("layout"))


class _Buffered:
    """a metric that computes into, and returns, one shared float64 output array per query length (what
    `lambda X, y: libdist.euclidean(X, y, out=buf)` does): each call returns correct distances, in the array
    the previous call of that length returned"""

    def __init__(self, inner, named):
        self.inner, self.named, self.bufs = inner, named, {}

    def __call__(self, X, y):
        n = len(X)
        buf = self.bufs.get(n)
        if buf is None:
            buf = self.bufs[n] = np.empty(n, dtype=np.float64)
        if self.named:
            return self.inner(X, y, out=buf)        # the library's own `out=` parameter
        buf[:] = self.inner(X, y)
        return buf


def make_metric(case, plain=False):
    """the metric handed to the implementation; plain=True: never the buffer-reusing variant"""
    sc = 2.0 ** -case.get("scale_exp", 0)
    if case.get("traj"):
        M = np.array([[float(F(v)) for v in row] for row in case["M"]], dtype=float) * sc

        def dmt(X, y):
            return M[np.asarray(X.time).astype(int), int(np.asarray(y.time)[0])]
        m = dmt
    elif case["metric"] == "matrix":
        M = np.array(case["M"], dtype=float) * sc

        def dm(X, y):
            return M[np.asarray(X)[:, 0].astype(int), int(np.asarray(y)[0])]
        m = dm
    else:
        m = case["metric"]
    if case.get("buf") and not plain:
        if isinstance(m, str):
            from enspara.cluster import util
            return _Buffered(util._get_distance_method(m), True)
        return _Buffered(m, False)
    return m


def dist_matrix(X, metric):
    """the metric on the *values* of the data: evaluated on a fresh C-contiguous copy"""
    from enspara.cluster import util
    dm = util._get_distance_method(metric)
    if isinstance(X, np.ndarray):
        X = np.array(X, order="C", copy=True)
    return [[F(float(v)) for v in dm(X, X[c])] for c in range(len(X))]


def is_metric_space(D):
    n = len(D)
    for i in range(n):
        for j in range(n):
            if D[i][j] != D[j][i]:
                return False
            for k in range(n):
                if D[i][j] > D[i][k] + D[k][j]:
                    return False
    return True


class RecordingRandomState(np.random.RandomState):
    """np.random.RandomState whose `choice` results are logged (the code accepts an instance)."""

    def __init__(self, seed):
        super().__init__(seed)
        self.log = []

    def choice(self, a, *args, **kw):
        r = super().choice(a, *args, **kw)
        self.log.append(int(r))
        return r


def xhash(X):
    if hasattr(X, "xyz"):
        return hashlib.sha256(np.ascontiguousarray(X.xyz).tobytes() + np.ascontiguousarray(X.time).tobytes()).hexdigest()
    h = hashlib.sha256(np.ascontiguousarray(X).tobytes())
    base = getattr(X, "base", None)
    if isinstance(base, np.ndarray):          # a view: the memory around it must stay as it was, too
        h.update(np.ascontiguousarray(base).tobytes())
    h.update(repr((X.shape, X.strides, str(X.dtype))).encode())
    return h.hexdigest()


def _same_frame(c, x):
    if hasattr(c, "time"):
        return len(c) == 1 and float(c.time[0]) == float(x.time[0]) and np.array_equal(c.xyz, x.xyz)
    return np.array_equal(np.asarray(c), np.asarray(x))


def canon(result, X):
    ci = [int(i) for i in result.center_indices]
    cen_ok = len(result.centers) == len(ci) and all(_same_frame(c, X[i]) for c, i in zip(result.centers, ci))
    return {"ctrs": ci, "asg": [int(a) for a in result.assignments],
            "dst": [str(F(float(d))) for d in result.distances], "centers_are_frames": bool(cen_ok)}


# ----------------------------------------------------------------------------- real-code runner
class CaseTimeout(Exception):
    pass


class Watchdog:
    """bounds the wall time of one run of the real code (a clustering loop that never meets its stopping rule
    would otherwise hang the check and eat memory): raises CaseTimeout inside the running Python code, again
    every `seconds` while the guarded block is still running.  Only the outermost guard arms the timer
    (run_case re-enters itself for prefix runs); ordinary cases take milliseconds.  After three timeouts in
    one process (never on a tree that terminates) the limit drops so that a check of a broken tree ends."""
    depth = 0
    fired_total = 0
    fired_now = False

    def __init__(self, seconds=None):
        self.seconds = seconds or (10.0 if Watchdog.fired_total < 3 else 2.0)
        self.armed = False

    def _fire(self, signum, frame):
        Watchdog.fired_total += 1
        Watchdog.fired_now = True
        raise CaseTimeout("no result after %.0f s" % self.seconds)

    def __enter__(self):
        Watchdog.depth += 1
        if Watchdog.depth == 1 and threading.current_thread() is threading.main_thread():
            Watchdog.fired_now = False
            self.old = signal.signal(signal.SIGALRM, self._fire)
            signal.setitimer(signal.ITIMER_REAL, self.seconds, self.seconds)
            self.armed = True
        return self

    def __exit__(self, *exc):
        Watchdog.depth -= 1
        if self.armed:
            signal.setitimer(signal.ITIMER_REAL, 0)
            signal.signal(signal.SIGALRM, self.old)
        return False


def err_failure(out):
    if out.get("err") == "CaseTimeout":
        return ("does-not-terminate", "the call did not return: %s" % out.get("msg"))
    return ("impl-error", "%s: %s" % (out["err"], out.get("msg")))


class _Init:
    """initial centres of a warm start in one of the containers callers use (2-D array / md.Trajectory slice,
    Python list of frames, the `.centers` list of an earlier result), with snapshots for the argument-unchanged
    check.  Every form holds the frames c["init"] in that order, so oracle and model apply unchanged."""

    def __init__(self, c, X, metric, form=None):
        from enspara.cluster import kcenters as KC
        self.X, self.r0, self.obj = X, None, None
        self.form = form or c.get("init_form") or "array"
        if c.get("vinit"):                     # initial centres that are NOT frames of the data: rows n.. of the pool
            P = make_pool(c)[c["n"]:]
            self.obj = P if self.form == "array" else [P[j] for j in range(len(P))]
        elif c.get("init_pts") is not None:    # initial centres that are NOT frames of the data (e.g. centroids)
            self.obj = np.array(c["init_pts"], dtype=X.dtype)
        elif c.get("init") is not None:
            idx = list(c["init"])
            if self.form == "array":
                self.obj = X[idx]
            elif self.form == "list":
                self.obj = [X[i] for i in idx]
            elif self.form == "estimator":
                pass                           # filled in by adopt(): est.centers_ of an earlier fit of the estimator under test
            elif self.form == "result":
                # an earlier clustering with exactly these centres; its list of centre frames is handed on
                self.r0 = KC.kcenters(X, metric, init_centers=X[idx], n_clusters=len(idx))
                self.obj = self.r0.centers
                self.r0_snap = (canon(self.r0, X), len(self.r0.centers))
            else:
                raise ValueError(self.form)
        self.snap = self._snapshot()

    def adopt(self, obj):
        self.obj = obj
        self.snap = self._snapshot()

    def _snapshot(self):
        o = self.obj
        if o is None:
            return None
        if isinstance(o, list):
            return ("list", len(o), [id(e) for e in o], [xhash(e) for e in o])
        return (type(o).__name__, len(o), xhash(o))

    def problems(self):
        """what changed in the caller's objects since construction (plain strings)"""
        out = []
        now = self._snapshot()
        if now != self.snap:
            if now is not None and now[1] != self.snap[1]:
                out.append("init_centers (%s) had %d entries before the call and %d after" % (self.form, self.snap[1], now[1]))
            else:
                out.append("init_centers (%s) was modified" % self.form)
        if self.r0 is not None:
            k_idx, k_cen = len(self.r0.center_indices), len(self.r0.centers)
            if k_idx != k_cen:
                out.append("the earlier result whose .centers were passed on now has %d centre indices but %d centre frames" % (k_idx, k_cen))
            elif (canon(self.r0, self.X), k_cen) != self.r0_snap:
                out.append("the earlier result whose .centers were passed on was modified")
        return out


def _attr_problems(est, when):
    """the public attributes labels_ / distances_ / center_indices_ / centers_ of a fitted estimator read now, against
    its result_ (plain strings; empty when they agree)"""
    out = []
    res = est.result_
    try:
        if not np.array_equal(np.asarray(est.labels_), np.asarray(res.assignments)):
            out.append("%s: labels_ %s is not result_.assignments %s" % (when, _short(est.labels_), _short(res.assignments)))
        if not np.array_equal(np.asarray(est.distances_), np.asarray(res.distances)):
            out.append("%s: distances_ %s is not result_.distances %s" % (when, _short(est.distances_), _short(res.distances)))
        if [int(i) for i in est.center_indices_] != [int(i) for i in res.center_indices]:
            out.append("%s: center_indices_ %s is not result_.center_indices %s" % (
                when, _short(est.center_indices_), _short(res.center_indices)))
        ca, cb_ = est.centers_, res.centers
        if len(ca) != len(cb_) or not all(_same_frame(a, b) for a, b in zip(ca, cb_)):
            out.append("%s: centers_ (%d centres) is not result_.centers (%d centres)" % (when, len(ca), len(cb_)))
    except Exception as ex:
        out.append("%s: reading the attributes raised %s: %s" % (when, type(ex).__name__, str(ex)[:100]))
    return out


def _short(a):
    return str([float(v) if float(v) != int(v) else int(v) for v in np.asarray(a).ravel()[:12]])


def _attrs_canon(est, X):
    """the clustering an estimator reports through its attributes, in the canonical form of `canon`"""
    from enspara.cluster import util
    return canon(util.ClusterResult(center_indices=est.center_indices_, distances=est.distances_,
                                    assignments=est.labels_, centers=est.centers_), X)


def _read_after_fit(est, how, Xp, when, fit_kw=None):
    """fits `est` on Xp and reads it the way `how` says: None = nothing is read; "attrs" = every public attribute;
    "fit_predict" = sklearn's fit_predict (fit, then labels_); "predict" = predict on the same data (reads centers_).
    Returns what the reads disagree about with the result_ of that fit."""
    fit_kw = fit_kw or {}
    out = []
    if how == "fit_predict":
        lab = est.fit_predict(Xp, **fit_kw)
        if not np.array_equal(np.asarray(lab), np.asarray(est.result_.assignments)):
            out.append("%s: fit_predict returned %s, result_.assignments is %s" % (when, _short(lab), _short(est.result_.assignments)))
        return out
    est.fit(Xp, **fit_kw)
    if how == "attrs":
        out += _attr_problems(est, when)
    elif how == "predict":
        r = est.predict(Xp)
        cen = est.result_.centers
        if len(r.centers) != len(cen) or not all(_same_frame(a, b) for a, b in zip(r.centers, cen)):
            out.append("%s: predict did not report the centres of that fit" % when)
    return out


def _reuse(est, h, final, X, prefit_kw=None):
    """estimator history between construction and the fit under test: optional earlier fit (same or other
    data; the estimator is then read as h["read"] says), then the parameters are brought to `final` through
    set_params and / or attribute assignment.  Returns what the reads of the earlier fit disagree about."""
    out = []
    if h.get("prefit"):
        Xp = X if h["prefit"] == "same" else X[list(h["perm"])]
        out += _read_after_fit(est, h.get("read"), Xp, "earlier fit (%s data)" % h["prefit"], prefit_kw)
    for j, nm in enumerate(sorted(final)):
        if h["via"] == "set_params" or (h["via"] == "both" and j % 2 == 0):
            est.set_params(**{nm: final[nm]})
        else:
            setattr(est, nm, final[nm])
    return out


def _warm_from_estimator(est, c, X, final, zero):
    """init_form "estimator": the estimator is first fitted with exactly the frames c["init"] as centres (their
    number requested, no radius, `zero` = parameters switching refinement off), est.centers_ is read and kept as
    the initial centres of the fit under test, and the parameters are set to `final`"""
    idx = list(c["init"])
    est.set_params(**dict(zero, n_clusters=len(idx), cluster_radius=None))
    est.fit(X, init_centers=X[idx])
    out = _attr_problems(est, "fit that supplies est.centers_ as initial centres")
    cen = est.centers_
    est.set_params(**final)
    return cen, out


def run_case(c):
    """Runs the real entry point of the case; returns canonical result + the distance matrix."""
    with Watchdog():
        if Watchdog.fired_now and Watchdog.depth > 1:      # an enclosing run already timed out: do not start another
            return {"err": "CaseTimeout", "msg": "enclosing run timed out"}
        return _run_case(c)


def _run_case(c):
    from enspara.cluster import kcenters as KC, kmedoids as KM, hybrid as KH, util
    X = make_X(c)
    metric = make_metric(c)
    plain = make_metric(c, plain=True)
    h0 = xhash(X)
    out = {}
    arg_problems = []
    attr_problems = []
    try:
        # with virtual frames the matrix covers data + supplied centre points (rows / columns n.. are the points)
        out["D"] = [[str(v) for v in row] for row in dist_matrix(make_pool(c) if c.get("vinit") else X, plain)]
        kind = c["kind"]
        hist = c.get("hist")
        if kind == "kcenters":
            ini = _Init(c, X, plain)
            if c.get("form") == "class":
                a0 = hist["ctor"] if hist else {"nclu": c["nclu"], "cutoff": c["cutoff"]}
                est = KC.KCenters(metric, n_clusters=a0["nclu"], cluster_radius=a0["cutoff"])
                final = {"n_clusters": c["nclu"], "cluster_radius": c["cutoff"]}
                if hist:
                    attr_problems += _reuse(est, hist, final, X)
                if c.get("init_form") == "estimator":
                    cen0, pr = _warm_from_estimator(est, c, X, final, {})
                    ini.adopt(cen0)
                    attr_problems += pr
                est.fit(X, init_centers=ini.obj)
                res = est.result_
                out["attrs_ok"] = bool(np.array_equal(est.labels_, res.assignments) and
                                       np.array_equal(est.distances_, res.distances) and
                                       list(est.center_indices_) == list(res.center_indices))
                attr_problems += _attr_problems(est, "fit under test")
                if not c.get("vinit"):
                    out["attrs"] = _attrs_canon(est, X)
            else:
                kw = {}
                if c["nclu"] is not None or c.get("explicit_none"):
                    kw["n_clusters"] = c["nclu"]
                if c["cutoff"] is not None or c.get("explicit_none"):
                    kw["dist_cutoff"] = c["cutoff"]
                res = KC.kcenters(X, metric, init_centers=ini.obj,
                                  use_triangle_inequality=bool(c.get("ti")), **kw)
            out["res"] = canon(res, X)
            arg_problems += ini.problems()
            out["n_centers"] = len(res.centers)
            if c.get("vinit"):
                # the supplied points stay the first centres, every further centre is the frame at its index; and the
                # same call with the other setting of the triangle-inequality shortcut (same argument objects)
                k0 = c["vinit"]
                P = make_pool(c)[c["n"]:]
                out["centers_kept"] = bool(
                    len(res.centers) == len(res.center_indices) >= k0
                    and all(_same_frame(res.centers[j], P[j]) for j in range(k0))
                    and all(_same_frame(res.centers[j], X[int(res.center_indices[j])]) for j in range(k0, len(res.centers))))
                if c.get("form") != "class":
                    oth = KC.kcenters(X, metric, init_centers=ini.obj, use_triangle_inequality=not c.get("ti"), **kw)
                    out["other"] = canon(oth, X)
                    arg_problems += [m for m in ini.problems() if m not in arg_problems]
            if c.get("form") == "class" and hist:
                # the same fit through the function form with the estimator's current parameters, and a second fit
                ref = KC.kcenters(X, plain, n_clusters=c["nclu"], dist_cutoff=c["cutoff"],
                                  init_centers=_Init(c, X, plain, form="array").obj)
                out["func_equal"] = bool(canon(ref, X) == out["res"])
                if hist.get("refit"):
                    est.fit(X, init_centers=_Init(c, X, plain, form="array").obj)
                    out["refit_equal"] = bool(canon(est.result_, X) == out["res"])
                    attr_problems += _attr_problems(est, "second fit on the same data")
        elif kind == "kmedoids":
            rec = RecordingRandomState(c["seed"])
            dmf = util._get_distance_method(metric)
            start = c["start"]
            kw = dict(n_iters=c["n_iters"], random_state=rec)
            if c.get("proposals") is not None:
                kw["proposals"] = list(c["proposals"])
                props_arg = kw["proposals"]
            if c.get("form") == "class":
                # estimator form: KMedoids.fit takes the start state; proposals come from NumPy's global
                # RandomState (seeded here, restored afterwards); the function form with a recording
                # RandomState seeded alike gives the proposals for the model
                a0 = hist["ctor"] if hist else {"k": start["k"], "n_iters": c["n_iters"]}
                est = KM.KMedoids(metric, n_clusters=a0["k"], n_iters=a0["n_iters"])
                if start["how"] == "centers":
                    out["start_ctrs"] = list(start["ctrs"])
                    mk = lambda: dict(cluster_center_inds=list(start["ctrs"]))
                else:
                    r0 = KC.kcenters(X, plain, n_clusters=start["k"])
                    out["start_ctrs"] = [int(i) for i in r0.center_indices]
                    mk = lambda: dict(assignments=r0.assignments.copy(), distances=r0.distances.copy(),
                                      **({"cluster_center_inds": list(r0.center_indices)} if start.get("give_ctrs", True) else {}))
                saved = np.random.get_state()
                try:
                    if hist:
                        attr_problems += _reuse(est, hist, {"n_clusters": start["k"], "n_iters": c["n_iters"]}, X,
                                                prefit_kw={"cluster_center_inds": [0]})
                    np.random.seed(c["seed"])
                    args = mk()
                    snap = {k: (list(v) if isinstance(v, list) else v.copy()) for k, v in args.items()}
                    est.fit(X, **args)
                    res = est.result_
                    attr_problems += _attr_problems(est, "fit under test")
                    out["attrs"] = _attrs_canon(est, X)
                    out["args_unchanged"] = all(np.array_equal(np.asarray(args[k]), np.asarray(snap[k])) for k in snap)
                finally:
                    np.random.set_state(saved)
                ref = KM.kmedoids(X, plain, n_iters=c["n_iters"], random_state=rec, **mk())
                out["func_equal"] = bool(canon(ref, X) == canon(res, X))
            elif start["how"] == "cold":
                # public cold-start path with an integer seed; the proposals it drew are recovered by
                # chaining the real per-sweep routine from the real start state with a recording
                # RandomState seeded the same way (check_random_state(int) builds one per sweep)
                a, d, ci = KM._kmedoids_inputs_tree(X, dmf, start["k"], None, None, None, None,
                                                    random_state=c["seed"])
                out["start_ctrs"] = [int(i) for i in ci]
                res = KM.kmedoids(X, metric, n_clusters=start["k"], n_iters=c["n_iters"],
                                  proposals=kw.get("proposals"), random_state=c["seed"])
                ci, a, d = [int(i) for i in ci], a.copy(), d.copy()
                log = []
                for _ in range(c["n_iters"]):
                    r1 = RecordingRandomState(c["seed"])
                    ci, d, a, cen = KM._kmedoids_pam_update(X, dmf, list(ci), a, d,
                                                            proposals=kw.get("proposals"), random_state=r1)
                    log += r1.log
                rec.log = log
                out["chain_equal"] = bool([int(i) for i in ci] == [int(i) for i in res.center_indices]
                                          and np.array_equal(a, res.assignments)
                                          and np.array_equal(d, res.distances))
            elif start["how"] == "centers":
                out["start_ctrs"] = list(start["ctrs"])
                ci_arg = list(start["ctrs"])
                res = KM.kmedoids(X, metric, cluster_center_inds=ci_arg, **kw)
                out["args_unchanged"] = (ci_arg == list(start["ctrs"]))
                mkstart = lambda: dict(cluster_center_inds=list(start["ctrs"]))
            elif start["how"] == "pairs":
                lens = start["lengths"]
                flat = [sum(lens[:t]) + f for t, f in start["pairs"]]
                out["start_ctrs"] = flat
                res = KM.kmedoids(X, metric, cluster_center_inds=[list(p) for p in start["pairs"]],
                                  X_lengths=lens, **kw)
                mkstart = lambda: dict(cluster_center_inds=[list(p) for p in start["pairs"]], X_lengths=list(lens))
            else:  # "state": consistent (centres, labels, distances) from a k-centers run
                r0 = KC.kcenters(X, metric, n_clusters=start["k"])
                out["start_ctrs"] = [int(i) for i in r0.center_indices]
                ci = list(r0.center_indices) if start.get("give_ctrs", True) else None
                a_arg, d_arg = r0.assignments.copy(), r0.distances.copy()
                ci_copy = None if ci is None else list(ci)
                res = KM.kmedoids(X, metric, assignments=a_arg, distances=d_arg, cluster_center_inds=ci, **kw)
                out["args_unchanged"] = bool(np.array_equal(a_arg, r0.assignments) and np.array_equal(d_arg, r0.distances)
                                             and (ci is None or [int(i) for i in ci] == [int(i) for i in ci_copy]))
                out["result_aliases_args"] = bool(np.shares_memory(res.assignments, a_arg) or np.shares_memory(res.distances, d_arg))
                mkstart = lambda: dict(assignments=r0.assignments.copy(), distances=r0.distances.copy(),
                                       **({} if ci_copy is None else {"cluster_center_inds": [int(i) for i in ci_copy]}))
            out["res"] = canon(res, X)
            out["proposals_log"] = list(rec.log)
            if c.get("proposals") is not None and c.get("form") != "class" and start["how"] != "cold" and c.get("extras", True) is not False:
                # explicit proposals, no random_state: nothing is left to chance, so identical calls under different
                # states of NumPy's global generator give one outcome, that of one-sweep calls composed by hand
                saved = np.random.get_state()
                try:
                    runs = []
                    for g in (1, 2, 3):
                        np.random.seed((c["seed"] + 7919 * g) % 2 ** 32)
                        runs.append(canon(KM.kmedoids(X, metric, n_iters=c["n_iters"], proposals=list(c["proposals"]),
                                                      random_state=None, **mkstart()), X))
                    np.random.seed((c["seed"] + 4) % 2 ** 32)
                    r = KM.kmedoids(X, metric, n_iters=1, proposals=list(c["proposals"]), random_state=None, **mkstart())
                    for _ in range(c["n_iters"] - 1):
                        r = KM.kmedoids(X, metric, n_iters=1, proposals=list(c["proposals"]), random_state=None,
                                        assignments=r.assignments.copy(), distances=r.distances.copy(),
                                        cluster_center_inds=[int(i) for i in r.center_indices])
                    out["explicit_runs"], out["explicit_composed"] = runs, canon(r, X)
                finally:
                    np.random.set_state(saved)
            if c.get("extras") and start["how"] != "cold":
                out["prefix"] = []
                for j in range(1, c["n_iters"] + 1):
                    cj = dict(c, n_iters=j, extras=False)
                    oj = run_case(cj)
                    out["prefix"].append(oj.get("res"))
                out["repeat_equal"] = (out["prefix"][-1] == out["res"])
        elif kind == "hybrid":
            rec = RecordingRandomState(c["seed"])
            ini = _Init(c, X, plain)
            if c.get("form") == "class":
                a0 = hist["ctor"] if hist else {"nclu": c["nclu"], "cutoff": c["cutoff"], "n_iters": c["n_iters"]}
                est = KH.KHybrid(metric, n_clusters=a0["nclu"], cluster_radius=a0["cutoff"],
                                 kmedoids_updates=a0["n_iters"], random_state=rec)
                final = {"n_clusters": c["nclu"], "cluster_radius": c["cutoff"], "kmedoids_updates": c["n_iters"]}
                if hist:
                    attr_problems += _reuse(est, hist, final, X)
                if c.get("init_form") == "estimator":
                    cen0, pr = _warm_from_estimator(est, c, X, final, {"kmedoids_updates": 0})
                    ini.adopt(cen0)
                    attr_problems += pr
                rec.log = []              # proposals of earlier fits are not part of the run under test
                est.fit(X, init_centers=ini.obj)
                res = est.result_
                attr_problems += _attr_problems(est, "fit under test")
                if c.get("init_pts") is None:
                    out["attrs"] = _attrs_canon(est, X)
            else:
                kw = {}
                if c["nclu"] is not None:
                    kw["n_clusters"] = c["nclu"]
                if c["cutoff"] is not None:
                    kw["dist_cutoff"] = c["cutoff"]
                res = KH.hybrid(X, metric, n_iters=c["n_iters"], init_centers=ini.obj, random_state=rec, **kw)
            out["res"] = canon(res, X)
            out["proposals_log"] = list(rec.log)
            arg_problems += ini.problems()
            kw2 = {}
            if c["nclu"] is not None:
                kw2["n_clusters"] = c["nclu"]
            if c["cutoff"] is not None:
                kw2["dist_cutoff"] = c["cutoff"]
            out["kc"] = canon(KC.kcenters(X, plain, init_centers=_Init(c, X, plain, form="array").obj, **kw2), X)
            if c.get("extras"):
                out["prefix"] = [out["kc"]]
                for j in range(1, c["n_iters"] + 1):
                    oj = run_case(dict(c, n_iters=j, extras=False))
                    out["prefix"].append(oj.get("res"))
                out["repeat_equal"] = (out["prefix"][-1] == out["res"])
        elif kind == "assign":
            cen = X[c["centers"]]
            a, d = util.assign_to_nearest_center(X, cen, util._get_distance_method(metric))
            out["res"] = {"ctrs": list(c["centers"]), "asg": [int(v) for v in a],
                          "dst": [str(F(float(v))) for v in d], "centers_are_frames": True}
    except Exception as ex:
        out["err"] = type(ex).__name__
        out["msg"] = str(ex)[:200]
        out.pop("res", None)
    out["X_unchanged"] = (xhash(X) == h0)
    if arg_problems:
        out["arg_problems"] = arg_problems
    if attr_problems:
        out["attr_problems"] = attr_problems
    return out


# ----------------------------------------------------------------------------- model terms
def q_of(s):
    return cq(F(s))


def D_term(out):
    return clist(out["D"], lambda row: clist(row, q_of, "Q"), "(list Q)")


def res_term(res):
    return "(%s, %s, %s)" % (clist(res["ctrs"], cn, "nat"), clist(res["asg"], cn, "nat"),
                             clist(res["dst"], q_of, "Q"))


def nclu_term(c):
    return copt(c.get("nclu"), cn, "nat")


def cutoff_term(c):
    return cq(F(c["cutoff"])) if c.get("cutoff") is not None else "(Qmake 0 1)"


def split_sweeps(log, k, n_iters):
    return [log[i * k:(i + 1) * k] for i in range(n_iters)]


# ----------------------------------------------------------------------------- oracle pieces
def inv_failures(out, tag=""):
    """C01's statement evaluated on the implementation's result with its own metric."""
    fails = []
    res = out["res"]
    D = [[F(v) for v in row] for row in out["D"]]
    ctrs, asg, dst = res["ctrs"], res["asg"], [F(v) for v in res["dst"]]
    n, k = len(asg), len(ctrs)
    if not res.get("centers_are_frames", True):
        fails.append(("center-not-frame", "a reported centre is not the frame at its index"))
    if len(set(ctrs)) != k or any(not (0 <= c < n) for c in ctrs):
        fails.append(("center-indices", "centre indices %s not distinct frames" % ctrs))
        return fails
    for f in range(n):
        a = asg[f]
        if not (0 <= a < k):
            fails.append(("label-range", "frame %d has label %d, k=%d" % (f, a, k)))
            break
        if dst[f] != D[ctrs[a]][f]:
            fails.append(("distance-value", "frame %d: reported %s, metric distance to its centre %s" % (f, dst[f], D[ctrs[a]][f])))
            break
        closer = [j for j in range(k) if D[ctrs[j]][f] < dst[f]]
        if closer:
            fails.append(("closer-center", "frame %d assigned to %d at %s but centre %d is at %s" % (f, a, dst[f], closer[0], D[ctrs[closer[0]]][f])))
            break
    for j, cfr in enumerate(ctrs):
        if asg[cfr] != j or dst[cfr] != 0:
            fails.append(("center-own-label", "centre %d (frame %d) has label %d distance %s" % (j, cfr, asg[cfr], dst[cfr])))
            break
    if not out.get("X_unchanged", True):
        fails.append(("input-modified", "the data array was modified"))
    if out.get("args_unchanged") is False:
        fails.append(("input-modified", "caller-supplied assignments / distances / cluster_center_inds were modified"))
    for msg in out.get("arg_problems", []):
        fails.append(("input-modified", msg))
    return fails


def attr_failures(out):
    """the estimator's public attributes (labels_, distances_, center_indices_, centers_), read after every fit of
    the case's history, are those of that fit's result_, and the clustering they describe after the fit under test
    meets C01's clauses on its own"""
    fails = [("estimator-attrs", m) for m in out.get("attr_problems", [])]
    if "attrs" in out and "res" in out:
        if out["attrs"] != out["res"] and not fails:
            fails.append(("estimator-attrs", "attributes after the fit under test describe centres %s labels %s, result_ has %s %s" % (
                out["attrs"]["ctrs"], out["attrs"]["asg"], out["res"]["ctrs"], out["res"]["asg"])))
        try:
            sub = inv_failures(dict(out, res=out["attrs"]))
        except Exception as ex:            # e.g. attributes of a fit on other data: wrong number of frames
            sub = [("estimator-attrs", "the attributes do not describe a clustering of the data: %s" % type(ex).__name__)]
        fails += [(k, "estimator attributes: " + m) for k, m in sub if k != "input-modified"]
    return fails


def hist_failures(c, out):
    """estimator form = function form called with the estimator's *current* parameters, whatever happened to
    the estimator between construction and this fit (set_params, attribute assignment, earlier fits)"""
    fails = []
    if out.get("func_equal") is False:
        fails.append(("estimator-differs-from-function", "estimator history %s: fit differs from the function form called with the "
                      "estimator's current parameters (n_clusters=%s, radius=%s, sweeps=%s)" % (
                          c.get("hist"), c.get("nclu", c.get("start", {}).get("k")), c.get("cutoff"), c.get("n_iters"))))
    if out.get("refit_equal") is False:
        fails.append(("refit-differs", "a second fit of the same estimator on the same data gave another result"))
    if "res" in out and c["kind"] in ("kmedoids", "hybrid") and c.get("proposals") is None and c.get("init_pts") is None:
        k = len(out["res"]["ctrs"])
        if len(out.get("proposals_log", [])) != k * c["n_iters"]:
            fails.append(("sweep-count", "%d proposals were drawn for %d clusters and %d requested sweeps" % (
                len(out.get("proposals_log", [])), k, c["n_iters"])))
    return fails


def explicit_failures(c, out):
    """reproducibility with explicitly supplied proposals and no random_state"""
    fails = []
    runs = out.get("explicit_runs")
    if runs:
        brief = lambda r: (r["ctrs"], r["asg"])
        if any(r != runs[0] for r in runs[1:]):
            fails.append(("not-reproducible", "identical calls with proposals=%s, n_iters=%d, random_state=None gave different outcomes "
                          "under different states of the global NumPy generator: %s" % (c["proposals"], c["n_iters"], [brief(r) for r in runs])))
        elif runs[0] != out["explicit_composed"]:
            fails.append(("not-reproducible", "proposals=%s, n_iters=%d, random_state=None gives %s, but %d one-sweep calls with the same "
                          "proposals composed by hand give %s" % (c["proposals"], c["n_iters"], brief(runs[0]), c["n_iters"],
                                                                  brief(out["explicit_composed"]))))
        if "res" in out and runs[0] != out["res"] and not fails:
            fails.append(("not-reproducible", "proposals=%s: the outcome depends on the random_state although every proposal is supplied: "
                          "%s with random_state=None, %s with a seeded RandomState" % (c["proposals"], brief(runs[0]), brief(out["res"]))))
    return fails


def cost(res):
    return sum(F(v) ** 2 for v in res["dst"])


# ----------------------------------------------------------------------------- generators
def _base(rng, nmax, pam):
    """data set + metric; pam=True restricts to integer-valued metrics (exact float costs)."""
    n = rng.randint(2, nmax)
    r = rng.random()
    c = {}
    if r < 0.3:
        M, tri = gen_matrix(rng, n, rng.choice([3, 6, 12]))
        c.update(metric="matrix", M=M, tri=tri)
    elif r < 0.6 or pam:
        if rng.random() < 0.5 or not pam:
            dim = rng.randint(1, 3)
            c.update(metric="manhattan", X=gen_points(rng, n, dim, rng.choice([4, 6, 10])))
        else:
            c.update(metric="euclidean", X=gen_points(rng, n, 1, rng.choice([n + 2, 20])))
    else:
        dim = rng.randint(1, 3)
        c.update(metric="euclidean", X=gen_points(rng, n, dim, rng.choice([4, 6, 10])))
    if c["metric"] != "matrix":
        c["dtype"] = rng.choice(["float64", "float64", "float32", "int32", "int64"])
    c["n"] = n
    if rng.random() < 0.3:
        c["layout"] = rng.choice(LAYOUTS)     # same values, another memory layout of the data array
    if rng.random() < 0.12:
        c["buf"] = True                       # the metric returns its result in a reused output buffer
    return c


def _tiny(rng, c):
    """the same geometry at a tiny length scale (x 2^-14 .. 2^-20, exact in float32/float64): every frame is
    then within 1e-3 of every other one, so absolute tolerances in the code stop telling frames apart"""
    if c.get("dtype", "float64") in ("int32", "int64"):
        c["dtype"] = "float64"
    c["scale_exp"] = rng.randint(14, 20)
    if c.get("cutoff") is not None:
        c["cutoff"] = float(c["cutoff"]) * 2.0 ** -c["scale_exp"]


def gen_init_form(rng):
    return rng.choice(["array", "array", "list", "list", "result"])


READS = ["attrs", "attrs", "fit_predict", "predict", None]


def gen_hist(rng, c):
    """estimator-reuse history for an estimator-form case: the estimator is constructed with other stopping
    parameters, optionally fitted (same / other data), then brought to the case's parameters"""
    n = c["n"]
    h = {"via": rng.choice(["set_params", "attr", "both"]), "prefit": rng.choice([None, None, "same", "other"])}
    if h["prefit"] == "other":
        h["perm"] = rng.sample(range(n), rng.randint(1, n))
    if h["prefit"]:
        h["read"] = rng.choice(READS)         # how the estimator is read between the earlier fit and the fit under test
    if c["kind"] == "kmedoids":
        h["ctor"] = {"k": rng.choice([None, 1, 2, c["start"]["k"]]), "n_iters": rng.randint(1, 4)}
        return h
    k0 = rng.choice([None, 1, 2, rng.randint(1, n + 2)])
    r0 = rng.choice([None, None, 1, 2.5, 5])
    if k0 is None and r0 is None:
        k0 = rng.randint(1, n + 2)
    h["ctor"] = {"nclu": k0, "cutoff": r0}
    if c["kind"] == "hybrid":
        h["ctor"]["n_iters"] = rng.randint(0, 3)
    else:
        h["refit"] = rng.random() < 0.5
    return h


def gen_kcenters(rng, nmax=12):
    c = _base(rng, nmax, pam=False)
    n = c["n"]
    c["kind"] = "kcenters"
    mode = rng.choice(["k", "k", "r", "both"])
    c["nclu"] = rng.randint(1, n + 2) if mode in ("k", "both") else None     # more clusters than frames is legal
    c["cutoff"] = None
    if mode in ("r", "both"):
        c["cutoff"] = rng.choice(([0] if mode == "both" else []) + [1, 2, 3, 1.5, 2.5, 5])
    c["init"] = None
    if rng.random() < 0.35:
        c["init"] = rng.sample(range(n), rng.randint(1, min(3, n)))
    if c["init"] is not None:
        c["init_form"] = gen_init_form(rng)
    c["form"] = "class" if rng.random() < 0.3 else "func"
    if c["form"] == "class" and rng.random() < 0.6:
        c["hist"] = gen_hist(rng, c)
    c["ti"] = (c["form"] == "func" and rng.random() < 0.5)
    if c["form"] == "func" and rng.random() < 0.25:
        c["explicit_none"] = True          # pass n_clusters=None / dist_cutoff=None explicitly
        if rng.random() < 0.2:
            c["nclu"], c["cutoff"] = None, None      # no criterion at all: must be rejected
    return c


def gen_traj_kcenters(rng):
    """k-centers on an md.Trajectory with a user-supplied float64 metric whose values differ only far beyond
    single precision (k * 2^-34 on top of small integers): any float32 storage of distances creates ties"""
    n = rng.randint(3, 8)
    M = [["0"] * n for _ in range(n)]
    for i in range(n):
        for j in range(i + 1, n):
            v = F(rng.randint(1, 3)) + F(rng.randint(0, 7), 2 ** 34)
            M[i][j] = M[j][i] = str(v)
    c = {"metric": "matrix", "M": M, "tri": False, "traj": True, "n": n, "kind": "kcenters", "form": "func",
         "ti": False, "init": None, "nclu": rng.randint(2, n), "cutoff": None}
    if rng.random() < 0.4:
        vals = sorted({F(v) for row in M for v in row if F(v) > 0})
        c["nclu"], c["cutoff"] = None, float(rng.choice(vals))       # a cutoff equal to an attained distance
    if rng.random() < 0.5:          # warm start from an md.Trajectory slice / a list of one-frame trajectories
        c["init"] = rng.sample(range(n), rng.randint(1, min(3, n)))
        c["init_form"] = gen_init_form(rng)
        if c["nclu"] is not None:
            c["nclu"] = rng.randint(1, n)
    if rng.random() < 0.3:
        c["form"] = "class"
        if rng.random() < 0.5:
            c["hist"] = gen_hist(rng, c)
    if rng.random() < 0.15:
        c["buf"] = True
    return c


def _captures_all(dist, n, k0):
    """every supplied centre is the nearest one (first minimum) of at least one frame; dist(j, f) exact"""
    got = set()
    for f in range(n):
        got.add(min(range(k0), key=lambda j: (dist(j, f), j)))
    return len(got) == k0


def gen_nonframe_warm(rng, kind=None, his=(4, 6, 10), small=False):
    """warm start from 1..3 supplied centres that are NOT frames of the data (centroids, centres of an earlier
    clustering of other data; what upstream's hot-start test passes): `vinit` virtual frames n.. of the pool.
    Library metrics: points with coordinates on the quarter grid (distinct from every frame; sums of squares and
    manhattan sums exact in float32/64); table metrics: further points of the same table (ndarray of indices or
    md.Trajectory).  Every supplied centre attracts at least one frame, so that the labels are 0..k-1.
    c["init"] holds the virtual indices n.., so replay and model run on the (n+k0)^2 matrix unchanged.
    small=True: a small batch of 2..5 frames and a stopping rule that asks for more centres than the batch has frames
    (supplied centres + centres still needed > n: n+1 .. n+k0 centres requested, and / or a radius below every distance
    of the data): the supplied centres count, so the run legitimately ends with more centres than frames."""
    kind = kind or rng.choice(["euclidean", "euclidean", "manhattan", "matrix", "traj"])
    while True:
        n = rng.randint(2, 5) if small else rng.randint(4, 12)
        k0 = rng.randint(1, min(3, n)) if small else rng.randint(1, 3)
        c = {"kind": "kcenters", "n": n, "vinit": k0, "init": list(range(n, n + k0)), "form": "func"}
        if kind in ("matrix", "traj"):
            M, tri = gen_matrix(rng, n + k0, rng.choice([3, 6, 12]))
            if kind == "traj":
                M = [[str(F(v)) for v in row] for row in M]
                c["traj"] = True
            c.update(metric="matrix", M=M, tri=tri)
            ok = _captures_all(lambda j, f: F(M[n + j][f]), n, k0)
        else:
            dim = rng.randint(1, 3)
            hi = rng.choice(his)
            X = gen_points(rng, n, dim, hi)
            P = []
            while len(P) < k0:
                p = [F(rng.randrange(-4, 4 * hi + 4), 4) for _ in range(dim)]
                if all(list(p) != [F(v) for v in x] for x in X) and p not in P:
                    P.append(p)
            if kind == "manhattan":
                dist = lambda j, f: sum(abs(a - b) for a, b in zip(P[j], X[f]))
            else:
                dist = lambda j, f: sum((a - b) ** 2 for a, b in zip(P[j], X[f]))
            ok = _captures_all(dist, n, k0)
            c.update(metric=kind, X=X, init_pts=[[float(v) for v in p] for p in P],
                     dtype=rng.choice(["float64", "float64", "float32"]))
            if rng.random() < 0.3:
                c["layout"] = rng.choice(LAYOUTS)
        if ok:
            break
    c["init_form"] = rng.choice(["array", "array", "list"])
    mode = rng.choice(["k", "k", "k", "r", "both"])
    if small:
        # every distance between distinct points is >= 1/4 (quarter grid) resp. >= 1 (tables): 1/8 and 0.2 lie below all of them
        c["small"] = True
        c["nclu"] = rng.randint(n + 1, n + k0) if mode in ("k", "both") else None
        c["cutoff"] = rng.choice([0.125, 0.2, 0.125, 1] + ([0, 1.5] if mode == "both" else [])) if mode in ("r", "both") else None
    else:
        c["nclu"] = k0 + rng.randint(1, max(1, min(5, n - k0))) if mode in ("k", "both") else None
        c["cutoff"] = rng.choice([1, 2, 3, 1.5, 2.5]) if mode in ("r", "both") else None
    c["ti"] = rng.random() < 0.7
    if not c["ti"] and rng.random() < 0.3:
        c["form"] = "class"
    if rng.random() < 0.1:
        c["buf"] = True
    return c


def gen_nonframe_line(rng, kind):
    """non-frame warm start on a line, built so that the bound of the shortcut matters: supplied centre P, its nearest
    frame at P - a, a frame at P + b and the farthest frame at P + L with L/2 < b <= (L + a)/2 and a <= b.  The frame at
    P + b is closer to the new centre (P + L) than to P, and it is skipped if centre-to-new-centre distances are
    measured from the nearest frame of P (distance L + a) instead of from P itself (distance L).  Positions on the
    quarter grid; table metrics use 4 x positions (integers)."""
    while True:
        L = F(rng.randint(8, 48), 4)
        b = F(rng.randint(int(2 * L) + 1, int(4 * L) - 1), 4)            # L/2 < b < L
        lo = max(F(1, 4), 2 * b - L)
        a = F(rng.randint(int(4 * lo), int(4 * b)), 4)                    # max(1/4, 2b - L) <= a <= b
        p = F(rng.randint(0, 40), 4)
        pos = [p - a, p + b, p + L]
        for _ in range(rng.randint(0, 5)):                                # bystanders left of P + L, not nearer to P than a
            q = p + F(rng.randint(-int(4 * L) + 1, int(4 * L) - 1), 4)
            if abs(q - p) >= a and q not in pos:
                pos.append(q)
        P = [p]
        if rng.random() < 0.4:                                            # a second supplied centre with its own frame, far left
            P.append(p - 3 * L - F(1, 4))
            pos.append(p - 3 * L)
        if p in pos or len(set(pos)) != len(pos):
            continue
        rng.shuffle(pos)
        break
    n, k0 = len(pos), len(P)
    c = {"kind": "kcenters", "n": n, "vinit": k0, "init": list(range(n, n + k0)), "form": "func", "ti": True,
         "init_form": rng.choice(["array", "list"]), "nclu": k0 + rng.randint(1, 2), "cutoff": None, "line": True}
    if kind in ("matrix", "traj"):
        z = [int(4 * v) for v in pos + P]
        M = [[abs(u - v) for v in z] for u in z]
        if kind == "traj":
            M = [[str(v) for v in row] for row in M]
            c["traj"] = True
        c.update(metric="matrix", M=M, tri=True)
    else:
        c.update(metric=kind, X=[[float(v)] for v in pos], init_pts=[[float(v)] for v in P], dtype=rng.choice(["float64", "float32"]))
    return c


def replay_greedy(D, n, nclu, cutoff, init, ti=False):
    """farthest-first with first-maximum ties and the exact stop rule on the exact matrix D (D[c][f] = distance of
    frame f to centre c; integers or Fractions).  ti=True: with the recompute mask of the shortcut (a frame is looked at
    only if twice its distance exceeds the distance of its centre to the new centre) -- equal to the plain run whenever
    D obeys the triangle inequality.  Returns (ctrs, asg, dst, steals): steals = number of frames that went over to a
    new centre from a cluster OTHER than the one the new centre sat in, at a moment when >= 2 centres existed."""
    if init:
        ctrs = list(init)
        asg, dst = [], []
        for f in range(n):
            j = min(range(len(ctrs)), key=lambda i: (D[ctrs[i]][f], i))
            asg.append(j)
            dst.append(D[ctrs[j]][f])
    else:
        ctrs = [0]
        asg = [0] * n
        dst = [D[0][f] for f in range(n)]
    steals = 0
    while (nclu is None or len(ctrs) < nclu) and max(dst) > cutoff:
        m = max(range(n), key=lambda f: (dst[f], -f))
        own = asg[m]
        cc_d = [D[m][c] for c in ctrs]
        new_asg, new_dst = list(asg), list(dst)
        for f in range(n):
            if ti and not (2 * dst[f] > cc_d[asg[f]]):
                continue
            if D[m][f] < dst[f]:
                new_dst[f], new_asg[f] = D[m][f], len(ctrs)
                if asg[f] != own and len(ctrs) >= 2:
                    steals += 1
        asg, dst = new_asg, new_dst
        ctrs.append(m)
    return ctrs, asg, dst, steals


def _int_D(c):
    """exact integer distances of a generated case, monotone in the real ones (euclidean: squared), for generator filters"""
    if c["metric"] == "matrix":
        return [[int(F(v)) for v in row] for row in c["M"]]
    X = c["X"]
    if c["metric"] == "manhattan":
        return [[sum(abs(a - b) for a, b in zip(p, q)) for q in X] for p in X]
    return [[sum((a - b) ** 2 for a, b in zip(p, q)) for q in X] for p in X]


def gen_ti_steal(rng):
    """the triangle-inequality shortcut on data obeying the triangle inequality (distinct integer points under euclidean /
    manhattan, shortest-path closures of integer tables on an index column or an md.Trajectory), 7..14 frames, at least
    three centres, cold start or continued from 1..2 frames, built so that some new centre takes frames away from a
    NEIGHBOURING cluster (not only from the cluster it sat in): the frames of every cluster have to be re-examined."""
    while True:
        kind = rng.choice(["euclidean", "euclidean", "manhattan", "manhattan", "matrix", "traj"])
        n = rng.randint(7, 14)
        c = {"kind": "kcenters", "form": "func", "ti": True, "n": n, "cutoff": None, "init": None, "steal": True}
        if kind in ("matrix", "traj"):
            M, tri = gen_matrix(rng, n, rng.choice([6, 12, 20]))
            if not tri:
                continue
            c.update(metric="matrix", M=M, tri=True)
        else:
            c.update(metric=kind, X=gen_points(rng, n, rng.randint(1, 3), rng.choice([4, 6, 10])),
                     dtype=rng.choice(["float64", "float64", "float32", "int32", "int64"]))
            if rng.random() < 0.25:
                c["layout"] = rng.choice(LAYOUTS)
        c["nclu"] = rng.randint(3, min(7, n))
        if rng.random() < 0.35:
            c["init"] = rng.sample(range(n), rng.randint(1, 2))
            c["init_form"] = gen_init_form(rng)
        D = _int_D(c)
        if kind != "euclidean" and rng.random() < 0.3:
            # stop on a radius the greedy run attains with >= 3 centres (integer distances: exact in floating point)
            radii = []
            for k in range(3, min(8, n) + 1):
                _, _, dk, _ = replay_greedy(D, n, k, 0, c["init"])
                radii.append(max(dk))
            c["cutoff"] = float(rng.choice(radii))
            if rng.random() < 0.5:
                c["nclu"] = None
        cut = 0 if c["cutoff"] is None else F(c["cutoff"])
        ctrs, _, _, steals = replay_greedy(D, n, c["nclu"], cut, c["init"])
        if steals >= 1 and len(ctrs) >= 3:
            break
    if kind == "traj":
        c["M"] = [[str(v) for v in row] for row in c["M"]]
        c["traj"] = True
        if rng.random() < 0.3:
            c["buf"] = True
    return c


def gen_hybrid_nonmetric(rng, mislead=True):
    """k-hybrid with a user callable that is symmetric, zero exactly on identical frames, but does NOT obey the triangle
    inequality: squared euclidean distances of distinct integer points (what upstream's own tests pass), or an arbitrary
    symmetric integer table; 6..13 frames, >= 3 centres, 0..3 sweeps.  mislead=True: built so that the bound of the
    triangle-inequality shortcut is wrong for some frame and a k-centers run relying on it ends at a higher cost than
    the plain run -- the shortcut must not be taken on the caller's behalf."""
    while True:
        n = rng.randint(6, 13)
        c = {"kind": "hybrid", "metric": "matrix", "n": n, "cutoff": None, "init": None, "nonmetric": True}
        if rng.random() < 0.65:
            pts = gen_points(rng, n, rng.randint(1, 2), rng.choice([6, 10, 20]))
            M = [[sum((a - b) ** 2 for a, b in zip(p, q)) for q in pts] for p in pts]
            c["sq_of"] = pts
        else:
            M = [[0] * n for _ in range(n)]
            for i in range(n):
                for j in range(i + 1, n):
                    M[i][j] = M[j][i] = rng.randint(1, rng.choice([6, 12, 30]))
        if is_metric_space(M):
            continue
        c.update(M=M, tri=False)
        c["nclu"] = rng.randint(3, min(6, n - 1))
        if rng.random() < 0.3:
            c["init"] = rng.sample(range(n), rng.randint(1, 2))
            c["init_form"] = gen_init_form(rng)
        if rng.random() < 0.2:
            _, _, dk, _ = replay_greedy(M, n, c["nclu"], 0, c["init"])
            c["cutoff"] = float(max(dk))             # both criteria; the radius the plain run attains with nclu centres
        cut = 0 if c["cutoff"] is None else F(c["cutoff"])
        if mislead:
            p = replay_greedy(M, n, c["nclu"], cut, c["init"])
            s = replay_greedy(M, n, c["nclu"], cut, c["init"], ti=True)
            if not sum(v * v for v in s[2]) > sum(v * v for v in p[2]):
                continue
        break
    c["n_iters"] = rng.choice([0, 0, 1, 1, 2, 3])
    c["seed"] = rng.randrange(10 ** 6)
    c["form"] = "class" if rng.random() < 0.3 else "func"
    if c["form"] == "class" and rng.random() < 0.4:
        c["hist"] = gen_hist(rng, c)
    return c


def gen_ti_boundary(rng):
    """1-D float data where some frame sits a hair above half the centre-to-new-centre distance:
    the comparison `distances > cc_dists/2` of the triangle shortcut is decided by ~1e-7..1e-9."""
    eps = rng.choice([1e-7, 1e-9, 1e-6, 3e-6, 1e-5])
    span = rng.choice([2, 4, 6])
    pts = [0.0, float(span)]
    for _ in range(rng.randint(1, 4)):
        base = span / 2 + rng.choice([0, 0, 1, -1]) * rng.choice([0, 0.5])
        pts.append(base + rng.choice([1, -1, 2, 0]) * eps)
    pts += [float(rng.randint(1, span * 2)) + rng.choice([0, eps]) for _ in range(rng.randint(0, 3))]
    pts = [pts[0]] + sorted(set(pts[1:]), key=lambda v: rng.random())
    n = len(pts)
    return {"metric": "euclidean", "X": [[p] for p in pts], "dtype": "float64", "n": n, "kind": "kcenters",
            "nclu": rng.randint(2, n), "cutoff": None, "init": None, "form": "func", "ti": rng.random() < 0.8}


def gen_kmedoids(rng, nmax=11):
    c = _base(rng, nmax, pam=True)
    n = c["n"]
    c["kind"] = "kmedoids"
    k = rng.randint(1, min(n, 5))
    how = rng.choice(["cold", "centers", "state", "state", "pairs"])
    st = {"how": how, "k": k}
    if how == "centers":
        st["ctrs"] = rng.sample(range(n), k)
    elif how == "pairs":
        cuts = sorted(rng.sample(range(1, n), min(n - 1, rng.randint(0, 2)))) if n > 1 else []
        lens = [b - a for a, b in zip([0] + cuts, cuts + [n])]
        flat = rng.sample(range(n), k)
        pairs = []
        for fidx in flat:
            t, off = 0, fidx
            while off >= lens[t]:
                off -= lens[t]
                t += 1
            pairs.append([t, off])
        st["lengths"], st["pairs"] = lens, pairs
    elif how == "state":
        st["give_ctrs"] = rng.random() < 0.5
    c["start"] = st
    c["n_iters"] = rng.randint(1, 4)
    c["seed"] = rng.randrange(10 ** 6)
    c["proposals"] = None
    if rng.random() < 0.35:
        c["proposals"] = [rng.randrange(n) for _ in range(k)]
    c["form"] = "func"
    if rng.random() < 0.2:
        _tiny(rng, c)
    if how in ("centers", "state") and c["proposals"] is None and rng.random() < 0.35:
        c["form"] = "class"               # KMedoids estimator (fit takes the start state; global RandomState)
        if rng.random() < 0.7:
            c["hist"] = gen_hist(rng, c)
    return c


def gen_multiscale(rng):
    """1-D integer data with very different length scales: a tight far-away group and a wide spread,
    so that a worse medoid for the tight group changes the mean cost by a relatively tiny amount."""
    far = rng.choice([5000, 20000, 100000])
    tight = sorted({far + d for d in rng.sample(range(0, 6), rng.randint(2, 4))})
    wide = sorted({rng.randrange(0, 40) * 100 for _ in range(rng.randint(3, 7))})
    pts = wide + tight
    rng.shuffle(pts)
    n = len(pts)
    c = {"metric": rng.choice(["euclidean", "manhattan"]), "X": [[p] for p in pts], "dtype": "float64", "n": n,
         "kind": "kmedoids", "n_iters": rng.randint(1, 3), "seed": rng.randrange(10 ** 6), "form": "func"}
    k = rng.randint(2, min(4, n))
    # start from a consistent state whose tight-group medoid is the best one; propose worse ones
    c["start"] = {"how": "centers", "k": k, "ctrs": rng.sample(range(n), k)}
    c["proposals"] = [rng.randrange(n) for _ in range(k)] if rng.random() < 0.7 else None
    return c


def gen_hybrid(rng, nmax=11):
    c = _base(rng, nmax, pam=True)
    n = c["n"]
    c["kind"] = "hybrid"
    mode = rng.choice(["k", "k", "r", "both"])
    c["nclu"] = rng.randint(1, min(n, 6)) if mode in ("k", "both") else None
    c["cutoff"] = rng.choice([1, 2, 3, 5]) if mode in ("r", "both") else None
    c["init"] = None
    if rng.random() < 0.3:
        c["init"] = rng.sample(range(n), rng.randint(1, min(3, n)))
        c["init_form"] = gen_init_form(rng)
    c["n_iters"] = rng.randint(0, 3)
    c["seed"] = rng.randrange(10 ** 6)
    c["form"] = "class" if rng.random() < 0.3 else "func"
    if rng.random() < 0.15:
        _tiny(rng, c)
    if c["form"] == "class" and rng.random() < 0.6:
        c["hist"] = gen_hist(rng, c)
    return c


def _as_class(rng, c):
    """turn a generated case into its estimator form (where the estimator offers the case's options)"""
    if c["kind"] == "kcenters":
        c["form"], c["ti"] = "class", False
        c.pop("explicit_none", None)
        if c["nclu"] is None and c["cutoff"] is None:
            c["nclu"] = rng.randint(1, c["n"])
        return True
    if c["kind"] == "kmedoids":
        if c["start"]["how"] not in ("centers", "state") or c.get("proposals") is not None:
            return False
        c["form"] = "class"
        return True
    c["form"] = "class"
    return True


def gen_wide(rng, kind, dtype, pred=lambda c: True):
    """a case of entry point `kind` on 48..100 (now and then 8..256) features under the euclidean metric: arbitrary float32 / float64
    coordinates in (-10, 10), as for real feature vectors (sums of their squares are not exact in float64).  The
    triangle shortcut is left off (its comparisons are not claimed to survive rounding)."""
    gens = {"kcenters": gen_kcenters, "kmedoids": gen_kmedoids, "hybrid": gen_hybrid}
    while True:
        c = gens[kind](rng)
        if c["n"] >= 4 and pred(c):
            break
    for k in ("M", "tri", "layout", "buf", "scale_exp"):
        c.pop(k, None)
    n = c["n"]
    d = rng.choice([48, 48, 49, 50, 64, 100, rng.randint(48, 100), rng.randint(48, 100), rng.choice([8, 16, 32, 128, 256])])
    f32 = lambda v: struct.unpack("f", struct.pack("f", v))[0]
    rows = set()
    while len(rows) < n:
        row = [rng.uniform(-10, 10) for _ in range(d)]
        rows.add(tuple(f32(v) for v in row) if dtype == "float32" else tuple(row))
    c.update(metric="euclidean", dtype=dtype, X=[list(r) for r in rows], wide=d)
    if c.get("cutoff") is not None:
        c["cutoff"] = float(rng.choice([1, 50, 60, 75]))       # typical distance: sqrt(66.7 d) = 56 .. 82
    if kind == "kcenters":
        c["ti"] = False
    return c


def gen_wide_stream(rng, reps=1):
    """wide feature vectors through every entry point, both float dtypes"""
    out = []
    for _ in range(reps):
        for dtype in ("float32", "float64"):
            for kind in ("kcenters", "hybrid"):
                for form in ("func", "class"):
                    for warm in (False, True):
                        out.append(gen_wide(rng, kind, dtype, lambda c: c.get("form") == form and (c.get("init") is not None) == warm))
            for how in ("cold", "centers", "state", "pairs"):
                out.append(gen_wide(rng, "kmedoids", dtype, lambda c: c["start"]["how"] == how and c["form"] == "func"))
            out.append(gen_wide(rng, "kmedoids", dtype, lambda c: c["form"] == "class"))
    return out


# ----------------------------------------------------------------------------- more than 2^16 frames
BIG_BLOCK = 1 << 16


def gen_big_kmedoids(rng, where="end"):
    """a k-medoids sweep on 65537..70000 frames on a line (k = 2, explicit proposals), held as a recipe: a run of
    `L` consecutive integer positions 0..L-1 plus a far group of `t` positions -T-t+1..-T, all one cluster around the
    medoid at position p, and three frames far to the right as the second cluster.  The group of t frames sits at the
    end / start / middle of the array.  p is at or right of the mean of the whole cluster, the proposal q lies between
    p and the mean of the run: moving the medoid to q lowers the cost of the run and raises the total cost, so the
    far group decides the accept test."""
    n = rng.randint(BIG_BLOCK + 1, 70000)
    t = n % BIG_BLOCK if where == "end" else rng.randint(200, 4000)
    if t < 40:                                   # too few frames to outweigh anything: take a longer array
        n += 500
        t = n % BIG_BLOCK if where == "end" else t
    L = n - t - 3
    T = rng.randint(L // 2, 2 * L)
    # mean of run + far group (exact)
    tot = F(L * (L - 1), 2) + sum(F(-T - j) for j in range(t))
    mean_all = tot / (L + t)
    mean_run = F(L - 1, 2)
    lo = int(mean_all) + 1 if mean_all >= 0 else 0
    hi = int(mean_run)
    p = rng.randint(lo, min(hi - 2, lo + 50))
    q = rng.randint(p + 1, min(hi, p + rng.choice([1, 5, 50, 500])))
    return {"kind": "kmedoids_big", "n": n, "t": t, "L": L, "T": T, "p": p, "q": q, "where": where,
            "n_iters": rng.randint(1, 2), "perm_seed": rng.randrange(10 ** 6), "dtype": rng.choice(["float64", "float64", "float32"]),
            "metric": rng.choice(["euclidean", "manhattan"])}


def _big_positions(c):
    rs = np.random.RandomState(c["perm_seed"])
    L, t, T = c["L"], c["t"], c["T"]
    lead = np.concatenate([np.arange(L, dtype=np.int64), 3 * L + 2 * T + np.arange(3, dtype=np.int64) * 7])
    lead = lead[rs.permutation(len(lead))]
    far = -T - np.arange(t, dtype=np.int64)
    if c["where"] == "end":
        return np.concatenate([lead, far])
    if c["where"] == "start":
        return np.concatenate([far, lead])
    cut = len(lead) // 2
    return np.concatenate([lead[:cut], far, lead[cut:]])


def run_big(c):
    from enspara.cluster import kmedoids as KM
    pos = _big_positions(c)
    X = pos.astype(c["dtype"]).reshape(-1, 1)
    h0 = hashlib.sha256(X.tobytes()).hexdigest()
    idx = {int(v): i for i, v in enumerate(pos)}
    c1 = 3 * c["L"] + 2 * c["T"]
    start = [idx[c["p"]], idx[c1]]
    props = [idx[c["q"]], idx[c1]]
    out = {"start": start, "proposals": props}

    def exact_cost(ctr_idx):
        d = np.abs(pos[:, None] - pos[np.asarray(ctr_idx, dtype=int)][None, :])
        m = d.min(axis=1)
        return int((m * m).sum()), d

    saved = np.random.get_state()
    try:
        with Watchdog(60):
            np.random.seed(c["perm_seed"])
            res = KM.kmedoids(X, c["metric"], cluster_center_inds=list(start), n_iters=c["n_iters"], proposals=list(props))
        ci = [int(i) for i in res.center_indices]
        out["ctrs"] = ci
        out["before"], _ = exact_cost(start)
        out["after"], d = exact_cost(ci)
        asg = np.asarray(res.assignments)
        dst = np.asarray(res.distances)
        out["k"] = len(ci)
        out["labels_ok"] = bool(asg.shape == (len(pos),) and asg.min() >= 0 and asg.max() < len(ci))
        if out["labels_ok"]:
            own = d[np.arange(len(pos)), asg]
            out["distances_ok"] = bool(np.array_equal(dst, own.astype(float)))
            out["nearest_ok"] = bool(np.array_equal(own, d.min(axis=1)))
        out["centers_ok"] = bool(len(res.centers) == len(ci) and all(np.array_equal(np.asarray(a), X[i]) for a, i in zip(res.centers, ci)))
        out["reported"] = str(F(float(np.sum(np.square(dst.astype(float))))))
    except Exception as ex:
        out["err"] = type(ex).__name__
        out["msg"] = str(ex)[:200]
    finally:
        np.random.set_state(saved)
    out["X_unchanged"] = hashlib.sha256(X.tobytes()).hexdigest() == h0
    return out


def big_failures(c, out):
    if "err" in out:
        return [err_failure(out)]
    what = "%d frames on a line (%d consecutive positions, %d far frames at the %s of the array), medoids at frames %s, proposals %s, %d sweep(s)" % (
        c["n"], c["L"], c["t"], c["where"], out["start"], out["proposals"], c["n_iters"])
    fails = []
    if out["after"] > out["before"]:
        fails.append(("cost-increased", "%s: the sum of squared distances went from %d to %d (centres %s)" % (what, out["before"], out["after"], out["ctrs"])))
    if out["k"] != 2:
        fails.append(("k-changed", "%s: %d centres came back" % (what, out["k"])))
    if not out["labels_ok"]:
        fails.append(("label-range", what))
    elif not out["distances_ok"]:
        fails.append(("distance-value", "%s: a reported distance is not the distance to the centre of the frame's label" % what))
    elif not out["nearest_ok"]:
        fails.append(("closer-center", "%s: some frame has a closer centre than its own" % what))
    if not out["centers_ok"]:
        fails.append(("center-not-in-data", "%s: a reported centre is not the frame at its index" % what))
    if not out["X_unchanged"]:
        fails.append(("input-modified", "the data array was modified"))
    return fails


def gen_axis_streams(rng, kinds, reps=1):
    """cases that force every value of the input-class axes (memory layout of the data, container of the warm
    start centres, buffer-reusing metric, estimator-reuse histories) for every entry point in `kinds`
    (kcenters / kmedoids / hybrid / traj), so that each class is exercised in every run"""
    gens = {"kcenters": gen_kcenters, "kmedoids": gen_kmedoids, "hybrid": gen_hybrid, "traj": gen_traj_kcenters}
    out = []

    def draw(kind, pred=lambda c: True):
        while True:
            c = gens[kind](rng)
            if pred(c):
                for k in ("layout", "buf", "hist"):
                    c.pop(k, None)
                if c.get("form") == "class" and kind == "kcenters" and rng.random() < 0.5:
                    c["form"] = "func"
                return c

    for _ in range(reps):
        for kind in kinds:
            # memory layouts (library metrics on numeric arrays)
            if kind != "traj":
                for lay in LAYOUTS:
                    c = draw(kind, lambda c: c["metric"] != "matrix" and c["n"] >= 3)
                    c["layout"] = lay
                    c["dtype"] = rng.choice(["float64", "float64", "float32"] + ([] if c.get("scale_exp") else ["int64"]))
                    if len(c["X"][0]) == 1 and lay in ("F", "T"):        # (n,1) is contiguous either way: use >= 2 columns
                        c["X"] = [p + [rng.randrange(3)] for p in c["X"]]
                        if c["metric"] == "euclidean" and c["kind"] != "kcenters":
                            c["metric"] = "manhattan"                     # keep the PAM cost exact
                    out.append(c)
            # containers of the initial centres
            if kind != "kmedoids":
                for form in ("array", "list", "result"):
                    for want_class in (False, True):
                        c = draw(kind)
                        n = c["n"]
                        if c.get("init") is None:
                            c["init"] = rng.sample(range(n), rng.randint(1, min(3, n)))
                        c["init_form"] = form
                        if c["nclu"] is not None and rng.random() < 0.7:
                            c["nclu"] = min(n, len(c["init"]) + rng.randint(1, 3))     # the run adds centres
                        if want_class:
                            _as_class(rng, c)
                        elif kind != "hybrid":
                            c["form"] = "func"
                        out.append(c)
            # metric returning a reused buffer
            for want_init in (False, True):
                c = draw(kind)
                c["buf"] = True
                if want_init and kind != "kmedoids":
                    c["init"] = rng.sample(range(c["n"]), rng.randint(2, min(3, c["n"])))
                    c["init_form"] = gen_init_form(rng)
                out.append(c)
            # tiny length scale; for k-medoids: warm start from labels + distances without centre indices
            if kind in ("kmedoids", "hybrid"):
                for met in ("matrix", "manhattan", "euclidean"):
                    c = draw(kind, lambda c: c["metric"] == met and c["n"] >= 5 and
                             (kind != "kmedoids" or (c["start"]["how"] == "state" and c["start"]["k"] >= 2)))
                    if kind == "kmedoids":
                        c["start"]["give_ctrs"] = False
                        c["form"] = "func"
                    _tiny(rng, c)
                    out.append(c)
            # explicit proposals over several sweeps, from every kind of supplied start state
            if kind == "kmedoids":
                for how in ("centers", "state", "pairs"):
                    c = draw(kind, lambda c: c["start"]["how"] == how and c["n"] >= 5 and c["start"]["k"] >= 2)
                    c["form"] = "func"
                    c["proposals"] = [rng.randrange(c["n"]) for _ in range(c["start"]["k"])]
                    c["n_iters"] = rng.randint(2, 4)
                    out.append(c)
            # estimator-reuse histories
            nread = 0
            for via in ("set_params", "attr", "both"):
                for prefit in (None, "same", "other"):
                    c = draw(kind, lambda c: _as_class(rng, dict(c, start=dict(c.get("start", {})))))
                    _as_class(rng, c)
                    h = gen_hist(rng, c)
                    h["via"], h["prefit"] = via, prefit
                    h.pop("perm", None)
                    h.pop("read", None)
                    if prefit == "other":
                        h["perm"] = rng.sample(range(c["n"]), rng.randint(1, c["n"]))
                    if prefit:               # every way of reading the estimator after the earlier fit, in turn
                        h["read"] = ("attrs", "fit_predict", "predict")[nread % 3]
                        nread += 1
                    c["hist"] = h
                    out.append(c)
            # warm start from est.centers_ of an earlier fit of the same estimator
            if kind != "kmedoids":
                for with_hist in (False, True):
                    c = draw(kind)
                    n = c["n"]
                    c["init"] = rng.sample(range(n), rng.randint(1, min(3, n)))
                    c["init_form"] = "estimator"
                    if c["nclu"] is not None:
                        c["nclu"] = min(n, len(c["init"]) + rng.randint(0, 3))
                    _as_class(rng, c)
                    if with_hist:
                        h = gen_hist(rng, c)
                        h.update(via="set_params", prefit="other", read="attrs", perm=rng.sample(range(n), rng.randint(1, n)))
                        c["hist"] = h
                    out.append(c)
    return out


def model_term(c, out):
    """Coq term of type st: the model run on the implementation's distance matrix and history."""
    n = c["n"]
    Dt = "(Dext M %s)" % cn(n + (c.get("vinit") or 0))
    kind = c["kind"]

    def kc(cc):
        if cc.get("init") is None:
            return "(kcenters_cold %s %s %s %s %s)" % (Dt, nclu_term(cc), cutoff_term(cc), cb(bool(cc.get("ti"))), cn(n))
        return "(kcenters_warm %s %s %s %s %s %s)" % (Dt, nclu_term(cc), cutoff_term(cc), cb(bool(cc.get("ti"))),
                                                      clist(cc["init"], cn, "nat"), cn(n))
    if kind == "kcenters":
        body = kc(c)
        body = body  # stopping criteria go through the translated normalisation, see coq_check
    elif kind == "assign":
        body = "(nearest_state %s %s %s)" % (Dt, clist(c["centers"], cn, "nat"), cn(n))
    elif kind == "kmedoids":
        st = c["start"]
        k = st["k"]
        if st["how"] == "state":
            start = "(kcenters_cold %s (Some %s) (Qmake 0 1) false %s)" % (Dt, cn(k), cn(n))
            k = len(out["start_ctrs"])
        else:
            start = "(nearest_state %s %s %s)" % (Dt, clist(out["start_ctrs"], cn, "nat"), cn(n))
        if c.get("proposals") is not None:
            sweeps = [c["proposals"]] * c["n_iters"]
        else:
            sweeps = split_sweeps(out["proposals_log"], k, c["n_iters"])
        body = "(kmedoids %s %s %s)" % (Dt, start, clist(sweeps, lambda s: clist(s, cn, "nat"), "(list nat)"))
    else:
        k = len(out["kc"]["ctrs"])
        sweeps = split_sweeps(out["proposals_log"], k, c["n_iters"])
        body = "(kmedoids %s %s %s)" % (Dt, kc(c), clist(sweeps, lambda s: clist(s, cn, "nat"), "(list nat)"))
    return "(let M := %s in %s)" % (D_term(out), body)


def arg_terms(c):
    """the n_clusters / dist_cutoff arguments as passed to the function form"""
    explicit = c.get("explicit_none") or c.get("form") == "class"
    nc = "(NcInt %s)" % cn(c["nclu"]) if c["nclu"] is not None else ("NcNone" if explicit else "NcInf")
    dc = "(DcVal %s)" % cq(F(c["cutoff"])) if c["cutoff"] is not None else ("DcNone" if explicit else "(DcVal (Qmake 0 1))")
    return nc, dc


def coq_check(c, out):
    if c.get("empty_init"):
        return None            # witness of the known finding empty-initial-centre (C02): judged by the oracle only
    if c["kind"] == "kcenters" and c.get("form") != "class_invalid":
        nc, dc = arg_terms(c)
        n = c["n"]
        if "res" not in out:
            if out.get("err") == "ImproperlyConfigured":
                return "(match effective %s %s with None => true | Some _ => false end)" % (nc, dc)
            return None
        N, res = n, out["res"]
        if c.get("vinit"):
            # supplied centres that are not frames: virtual frames n.. of the (n+k0)^2 matrix; the model's centre list
            # names them by their virtual index, the implementation by the frame nearest to each (oracle: first-centres)
            k0 = c["vinit"]
            N = n + k0
            if len(res["ctrs"]) < k0:
                return None
            res = dict(res, ctrs=list(c["init"]) + res["ctrs"][k0:])
        run = ("kcenters_cold (Dext M %s) k r %s %s" % (cn(N), cb(bool(c.get("ti"))), cn(n))) if c.get("init") is None else \
              ("kcenters_warm (Dext M %s) k r %s %s %s" % (cn(N), cb(bool(c.get("ti"))), clist(c["init"], cn, "nat"), cn(n)))
        return ("(let M := %s in valid_matrix M %s && match effective %s %s with Some (k, r) => st_eqb (%s) %s "
                "| None => false end)%%bool") % (D_term(out), cn(N), nc, dc, run, res_term(res))
    if "res" not in out:
        return None
    if c.get("wide"):
        return None        # irrational distances: the float cost of a sweep is not the exact one the model compares; oracle only
    return "(let M := %s in valid_matrix M %s && st_eqb %s %s)%%bool" % (
        D_term(out), cn(c["n"]), model_term(c, out).split(" in ", 1)[1][:-1], res_term(out["res"]))


def coq_show(c, out=None):
    if out is None:
        out = run_case(c)
    return "st_show %s" % model_term(c, out)


def common_tags(c, out):
    t = [c["kind"], c["metric"]]
    if c.get("init") is not None:
        t.append("warm-init")
    if c.get("vinit"):
        t.append("non-frame-init")
        t.append("non-frame-init-" + ("md-trajectory" if c.get("traj") else c["metric"]))
        if c.get("ti"):
            t.append("non-frame-init-ti")
    if c.get("ti"):
        t.append("ti")
        if c["kind"] == "kcenters" and "res" in out and len(out["res"]["ctrs"]) >= 3 and not c.get("vinit"):
            D = [[F(v) for v in row] for row in out["D"]]
            cut = F(c["cutoff"]) if c.get("cutoff") is not None else F(0)
            if is_metric_space(D) and replay_greedy(D, c["n"], c.get("nclu"), cut, c.get("init"))[3] >= 1:
                t.append("ti-new-centre-takes-frames-of-neighbouring-cluster")
    if c["kind"] == "hybrid" and c["metric"] == "matrix" and "D" in out and "res" in out and c.get("init_pts") is None:
        D = [[F(v) for v in row] for row in out["D"]]
        if not is_metric_space(D):
            t.append("hybrid-non-metric-callable")
            cut = F(c["cutoff"]) if c.get("cutoff") is not None else F(0)
            if replay_greedy(D, c["n"], c.get("nclu"), cut, c.get("init"), ti=True)[:3] != replay_greedy(D, c["n"], c.get("nclu"), cut, c.get("init"))[:3]:
                t.append("hybrid-non-metric-callable-shortcut-bound-wrong")
    if c.get("vinit") and c["kind"] == "kcenters":
        if c.get("nclu") is not None and c["nclu"] > c["n"]:
            t.append("non-frame-init-more-centres-requested-than-frames")
        if out.get("n_centers") is not None and out["n_centers"] > c["n"]:
            t.append("non-frame-init-ends-with-more-centres-than-frames")
    if c["kind"] == "kcenters" and c["metric"] == "euclidean" and any(float(v[0]) != int(v[0]) for v in c["X"] if len(v) == 1):
        t.append("near-half-boundary")
    if c.get("form") == "class":
        t.append("estimator-form")
    if c["kind"] == "kmedoids":
        t.append("start-" + c["start"]["how"])
        t.append("explicit-proposals" if c.get("proposals") is not None else "random-proposals")
    if "err" in out:
        t.append("impl-error")
    if c["kind"] == "kmedoids" and c["metric"] != "matrix" and max(v[0] for v in c["X"]) >= 5000:
        t.append("multi-scale-data")
    if c["kind"] == "kcenters" and c.get("nclu") is not None and c["nclu"] > c["n"]:
        t.append("more-clusters-than-frames")
    if c.get("explicit_none"):
        t.append("explicit-none-args")
    if c.get("traj"):
        t.append("md-trajectory-input")
    if c.get("init") is not None:
        t.append("init-" + (c.get("init_form") or "array"))
        if c.get("traj"):
            t.append("warm-init-md-trajectory")
    if c.get("layout") and c["metric"] != "matrix" and not c.get("traj"):
        t.append("non-contiguous-data" if c["layout"] != "readonly" else "readonly-data")
        t.append("layout-" + c["layout"])
    if c.get("scale_exp"):
        t.append("tiny-scale")
        if c["kind"] == "kmedoids" and c["start"]["how"] == "state" and not c["start"].get("give_ctrs", True):
            t.append("tiny-scale-start-without-centres")
    if c.get("buf"):
        t.append("buffer-reusing-metric")
    if c.get("wide"):
        t.append("wide-features")
        t.append("wide-features-%s-%s" % (c["kind"], c["dtype"]))
    if c["kind"] == "kmedoids" and c.get("proposals") is not None and c["n_iters"] >= 2 and out.get("explicit_runs"):
        t.append("explicit-proposals-several-sweeps-no-random-state")
    if c.get("hist"):
        t.append("estimator-history")
        t.append("estimator-history-" + c["kind"])
        if c["hist"].get("prefit"):
            t.append("estimator-refit-" + c["hist"]["prefit"])
            if c["hist"].get("read"):
                t.append("estimator-read-%s-then-refit" % c["hist"]["read"])
    return t
