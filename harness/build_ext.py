"""Build enspara's three Cython extensions from /repo's *current* .pyx sources.

The build happens in a mkdtemp directory outside /repo and /verif; only the .so files are
kept, in /verif/.cache/ext/<hash-of-sources>/.  Prints that directory.
"""
import hashlib, os, shutil, subprocess, sys, tempfile

REPO = os.environ.get("ENSPARA_REPO", "/repo")
CACHE = os.path.join(os.path.dirname(os.path.dirname(os.path.abspath(__file__))), ".cache", "ext")
PYX = ["enspara/info_theory/libinfo.pyx", "enspara/geometry/libdist.pyx", "enspara/msm/libmsm.pyx"]
PY = "/venv/bin/python"

SETUP = r'''
import numpy as np
from setuptools import setup, Extension
from Cython.Build import cythonize
args = ['-Wno-unreachable-code', '-fopenmp', '-O2', '-w']
exts = [Extension(n, [p], extra_compile_args=args, extra_link_args=['-fopenmp'])
        for n, p in [("enspara.info_theory.libinfo", "enspara/info_theory/libinfo.pyx"),
                     ("enspara.geometry.libdist", "enspara/geometry/libdist.pyx"),
                     ("enspara.msm.libmsm", "enspara/msm/libmsm.pyx")]]
setup(name='x', ext_modules=cythonize(exts, quiet=True, nthreads=3), include_dirs=[np.get_include()])
'''


def source_hash():
    h = hashlib.sha256()
    for p in PYX:
        with open(os.path.join(REPO, p), "rb") as f:
            h.update(p.encode()); h.update(f.read())
    return h.hexdigest()[:20]


def ensure():
    hh = source_hash()
    dest = os.path.join(CACHE, hh)
    if os.path.isdir(dest) and len([f for f in os.listdir(dest) if f.endswith(".so")]) == 3:
        return dest
    tmp = tempfile.mkdtemp(prefix="enspara_ext_")
    try:
        for p in PYX:
            d = os.path.join(tmp, os.path.dirname(p))
            os.makedirs(d, exist_ok=True)
            shutil.copy(os.path.join(REPO, p), os.path.join(tmp, p))
        for d in ["enspara", "enspara/info_theory", "enspara/geometry", "enspara/msm"]:
            open(os.path.join(tmp, d, "__init__.py"), "w").close()
        with open(os.path.join(tmp, "setup.py"), "w") as f:
            f.write(SETUP)
        r = subprocess.run([PY, "setup.py", "build_ext", "--inplace", "-j", "3"], cwd=tmp,
                           stdout=subprocess.PIPE, stderr=subprocess.STDOUT, text=True, timeout=900)
        if r.returncode != 0:
            sys.stderr.write(r.stdout[-4000:])
            raise SystemExit("extension build failed")
        os.makedirs(dest + ".part", exist_ok=True)
        n = 0
        for root, _, files in os.walk(os.path.join(tmp, "enspara")):
            for fn in files:
                if fn.endswith(".so"):
                    shutil.copy(os.path.join(root, fn), os.path.join(dest + ".part", fn)); n += 1
        if n != 3:
            raise SystemExit("expected 3 .so files, got %d" % n)
        if os.path.isdir(dest):
            shutil.rmtree(dest)
        os.rename(dest + ".part", dest)
        return dest
    finally:
        shutil.rmtree(tmp, ignore_errors=True)


if __name__ == "__main__":
    print(ensure())
