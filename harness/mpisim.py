"""Thread-simulated mpi4py (DESIGN 4.2).  There is no libmpi in the sandbox.

`make_module(world_size)` returns a module object to install as sys.modules['mpi4py']; its
`MPI.COMM_WORLD` is ONE object for the life of the process (enspara.mpi caches its bound methods
`Get_rank` / `Get_size`).  Ranks are Python threads started by `run_ranks(P, fn)`:

* `Get_rank()` reads a thread-local; `Get_size()` the size of the world the calling thread belongs
  to.  A thread that is not a rank thread (the main thread running the serial reference) sees a
  world of size 1 and rank 0, for which every collective is the identity -- unless a default world
  size > 1 was set with `set_world_size(P)` and `run_ranks(None, fn)` is used.
* Collectives (`bcast Bcast allgather allreduce gather Barrier barrier`) are bulk-synchronous: every rank
  deposits its contribution in a slot array, all wait on a `threading.Barrier`, every rank reads the
  whole slot vector and computes the collective's value as a *function of that vector*, all wait
  again.  Objects travel through pickle (as in mpi4py's lower-case methods), so no rank ever aliases
  another rank's arrays.  The name of the collective and its root are exchanged too: ranks that
  disagree raise `CollectiveMismatch` instead of silently exchanging garbage.
* a rank that raises breaks the barrier, so its peers fail with `BrokenBarrierError` instead of
  hanging; a barrier timeout turns a deadlock (a rank skipping a collective) into an error.
* `jitter`: a seed; when given, every rank sleeps a pseudo-random time before EACH collective (its
  arrival) and again before leaving it (its departure), and threads are started in a shuffled order.
  The sleep scale is per rank: the seed picks "straggler" ranks that sleep ten times longer, so that
  over the seeds every rank is sometimes the last and sometimes the first to arrive.  The order in
  which the ranks arrived at each collective is recorded (`stats` argument of run_ranks) so that the
  harness can report how many distinct arrival orders a run really exercised.

SUM / MAX / MIN are Python folds over the slot vector in rank order.
"""
import pickle, random, threading, time, types

_tl = threading.local()
_default_world = [1]
TIMEOUT = 120.0


class CollectiveMismatch(RuntimeError):
    pass


class SimAbort(RuntimeError):
    pass


class RankFailure(RuntimeError):
    """raised by run_ranks when some rank raised; .errors = {rank: exception}"""

    def __init__(self, errors):
        self.errors = errors
        first = next((e for e in errors.values() if not isinstance(e, threading.BrokenBarrierError)),
                     next(iter(errors.values())))
        self.first = first
        RuntimeError.__init__(self, "rank(s) %s failed: %s: %s" % (
            sorted(errors), type(first).__name__, first))


class _Op:
    def __init__(self, name, fold):
        self.name, self.fold = name, fold

    def __repr__(self):
        return "MPI." + self.name


def _fold(f):
    def go(vals):
        acc = vals[0]
        for v in vals[1:]:
            acc = f(acc, v)
        return acc
    return go


SUM = _Op("SUM", _fold(lambda a, b: a + b))
MAX = _Op("MAX", _fold(lambda a, b: b if b > a else a))
MIN = _Op("MIN", _fold(lambda a, b: b if b < a else a))


class _World:
    def __init__(self, size, jitter=None):
        self.size = size
        self.slots = [None] * size
        self.barrier = threading.Barrier(size)
        self.jitter = jitter
        self.n_collectives = 0
        self.arrivals = []            # ranks in order of arrival, P entries per collective
        if jitter is not None:
            wr = random.Random(int(jitter) * 104729 + 17)
            self.scales = [(4e-4 if wr.random() < 0.34 else 4e-5) for _ in range(size)]
            if size > 1 and wr.random() < 0.5:     # one designated straggler
                self.scales[wr.randrange(size)] = 8e-4
        else:
            self.scales = [0.0] * size


def _copy(x):
    return pickle.loads(pickle.dumps(x, protocol=pickle.HIGHEST_PROTOCOL))


class SimComm:
    """the one COMM_WORLD object"""

    # -- topology
    def _world(self):
        return getattr(_tl, "world", None)

    def Get_rank(self):
        return getattr(_tl, "rank", 0)

    def Get_size(self):
        w = self._world()
        return w.size if w is not None else 1

    rank = property(Get_rank)
    size = property(Get_size)

    # -- the BSP step
    def _exchange(self, tag, value, compute):
        w = self._world()
        if w is None:                       # world of size 1
            return compute([value])
        r = _tl.rank
        if w.jitter is not None:
            time.sleep(_tl.rng.random() * w.scales[r])
        w.slots[r] = (tag, value)
        w.arrivals.append(r)              # list.append is atomic
        w.barrier.wait(TIMEOUT)
        try:
            tags = [s[0] for s in w.slots]
            if any(t != tags[0] for t in tags):
                raise CollectiveMismatch("ranks disagree on the collective: %s" % (tags,))
            out = compute([s[1] for s in w.slots])
        except BaseException:
            w.barrier.abort()
            raise
        if w.jitter is not None:
            time.sleep(_tl.rng.random() * w.scales[r] * 0.5)
        w.barrier.wait(TIMEOUT)
        if r == 0:
            w.n_collectives += 1
        return out

    def Barrier(self):
        self._exchange(("barrier",), None, lambda vals: None)

    barrier = Barrier

    def bcast(self, obj, root=0):
        me = self.Get_rank()
        return self._exchange(("bcast", int(root)), obj if me == root else None,
                              lambda vals: obj if me == root else _copy(vals[int(root)]))

    def Bcast(self, buf, root=0):
        import numpy as np
        me = self.Get_rank()

        def put(vals):
            if me != root:
                src = np.asarray(vals[int(root)][0])
                dst = np.asarray(buf)
                if src.size != dst.size or src.dtype != dst.dtype:
                    raise CollectiveMismatch("Bcast buffers differ: root %s%s, rank %d %s%s" % (
                        src.dtype, src.shape, me, dst.dtype, dst.shape))
                dst.reshape(-1)[...] = src.reshape(-1)
            return None
        # the buffer itself is exchanged (wrapped so that pickling is not needed); copied before the
        # second barrier, i.e. before the root can touch it again
        self._exchange(("Bcast", int(root)), (buf,), put)

    def allgather(self, obj):
        return self._exchange(("allgather",), obj, lambda vals: [_copy(v) for v in vals])

    def gather(self, obj, root=0):
        me = self.Get_rank()
        return self._exchange(("gather", int(root)), obj,
                              lambda vals: [_copy(v) for v in vals] if me == root else None)

    def allreduce(self, obj, op=SUM):
        return self._exchange(("allreduce", op.name), obj, lambda vals: _copy(op.fold(list(vals))))

    def Abort(self, errorcode=0):
        w = self._world()
        if w is not None:
            w.barrier.abort()
        raise SimAbort("MPI_Abort(%s)" % errorcode)


COMM_WORLD = SimComm()


def set_world_size(P):
    """default world size used by run_ranks(None, fn)"""
    assert int(P) >= 1
    _default_world[0] = int(P)


def get_world_size():
    return _default_world[0]


def make_module(world_size=1):
    set_world_size(world_size)
    pkg = types.ModuleType("mpi4py")
    MPI = types.ModuleType("mpi4py.MPI")
    MPI.COMM_WORLD = COMM_WORLD
    MPI.SUM, MPI.MAX, MPI.MIN = SUM, MAX, MIN
    MPI.Get_processor_name = lambda: "mpisim"
    pkg.MPI = MPI
    pkg.__path__ = []
    pkg.__version__ = "0.0-threadsim"
    import sys
    sys.modules["mpi4py.MPI"] = MPI
    return pkg


class RanksTimeout(RuntimeError):
    """the ranks did not finish within the wall-clock limit (deadlock or non-terminating loop)"""


def _fill_stats(stats, w):
    if stats is None:
        return
    P = w.size
    arr = list(w.arrivals)
    orders = {tuple(arr[i:i + P]) for i in range(0, len(arr) - P + 1, P)}
    stats["n_collectives"] = len(arr) // P
    stats["arrival_orders"] = len(orders)
    stats["last_arrivers"] = sorted({o[-1] for o in orders})
    stats["orders"] = orders


def run_ranks(P, fn, jitter=None, return_exceptions=False, timeout=None, stats=None):
    """Run fn(rank) on P rank threads of a fresh world; returns [fn(0), ..., fn(P-1)].
    stats: optional dict, filled with n_collectives, the number of distinct arrival orders seen at the
    collectives and the set of ranks that were last to arrive at some collective.
    If a rank raises: RankFailure (or, with return_exceptions, the exception object in its place).
    timeout (seconds, whole world): on expiry the barrier is broken -- every rank that reaches its next
    collective then fails -- and RanksTimeout is raised."""
    P = _default_world[0] if P is None else int(P)
    w = _World(P, jitter)
    results, errors = [None] * P, {}

    def body(r):
        _tl.rank, _tl.world = r, w
        _tl.rng = random.Random((jitter or 0) * 7919 + r)
        try:
            results[r] = fn(r)
        except BaseException as ex:      # noqa: B902 -- reported, never swallowed
            errors[r] = ex
            w.barrier.abort()
        finally:
            _tl.world = None
            _tl.rank = 0

    threads = [threading.Thread(target=body, args=(r,), daemon=True) for r in range(P)]
    order = list(range(P))
    if jitter is not None:
        random.Random(jitter).shuffle(order)
    for i in order:
        threads[i].start()
    deadline = time.time() + (timeout if timeout is not None else TIMEOUT * 4)
    for t in threads:
        t.join(max(0.0, deadline - time.time()))
        if t.is_alive():
            w.barrier.abort()
            for t2 in threads:
                t2.join(5.0)
            raise RanksTimeout("mpisim: ranks did not finish within %.0f s (deadlock or non-terminating loop)"
                               % (timeout if timeout is not None else TIMEOUT * 4))
    _fill_stats(stats, w)
    if errors:
        if return_exceptions:
            return [errors.get(r, results[r]) for r in range(P)]
        raise RankFailure(errors)
    return results
