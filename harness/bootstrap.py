"""Make /repo's current enspara sources importable under /venv/bin/python.

* /repo first on sys.path (sources are imported directly, never copied);
* the three Cython extensions are built from /repo's .pyx by build_ext.ensure() and mapped in
  by a meta_path finder;
* mpi4py: there is no libmpi in the sandbox (`from mpi4py import MPI` raises RuntimeError), so
  either a stub that makes enspara take its documented "mpi4py not installed" path (default),
  or the thread-simulated communicator of mpisim.py (world size > 1, property C14).
"""
import importlib.abc, importlib.machinery, importlib.util, os, sys, types, warnings

REPO = os.environ.get("ENSPARA_REPO", "/repo")
HERE = os.path.dirname(os.path.abspath(__file__))
sys.path.insert(0, HERE)
import build_ext  # noqa: E402

_EXT = {"enspara.geometry.libdist": "libdist", "enspara.info_theory.libinfo": "libinfo",
        "enspara.msm.libmsm": "libmsm"}


class _ExtFinder(importlib.abc.MetaPathFinder):
    def __init__(self, d):
        self.d = d

    def find_spec(self, name, path, target=None):
        if name in _EXT:
            for fn in os.listdir(self.d):
                if fn.startswith(_EXT[name] + ".") and fn.endswith(".so"):
                    p = os.path.join(self.d, fn)
                    loader = importlib.machinery.ExtensionFileLoader(name, p)
                    return importlib.util.spec_from_file_location(name, p, loader=loader)
        return None


def install(world_size=1):
    extdir = build_ext.ensure()
    sys.meta_path.insert(0, _ExtFinder(extdir))
    if REPO in sys.path:
        sys.path.remove(REPO)
    sys.path.insert(0, REPO)
    if world_size == 1:
        stub = types.ModuleType("mpi4py")  # no attribute MPI, not a package => ImportError
        sys.modules["mpi4py"] = stub
    else:
        import mpisim
        sys.modules["mpi4py"] = mpisim.make_module(world_size)
    warnings.filterwarnings("ignore")
    import enspara  # noqa: F401
    assert os.path.realpath(enspara.__file__).startswith(os.path.realpath(REPO)), enspara.__file__
    return extdir
