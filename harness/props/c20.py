"""C20: rotamer assignment is a correct hysteresis state machine; transition bookkeeping."""
import os, sys
from fractions import Fraction as F
import numpy as np
from core import cz, cn, cq, clist, copt, VERIF
sys.path.insert(0, os.path.join(VERIF, "translator"))
import tr_rotamer
import tr_disorder

PID = "C20"
PROPS_FILE = "Props/C20.v"
MODEL_TARGETS = ["Model/Rotamer.vo", "Gen/RotamerGen.vo", "Base/DisorderBase.vo", "Gen/DisorderGen.vo"]
GEN_FILES = ["Gen/RotamerGen.v", "Gen/DisorderGen.v"]
CASE_HEADER = ("From Coq Require Import List ZArith QArith.\nFrom EV Require Import RotamerBase RotamerGen Rotamer DisorderBase DisorderGen.\n"
               "Import ListNotations.\n")
RULE = ("rotamer: angle sequences (length 1..14, multiples of 1/4 degree) built to approach every gate and the 0/360 seam "
        "from both sides, boundary sets phi/psi/chi plus random increasing sets, buffers 0..max incl. the wide 2-basin "
        "range and invalid widths; run on the real _rotamers and on the translated model; oracle = independent "
        "hysteresis automaton on exact fractions (off-gate angles only). transitions: random 1-D/2-D state arrays incl. "
        "rows without transitions, ragged rows; the implementation's output is compared with the hand model AND with the "
        "definitions translated from disorder.py (gen_transitions incl. its branch test). non-trivial := at least one state change and one retained state in a run of >= 3 frames")
TRUSTED = ["translator/tr_rotamer.py + translator/py2coq.py (get_gates, is_buffered_transition whole; _rotamers loop skeleton Base/RotamerBase.v with translated tests)",
           "modelled not verified: np.digitize, int16 result array",
           "translator/tr_disorder.py (disorder.transitions, both branches and the branch test) over the vocabulary Base/DisorderBase.v + Base/PySlice.v "
           "(slices, element-wise -, comparison mask, np.where/ra.where, np.bincount minlength, RaggedArray(flat, lengths)); "
           "broadcasting of a length-1 operand in `-` is not modelled (treated as an error)"]
ASSUMPTIONS = ["angles in [0,360); theorems exclude the finitely many gate values; boundary sets are the three used by the library"]
SHARD = 250

LIB = {"phi": [0, 180, 360], "psi": [0, 160, 360], "chi": [0, 120, 240, 360]}


def translate(repo):
    files = dict(tr_rotamer.translate(repo))
    files.update(tr_disorder.translate(repo))
    return files


def _angles(rng, hb, b, n):
    gates = set()
    for i in range(len(hb) - 1):
        for g in (hb[i] - b, hb[i + 1] + b, hb[i], hb[i + 1]):
            gates.add(g % 360)
    gates = sorted(gates)
    out = []
    for _ in range(n):
        r = rng.random()
        if r < 0.55 and gates:
            g = rng.choice(gates)
            a = g + rng.choice([-3, -1, -F(1, 4), F(1, 4), 1, 3, 0 if rng.random() < 0.15 else F(1, 2)])
        elif r < 0.7:
            a = rng.choice([0, F(1, 4), 359, F(1439, 4), 1, 358])
        else:
            a = F(rng.randrange(0, 1440), 4)
        out.append(a % 360)
    return out


def generate(rng, tier):
    n = 500 if tier == "quick" else 6000
    cases = []
    for _ in range(n):
        r = rng.random()
        if r < 0.8:
            name = rng.choice(list(LIB))
            hb = LIB[name]
        else:
            k = rng.choice([1, 2, 3, 4])
            inner = sorted(rng.sample(range(20, 340, 10), k - 1))
            hb = [0] + inner + [360]
        nb = len(hb) - 1
        bmax = F(360, nb)
        q = rng.random()
        if q < 0.1:
            b = 0
        elif q < 0.2:
            b = rng.choice([-1, bmax, bmax + 5])          # invalid widths
        elif q < 0.55:
            b = rng.choice([5, 15, 30, F(45, 2), 60])
        else:
            b = F(rng.randrange(0, int(bmax * 2)), 2)      # anything up to the accepted maximum
        L = rng.choice([1, 2, 3, 5, 8, 14])
        cases.append({"kind": "rot", "hb": hb, "b": str(F(b)), "angles": [str(a) for a in _angles(rng, hb, F(b), L)]})
    for _ in range(n // 3):
        if rng.random() < 0.4:
            row = [rng.randrange(3) if rng.random() < 0.5 else 1 for _ in range(rng.choice([1, 2, 3, 6, 9]))]
            cases.append({"kind": "trans1", "rows": [row]})
        else:
            L = rng.choice([2, 3, 5, 7])
            rows = [[rng.randrange(2) if rng.random() < 0.4 else 0 for _ in range(L)] for _ in range(rng.choice([1, 2, 3, 4]))]
            if rng.random() < 0.3:
                rows[rng.randrange(len(rows))] = [0] * L
            cases.append({"kind": "trans2", "rows": rows})
        if rng.random() < 0.5:
            # ragged input: trajectories of different lengths (RaggedArray), transitions right at the start of a row
            rows = [[rng.randrange(3) if rng.random() < 0.5 else 1 for _ in range(rng.choice([2, 2, 3, 4, 6]))]
                    for _ in range(rng.choice([2, 3, 4]))]
            if len({len(r) for r in rows}) == 1:
                rows[0] = rows[0] + [rng.randrange(3)]
            cases.append({"kind": "transra", "rows": rows})
    # round 3: degenerate shapes of the transition bookkeeping -- rows of length 0 and 1 (ragged and
    # rectangular), 1-D input of length 0, input in which no row has a transition
    for _ in range(n // 8):
        q = rng.random()
        if q < 0.15:
            cases.append({"kind": "trans1", "rows": [[rng.randrange(3)] * rng.choice([0, 0, 1, 2, 4])]})
        elif q < 0.4:
            L = rng.choice([0, 1, 1, 2])
            cases.append({"kind": "trans2", "rows": [[rng.randrange(2) for _ in range(L)] for _ in range(rng.choice([1, 2, 3]))]})
        elif q < 0.55:
            L = rng.choice([2, 3, 4])
            cases.append({"kind": "trans2", "rows": [[rng.randrange(3)] * L for _ in range(rng.choice([1, 2, 3]))]})
        else:
            rows = [[rng.randrange(3) if rng.random() < 0.6 else 1 for _ in range(rng.choice([0, 1, 1, 2, 3, 5]))]
                    for _ in range(rng.choice([1, 2, 3, 4]))]
            if rng.random() < 0.3:
                rows = [[r[0]] * len(r) if r else r for r in rows]
            cases.append({"kind": "transra", "rows": rows})
    return cases


def run_impl(c):
    if c["kind"] == "rot":
        from enspara.geometry.rotamer import _rotamers
        ang = np.array([float(F(a)) for a in c["angles"]])
        b = F(c["b"])
        b = int(b) if b.denominator == 1 else float(b)
        try:
            return {"states": [int(x) for x in _rotamers(ang, list(c["hb"]), buffer_width=b)]}
        except Exception as ex:
            return {"err": type(ex).__name__}
    from enspara.cards.disorder import transitions
    try:
        if c["kind"] == "trans1":
            return {"tt": [[int(x) for x in transitions(np.array(c["rows"][0]))]]}
        if c["kind"] == "transra":
            from enspara.ra.ra import RaggedArray
            t = transitions(RaggedArray([np.array(r) for r in c["rows"]]))
        else:
            rows = c["rows"]
            t = transitions(np.array(rows, dtype=int).reshape(len(rows), len(rows[0])))
        return {"tt": [[int(x) for x in row] for row in t]}
    except Exception as ex:
        return {"err": type(ex).__name__}


def _spec(hb, b, angles):
    hb = [F(x) for x in hb]

    def basin(a):
        return sum(1 for x in hb if x <= a) - 1

    def inw(s, a):
        lo, hi = hb[s] - b, hb[s + 1] + b
        return any(lo <= a + k <= hi for k in (-360, 0, 360))

    def ongate(s, a):
        lo, hi = hb[s] - b, hb[s + 1] + b
        return any(a + k in (lo, hi) for k in (-360, 0, 360))
    s = basin(angles[0])
    out = [s]
    for a in angles[1:]:
        if ongate(s, a):
            return None  # outside the property's quantifier
        if not inw(s, a):
            s = basin(a)
        out.append(s)
    return out


def oracle(c, r):
    out = []
    if c["kind"] == "rot":
        hb, b = c["hb"], F(c["b"])
        nb = len(hb) - 1
        ang = [F(a) for a in c["angles"]]
        valid = 0 <= b < F(360, nb)
        if not valid:
            if "err" not in r:
                out.append(("invalid-buffer-accepted", "buffer %s accepted for %d basins" % (b, nb)))
            return out
        if list(hb) not in LIB.values():
            return out   # the property quantifies over the library's boundary sets only; others: correspondence only
        exp = _spec(hb, b, ang)
        if exp is None:
            return out
        if r.get("states") != exp:
            out.append(("hysteresis", "hb=%s b=%s angles=%s: got %s expected %s" % (hb, b, c["angles"], r, exp)))
        elif any(not (0 <= s < nb) for s in r["states"]):
            out.append(("state-range", str(r)))
        return out
    rows = c["rows"]
    exp = [[n for n in range(len(row) - 1) if row[n] != row[n + 1]] for row in rows]
    if r.get("tt") != exp:
        out.append(("transitions", "rows=%s: got %s expected %s" % (rows, r, exp)))
    return out


def coq_check(c, r):
    if c["kind"] == "rot":
        exp = copt(r.get("states"), lambda l: clist(l, cz, "Z"), "(list Z)")
        return "CaseLib.opt_eqb CaseLib.zl_eqb (%s) %s" % (coq_show(c), exp)
    if "tt" not in r:
        return None   # error path: oracle decides (known finding or violation)
    exp = clist(r["tt"], lambda l: clist(l, cn, "nat"), "(list nat)")
    hand = "CaseLib.list_eqb CaseLib.nl_eqb (%s) %s" % (coq_show(c), exp)
    # the definitions translated from disorder.py, entered through the translated branch test
    if c["kind"] == "trans1":
        gen = "match gen_transitions (Arr1 %s) with TT1 l => CaseLib.nl_eqb l %s | _ => false end" % (
            clist(c["rows"][0], cz, "Z"), clist(r["tt"][0], cn, "nat"))
    else:
        gen = "match gen_transitions (Arr2 %s) with TT2 l => CaseLib.list_eqb CaseLib.nl_eqb l %s | _ => false end" % (
            clist(c["rows"], lambda l: clist(l, cz, "Z"), "(list Z)"), exp)
    return "andb (%s) (%s)" % (hand, gen)


def coq_show(c):
    if c["kind"] == "rot":
        return "gen_rotamers %s %s %s" % (clist([F(a) for a in c["angles"]], cq, "Q"),
                                          clist(c["hb"], cq, "Q"), cq(F(c["b"])))
    return "transitions2 %s" % clist(c["rows"], lambda l: clist(l, cz, "Z"), "(list Z)")


def nontrivial(c, r):
    if c["kind"] == "rot":
        s = r.get("states")
        return bool(s) and len(s) >= 3 and len(set(s)) >= 2 and any(x == y for x, y in zip(s, s[1:]))
    return any(len(set(row)) > 1 for row in c["rows"])


def tags(c, r):
    if c["kind"] != "rot":
        t = [c["kind"]]
        if any(len(row) <= 1 for row in c["rows"]):
            t.append("trans-short-row")
        if c["kind"] != "trans1" and all(len(set(row)) <= 1 for row in c["rows"]):
            t.append("trans-no-transition-anywhere")
        if c["kind"] != "trans1" and len(c["rows"]) > 1 and len(set(c["rows"][-1])) <= 1 and any(len(set(row)) > 1 for row in c["rows"]):
            t.append("trans-trailing-quiet-row")
        return t
    t = ["rot-" + str(len(c["hb"]) - 1) + "basin"]
    b = F(c["b"])
    if "err" in r:
        t.append("rot-rejected")
    if len(c["hb"]) == 3 and 0 <= b < 180 and 2 * b + min(c["hb"][1], 360 - c["hb"][1]) >= 360 - 2 * b + 0:
        pass
    if len(c["hb"]) == 3 and 90 < b < 180:
        t.append("rot-wide-2basin-buffer")
    if b == 0:
        t.append("rot-zero-buffer")
    return t


ESSENTIAL_TAGS = ["transra", "rot-2basin", "rot-3basin", "rot-wide-2basin-buffer", "rot-zero-buffer", "rot-rejected", "trans1", "trans2",
                  "trans-short-row", "trans-no-transition-anywhere", "trans-trailing-quiet-row"]
