"""C20: rotamer assignment is a correct hysteresis state machine; transition bookkeeping."""
import os, sys
from fractions import Fraction as F
import numpy as np
from core import cz, cn, cq, clist, copt, VERIF
sys.path.insert(0, os.path.join(VERIF, "translator"))
import tr_rotamer
import tr_disorder

PID = "C20"
PROPS_FILE = "Props/C20.v"
MODEL_TARGETS = ["Model/Rotamer.vo", "Gen/RotamerGen.vo", "Base/DisorderBase.vo", "Gen/DisorderGen.vo"]
GEN_FILES = ["Gen/RotamerGen.v", "Gen/DisorderGen.v"]
CASE_HEADER = ("From Coq Require Import List ZArith QArith.\nFrom EV Require Import RotamerBase RotamerGen Rotamer DisorderBase DisorderGen.\n"
               "Import ListNotations.\n")
RULE = ("rotamer: angle sequences (length 1..14, multiples of 1/4 degree) built to approach every gate and the 0/360 seam "
        "from both sides, boundary sets phi/psi/chi plus random increasing sets, buffers 0..max incl. the wide 2-basin "
        "range and invalid widths; run on the real _rotamers and on the translated model; oracle = independent "
        "hysteresis automaton on exact fractions (off-gate angles only). transitions: random 1-D/2-D state arrays incl. "
        "rows without transitions, ragged rows; the implementation's output is compared with the hand model AND with the "
        "definitions translated from disorder.py (gen_transitions incl. its branch test). round 3s: every call is made twice on the "
        "same argument objects and every argument is compared with a snapshot taken before the first call (angles, boundary list, "
        "state arrays incl. int16, column views of a 2-D array as transition_stats passes them, transposed / read-only 2-D arrays, "
        "RaggedArray element store; transition_stats on lists of trajectories); `narrow` = series of 2..60 frames confined to a window "
        "narrower than twice the buffer placed around each barrier (incl. the 0/360 one), first frame inside the buffer zone on "
        "either side, monotone / oscillating / there-and-back; `rotw` = one series run with several buffer widths one after the "
        "other in one process; `pub` = phi/psi/chi/all_rotamers on synthetic peptide trajectories (random-walk coordinates), "
        "compared per dihedral with the automaton on the angles dihedral_angles returns. non-trivial := at least one state change and one retained state in a run of >= 3 frames")
TRUSTED = ["translator/tr_rotamer.py + translator/py2coq.py (get_gates, is_buffered_transition whole; _rotamers loop skeleton Base/RotamerBase.v with translated tests)",
           "modelled not verified: np.digitize, int16 result array",
           "translator/tr_disorder.py (disorder.transitions, both branches and the branch test) over the vocabulary Base/DisorderBase.v + Base/PySlice.v "
           "(slices, element-wise -, comparison mask, np.where/ra.where, np.bincount minlength, RaggedArray(flat, lengths)); "
           "broadcasting of a length-1 operand in `-` is not modelled (treated as an error)",
           "pub stream (public phi/psi/chi/all_rotamers): oracle only, not evaluated in Coq; 'the angle' is what "
           "rotamer.dihedral_angles returns on the synthetic trajectory (mdtraj's dihedral computation taken as given), psi shifted "
           "by 100 degrees in float32 exactly as psi_rotamers does; transition_stats: only the transition frames it returns are "
           "judged, not the waiting-time statistics"]
ASSUMPTIONS = ["angles in [0,360); theorems exclude the finitely many gate values; boundary sets are the three used by the library"]
SHARD = 250

LIB = {"phi": [0, 180, 360], "psi": [0, 160, 360], "chi": [0, 120, 240, 360]}


def translate(repo):
    files = dict(tr_rotamer.translate(repo))
    files.update(tr_disorder.translate(repo))
    return files


def _angles(rng, hb, b, n):
    gates = set()
    for i in range(len(hb) - 1):
        for g in (hb[i] - b, hb[i + 1] + b, hb[i], hb[i + 1]):
            gates.add(g % 360)
    gates = sorted(gates)
    out = []
    for _ in range(n):
        r = rng.random()
        if r < 0.55 and gates:
            g = rng.choice(gates)
            a = g + rng.choice([-3, -1, -F(1, 4), F(1, 4), 1, 3, 0 if rng.random() < 0.15 else F(1, 2)])
        elif r < 0.7:
            a = rng.choice([0, F(1, 4), 359, F(1439, 4), 1, 358])
        else:
            a = F(rng.randrange(0, 1440), 4)
        out.append(a % 360)
    return out


def generate(rng, tier):
    n = 500 if tier == "quick" else 6000
    cases = []
    for _ in range(n):
        r = rng.random()
        if r < 0.8:
            name = rng.choice(list(LIB))
            hb = LIB[name]
        else:
            k = rng.choice([1, 2, 3, 4])
            inner = sorted(rng.sample(range(20, 340, 10), k - 1))
            hb = [0] + inner + [360]
        nb = len(hb) - 1
        bmax = F(360, nb)
        q = rng.random()
        if q < 0.1:
            b = 0
        elif q < 0.2:
            b = rng.choice([-1, bmax, bmax + 5])          # invalid widths
        elif q < 0.55:
            b = rng.choice([5, 15, 30, F(45, 2), 60])
        else:
            b = F(rng.randrange(0, int(bmax * 2)), 2)      # anything up to the accepted maximum
        L = rng.choice([1, 2, 3, 5, 8, 14])
        cases.append({"kind": "rot", "hb": hb, "b": str(F(b)), "angles": [str(a) for a in _angles(rng, hb, F(b), L)]})
    for _ in range(n // 3):
        if rng.random() < 0.4:
            row = [rng.randrange(3) if rng.random() < 0.5 else 1 for _ in range(rng.choice([1, 2, 3, 6, 9]))]
            cases.append({"kind": "trans1", "rows": [row]})
        else:
            L = rng.choice([2, 3, 5, 7])
            rows = [[rng.randrange(2) if rng.random() < 0.4 else 0 for _ in range(L)] for _ in range(rng.choice([1, 2, 3, 4]))]
            if rng.random() < 0.3:
                rows[rng.randrange(len(rows))] = [0] * L
            cases.append({"kind": "trans2", "rows": rows})
        if rng.random() < 0.5:
            # ragged input: trajectories of different lengths (RaggedArray), transitions right at the start of a row
            rows = [[rng.randrange(3) if rng.random() < 0.5 else 1 for _ in range(rng.choice([2, 2, 3, 4, 6]))]
                    for _ in range(rng.choice([2, 3, 4]))]
            if len({len(r) for r in rows}) == 1:
                rows[0] = rows[0] + [rng.randrange(3)]
            cases.append({"kind": "transra", "rows": rows})
    # round 3: degenerate shapes of the transition bookkeeping -- rows of length 0 and 1 (ragged and
    # rectangular), 1-D input of length 0, input in which no row has a transition
    for _ in range(n // 8):
        q = rng.random()
        if q < 0.15:
            cases.append({"kind": "trans1", "rows": [[rng.randrange(3)] * rng.choice([0, 0, 1, 2, 4])]})
        elif q < 0.4:
            L = rng.choice([0, 1, 1, 2])
            cases.append({"kind": "trans2", "rows": [[rng.randrange(2) for _ in range(L)] for _ in range(rng.choice([1, 2, 3]))]})
        elif q < 0.55:
            L = rng.choice([2, 3, 4])
            cases.append({"kind": "trans2", "rows": [[rng.randrange(3)] * L for _ in range(rng.choice([1, 2, 3]))]})
        else:
            rows = [[rng.randrange(3) if rng.random() < 0.6 else 1 for _ in range(rng.choice([0, 1, 1, 2, 3, 5]))]
                    for _ in range(rng.choice([1, 2, 3, 4]))]
            if rng.random() < 0.3:
                rows = [[r[0]] * len(r) if r else r for r in rows]
            cases.append({"kind": "transra", "rows": rows})
    cases += _gen_round3s(rng, tier)
    return cases


# ============================================================================ round 3s streams
ROT_FORMS = ["plain", "plain", "col", "f32col", "f32"]
T1_FORMS = ["plain", "int16", "col", "col16", "rev", "readonly"]
T2_FORMS = ["plain", "int16", "T", "readonly"]
WIDTHS = [0, 5, 15, 30, F(45, 2), 40, 60, 100]


def _off_gates(hb, bs, a):
    """move an angle that sits exactly on a gate of any of the widths bs by a quarter degree"""
    gates = set()
    for b in bs:
        for i in range(len(hb) - 1):
            gates.add((hb[i] - b) % 360)
            gates.add((hb[i + 1] + b) % 360)
    a = a % 360
    while a in gates:
        a = (a + F(1, 4)) % 360
    return a


def _narrow(rng, hb, b, L):
    """series confined to a window of width < 2b around one barrier; x = signed distance from the barrier, negative on the
    home side of the first frame"""
    barrier = rng.choice(hb[:-1])                       # 0 stands for the 0/360 seam
    side = rng.choice([-1, 1])                          # -1: home side is below the barrier
    q4 = lambda lo, hi: F(rng.randrange(int(lo * 4), max(int(lo * 4) + 1, int(hi * 4))), 4)
    d0 = q4(F(1, 4), b) if rng.random() < 0.85 else q4(b, 2 * b)     # mostly inside the buffer zone
    wmax = 2 * b - F(1, 2)
    if d0 + b + F(1, 4) < wmax and rng.random() < 0.8:
        fwd = q4(d0 + b + F(1, 4), wmax)                # reaches past the far gate
    else:
        fwd = q4(F(1, 4), max(F(1, 2), wmax))
    fwd = min(fwd, wmax)
    back = q4(0, wmax - fwd + F(1, 4)) if wmax - fwd > 0 else F(0)
    back = min(back, wmax - fwd)
    x0 = -d0
    lo, hi = x0 - back, x0 + fwd
    pick = lambda: q4(lo, hi + F(1, 4))
    shape = rng.choice(["mono", "mono", "osc", "thereback", "random"])
    if shape == "mono":
        xs = [x0] + sorted(pick() for _ in range(L - 1))
        xs = [max(x, x0) for x in xs]
    elif shape == "osc":
        xs = [x0] + [(hi if k % 2 == 0 else lo) + rng.choice([0, F(-1, 4), F(1, 4), F(1, 2)]) * (-1 if k % 2 == 0 else 1)
                     for k in range(L - 1)]
    elif shape == "thereback":
        up = sorted(max(pick(), x0) for _ in range((L - 1) // 2 + 1))
        xs = [x0] + up + sorted((pick() for _ in range(L - 2 - (L - 1) // 2)), reverse=True)
    else:
        xs = [x0] + [pick() for _ in range(L - 1)]
    xs = [min(max(x, lo), hi) for x in xs[:L]]
    return [_off_gates(hb, [b], (barrier + (x if side < 0 else -x)) % 360) for x in xs]


def _pick_hb(rng):
    if rng.random() < 0.85:
        return LIB[rng.choice(list(LIB))]
    k = rng.choice([2, 3, 4])
    return [0] + sorted(rng.sample(range(30, 331, 10), k - 1)) + [360]


def _state_rows(rng, nrows, L):
    return [[rng.randrange(3) if rng.random() < 0.5 else 1 for _ in range(L)] for _ in range(nrows)]


def _gen_round3s(rng, tier):
    n = 500 if tier == "quick" else 6000
    cases = []
    # --- narrow series around every barrier
    for _ in range(n // 2):
        hb = _pick_hb(rng)
        nb = len(hb) - 1
        bmax = F(360, nb)
        b = rng.choice([b for b in [2, 5, 15, F(45, 2), 30, 40, 60, 100] if b < bmax])
        L = rng.choice([2, 3, 4, 5, 6, 8, 20, 40, 60])
        cases.append({"kind": "rot", "stream": "narrow", "hb": hb, "b": str(F(b)), "form": rng.choice(ROT_FORMS),
                      "angles": [str(a) for a in _narrow(rng, hb, F(b), L)]})
    # --- several buffer widths, one boundary set, one process
    for _ in range(n // 5):
        hb = _pick_hb(rng)
        bmax = F(360, len(hb) - 1)
        ok = [b for b in WIDTHS if b < bmax]
        bs = [rng.choice(ok) for _ in range(rng.choice([2, 3, 4]))]
        if len(set(bs)) == 1:
            bs[-1] = rng.choice([b for b in ok if b != bs[0]])
        if rng.random() < 0.6:
            bs.append(bs[0])                            # back to the first width
        L = rng.choice([3, 5, 8, 14])
        ang = []
        for _k in range(L):
            ang += _angles(rng, hb, F(rng.choice(bs)), 1)
        ang = [_off_gates(hb, bs, a) for a in ang]
        cases.append({"kind": "rotw", "hb": hb, "bs": [str(F(b)) for b in bs], "form": rng.choice(ROT_FORMS),
                      "angles": [str(a) for a in ang]})
    # --- array forms of the state sequences given to transitions
    for _ in range(n // 3):
        q = rng.random()
        if q < 0.45:
            cases.append({"kind": "trans1", "rows": _state_rows(rng, 1, rng.choice([2, 3, 6, 9, 15])), "form": rng.choice(T1_FORMS),
                          "pad": rng.choice([1, 2, 3])})
        elif q < 0.75:
            L = rng.choice([2, 3, 5, 7])
            cases.append({"kind": "trans2", "rows": _state_rows(rng, rng.choice([1, 2, 3, 4]), L), "form": rng.choice(T2_FORMS)})
        else:
            nfeat, ntrj = rng.choice([1, 2, 3]), rng.choice([1, 2, 3])
            trajs = [[list(r) for r in zip(*_state_rows(rng, nfeat, rng.choice([3, 4, 6, 9])))] for _ in range(ntrj)]
            cases.append({"kind": "transstats", "trajs": trajs, "dtype": rng.choice(["int16", "int16", "int64"]),
                          "rows": [[fr[j] for fr in t] for t in trajs for j in range(nfeat)]})
    # --- public functions on synthetic peptide trajectories
    fns = ["phi_rotamers", "psi_rotamers", "chi_rotamers", "all_rotamers"]
    for k in range(8 if tier == "quick" else 40):
        cases.append({"kind": "pub", "fn": fns[k % 4],
                      "seq": ["LYS"] + [rng.choice(["ALA", "LYS", "ARG", "GLY", "LYS"]) for _ in range(rng.choice([2, 3, 4]))],
                      "nframes": rng.choice([2, 5, 12, 25]), "seed": rng.randrange(10 ** 6), "step": rng.choice([0.01, 0.03, 0.3]),
                      "b": rng.choice([0, 5, 15, 15, 30, 60])})
    return cases


def _snap(a):
    a = np.asarray(a)
    return (str(a.dtype), a.shape, np.ascontiguousarray(a).tobytes())


def _rot_array(c):
    vals = [float(F(a)) for a in c["angles"]]
    form = c.get("form", "plain")
    dt = "float32" if form.startswith("f32") else "float64"
    if form.endswith("col"):
        base = np.zeros((len(vals), 3), dtype=dt)
        base[:, 0] = [(7 * k) % 360 for k in range(len(vals))]
        base[:, 2] = 359.5
        base[:, 1] = vals
        return base, base[:, 1]
    arr = np.array(vals, dtype=dt)
    return arr, arr


def _rot_call(ang, hb, b):
    from enspara.geometry.rotamer import _rotamers
    b = int(b) if b.denominator == 1 else float(b)
    try:
        return [int(x) for x in _rotamers(ang, hb, buffer_width=b)]
    except Exception as ex:
        return {"err": type(ex).__name__}


def _run_rot(c):
    base, ang = _rot_array(c)
    hb = list(c["hb"])
    s_base, s_hb = _snap(base), list(hb)
    bs = [F(b) for b in (c["bs"] if c["kind"] == "rotw" else [c["b"], c["b"]])]
    runs = [_rot_call(ang, hb, b) for b in bs]
    changed = []
    if _snap(base) != s_base:
        changed.append("angles array now %s" % np.asarray(ang).tolist())
    if hb != s_hb or any(type(x) is not type(y) for x, y in zip(hb, s_hb)):
        changed.append("boundary list now %s" % hb)
    r = {"runs": runs, "arg_changed": changed}
    if c["kind"] == "rot":
        r.update(runs[0] if isinstance(runs[0], dict) else {"states": runs[0]})
    return r


def _trans_array(c):
    """(object whose bytes must not change, array handed to transitions)"""
    rows, form = c["rows"], c.get("form", "plain")
    if c["kind"] == "trans1":
        v = rows[0]
        if form in ("col", "col16"):
            base = np.full((len(v), c.get("pad", 1) + 1), 1, dtype="int16" if form == "col16" else "int64")
            j = c.get("pad", 1) // 2
            base[:, j] = v
            return base, base[:, j]
        if form == "rev":
            base = np.array(v[::-1])
            return base, base[::-1]
        base = np.array(v, dtype="int16" if form == "int16" else None) if v else np.array(v, dtype=int)
        if form == "readonly":
            base.setflags(write=False)
        return base, base
    if form == "T":
        base = np.array([list(x) for x in zip(*rows)], dtype=int).reshape(len(rows[0]), len(rows))
        return base, base.T
    base = np.array(rows, dtype="int16" if form == "int16" else int).reshape(len(rows), len(rows[0]))
    if form == "readonly":
        base.setflags(write=False)
    return base, base


def _tt(t, one_d):
    return [[int(x) for x in t]] if one_d else [[int(x) for x in row] for row in t]


def _run_trans(c):
    from enspara.cards.disorder import transitions, transition_stats
    out = {"arg_changed": []}
    if c["kind"] == "transstats":
        X = [np.array(t, dtype=c["dtype"]).reshape(len(t), len(t[0])) for t in c["trajs"]]
        snaps = [_snap(x) for x in X]
        for k in ("tt", "tt2"):
            try:
                tts = transition_stats(X)[0]
                out[k] = [[int(v) for v in col] for trj in tts for col in trj]
            except (ZeroDivisionError, FloatingPointError) as ex:      # the waiting-time statistics, not the bookkeeping
                out[k + "_skipped"] = type(ex).__name__
            except Exception as ex:
                out[k] = {"err": type(ex).__name__}
        for i, x in enumerate(X):
            if _snap(x) != snaps[i]:
                out["arg_changed"].append("trajectory %d now %s" % (i, x.tolist()))
        if "tt" not in out or isinstance(out["tt"], dict):
            out["err"] = out.pop("tt", {}).get("err", out.get("tt_skipped"))
        return out
    if c["kind"] == "transra":
        from enspara.ra.ra import RaggedArray
        arg = RaggedArray([np.array(r) for r in c["rows"]])
        look = lambda: (_snap(arg._data), _snap(arg.lengths))
        show = lambda: [np.asarray(r).tolist() for r in arg]
    else:
        base, arg = _trans_array(c)
        look = lambda: _snap(base)
        show = lambda: np.asarray(arg).tolist()
    before = look()
    one_d = c["kind"] == "trans1"
    for k in ("tt", "tt2"):
        try:
            out[k] = _tt(transitions(arg), one_d)
        except Exception as ex:
            out[k] = {"err": type(ex).__name__}
    if look() != before:
        out["arg_changed"].append("state array now %s" % show())
    if isinstance(out["tt"], dict):
        out["err"] = out.pop("tt")["err"]
    return out


PUB_SIDE = {"ALA": ["CB"], "GLY": [], "LYS": ["CB", "CG", "CD", "CE", "NZ"], "ARG": ["CB", "CG", "CD", "NE", "CZ"]}
PUB_HB = {"phi": LIB["phi"], "psi": LIB["psi"], "chi1": LIB["chi"], "chi2": LIB["chi"], "chi3": LIB["chi"], "chi4": LIB["chi"]}
PUB_TYPES = {"phi_rotamers": ["phi"], "psi_rotamers": ["psi"], "chi_rotamers": ["chi1", "chi2", "chi3", "chi4"],
             "all_rotamers": ["phi", "psi", "chi1", "chi2", "chi3", "chi4"]}


def _pub_traj(c):
    import mdtraj as md
    top = md.Topology()
    ch = top.add_chain()
    for name in c["seq"]:
        res = top.add_residue(name, ch)
        for an in ["N", "CA", "C", "O"] + PUB_SIDE[name]:
            top.add_atom(an, md.element.carbon if an[0] == "C" else md.element.nitrogen if an[0] == "N" else md.element.oxygen, res)
    rs = np.random.RandomState(c["seed"])
    xyz = np.empty((c["nframes"], top.n_atoms, 3), dtype="float32")
    xyz[0] = rs.rand(top.n_atoms, 3)
    for t in range(1, c["nframes"]):
        xyz[t] = xyz[t - 1] + c["step"] * rs.randn(top.n_atoms, 3)
    return md.Trajectory(xyz, top)


def _run_pub(c):
    from enspara.geometry import rotamer
    traj = _pub_traj(c)
    before = _snap(traj.xyz)
    out = {"arg_changed": [], "cols": []}
    try:
        # the angles the state machine is given: dihedral_angles' result, psi shifted by 100 degrees exactly as published
        for ty in PUB_TYPES[c["fn"]]:
            ang = rotamer.dihedral_angles(traj, ty)[0]
            if ty == "psi":
                ang = ang - 100
                ang[np.where(ang < 0)] += 360
            for j in range(ang.shape[1]):
                out["cols"].append({"type": ty, "angles": [str(F(float(x))) for x in ang[:, j]]})
        res = [getattr(rotamer, c["fn"])(traj, buffer_width=c["b"]) for _ in range(2)]
        out["states"] = [[int(x) for x in res[0][0][:, j]] for j in range(res[0][0].shape[1])]
        out["states2"] = [[int(x) for x in res[1][0][:, j]] for j in range(res[1][0].shape[1])]
        out["n_states"] = [int(x) for x in res[0][2]]
        out["dtype"] = str(res[0][0].dtype)
    except Exception as ex:
        out["err"] = type(ex).__name__
    if _snap(traj.xyz) != before:
        out["arg_changed"].append("trajectory coordinates changed")
    return out


def run_impl(c):
    if c["kind"] in ("rot", "rotw"):
        return _run_rot(c)
    if c["kind"] == "pub":
        return _run_pub(c)
    return _run_trans(c)


def _spec(hb, b, angles):
    hb = [F(x) for x in hb]

    def basin(a):
        return sum(1 for x in hb if x <= a) - 1

    def inw(s, a):
        lo, hi = hb[s] - b, hb[s + 1] + b
        return any(lo <= a + k <= hi for k in (-360, 0, 360))

    def ongate(s, a):
        lo, hi = hb[s] - b, hb[s + 1] + b
        return any(a + k in (lo, hi) for k in (-360, 0, 360))
    s = basin(angles[0])
    out = [s]
    for a in angles[1:]:
        if ongate(s, a):
            return None  # outside the property's quantifier
        if not inw(s, a):
            s = basin(a)
        out.append(s)
    return out


def _oracle_rot_one(c, b, got, out, label=""):
    hb = c["hb"]
    nb = len(hb) - 1
    ang = [F(a) for a in c["angles"]]
    valid = 0 <= b < F(360, nb)
    if not valid:
        if not isinstance(got, dict):
            out.append(("invalid-buffer-accepted", "buffer %s accepted for %d basins" % (b, nb)))
        return
    if list(hb) not in LIB.values():
        return   # the property quantifies over the library's boundary sets only; others: correspondence only
    exp = _spec(hb, b, ang)
    if exp is None:
        return
    if got != exp:
        out.append(("hysteresis", "hb=%s b=%s angles=%s%s: got %s expected %s" % (hb, b, c["angles"], label, got, exp)))
    elif any(not (0 <= s < nb) for s in got):
        out.append(("state-range", str(got)))


def _oracle_pub(c, r):
    out = []
    head = "%s(buffer_width=%s) on a %d-frame trajectory of %s (coordinate seed %d, step %s): " % (
        c["fn"], c["b"], c["nframes"], "-".join(c["seq"]), c["seed"], c["step"])
    if r["arg_changed"]:
        out.append(("rotamers-argument-modified", head + "; ".join(r["arg_changed"])))
    if "err" in r:
        out.append(("public-rotamers-raise", head + r["err"]))
        return out
    if len(r["states"]) != len(r["cols"]):
        out.append(("hysteresis", head + "%d dihedral columns returned, %d dihedrals" % (len(r["states"]), len(r["cols"]))))
        return out
    if r["states2"] != r["states"]:
        out.append(("rotamers-second-call", head + "second call on the same trajectory gives other states"))
    for j, col in enumerate(r["cols"]):
        hb = PUB_HB[col["type"]]
        exp = _spec(hb, F(c["b"]), [F(a) for a in col["angles"]])
        if exp is not None and r["states"][j] != exp:
            out.append(("hysteresis", head + "dihedral %d (%s) angles %s: got %s expected %s" % (
                j, col["type"], [float(F(a)) for a in col["angles"]], r["states"][j], exp)))
            break
        if r["n_states"][j] != len(hb) - 1:
            out.append(("state-range", head + "dihedral %d (%s): n_states %d" % (j, col["type"], r["n_states"][j])))
            break
    return out


def oracle(c, r):
    out = []
    if c["kind"] == "pub":
        return _oracle_pub(c, r)
    if c["kind"] in ("rot", "rotw"):
        bs = [F(b) for b in c["bs"]] if c["kind"] == "rotw" else [F(c["b"])]
        form = " (angles as %s)" % c["form"] if c.get("form", "plain") != "plain" else ""
        for k, b in enumerate(bs):
            _oracle_rot_one(c, b, r["runs"][k], out,
                            form + (" [call %d of widths %s in one process]" % (k + 1, c["bs"]) if c["kind"] == "rotw" else ""))
        if c["kind"] == "rot" and r["runs"][1] != r["runs"][0]:
            out.append(("rotamers-second-call", "hb=%s b=%s angles=%s%s: first call %s, second call on the same array %s"
                        % (c["hb"], c["b"], c["angles"], form, r["runs"][0], r["runs"][1])))
        if r["arg_changed"]:
            out.append(("rotamers-argument-modified", "hb=%s b=%s angles=%s%s: %s"
                        % (c["hb"], c.get("b", c.get("bs")), c["angles"], form, "; ".join(r["arg_changed"]))))
        return out
    rows = c["rows"]
    what = "rows=%s%s" % (rows, " (given as %s)" % (c.get("form") or c["kind"]) if c.get("form", "plain") != "plain" or c["kind"] == "transstats" else "")
    exp = [[n for n in range(len(row) - 1) if row[n] != row[n + 1]] for row in rows]
    if "tt_skipped" in r:
        exp = None
    if exp is not None and r.get("tt") != exp:
        out.append(("transitions", "%s: got %s expected %s" % (what, {k: r[k] for k in ("tt", "err") if k in r}, exp)))
    if r.get("arg_changed"):
        out.append(("transitions-argument-modified", "%s: after the call %s" % (what, "; ".join(r["arg_changed"]))))
    if exp is not None and "tt2" in r and "tt" in r and r["tt2"] != r["tt"]:
        out.append(("transitions-second-call", "%s: first call %s, second call on the same array %s (frames n/n+1 differ at %s)"
                    % (what, r["tt"], r["tt2"], exp)))
    return out


def _rot_term(c, b):
    return "gen_rotamers %s %s %s" % (clist([F(a) for a in c["angles"]], cq, "Q"), clist(c["hb"], cq, "Q"), cq(F(b)))


def coq_check(c, r):
    if c["kind"] == "pub":
        return None          # oracle only (float32 angles from mdtraj)
    if c["kind"] in ("rot", "rotw"):
        bs = c["bs"] if c["kind"] == "rotw" else [c["b"]]
        terms = []
        for k, b in enumerate(bs):
            got = r["runs"][k]
            exp = copt(None if isinstance(got, dict) else got, lambda l: clist(l, cz, "Z"), "(list Z)")
            terms.append("CaseLib.opt_eqb CaseLib.zl_eqb (%s) %s" % (_rot_term(c, b), exp))
        return " && ".join("(%s)" % t for t in terms)
    if "tt" not in r:
        return None   # error path: oracle decides (known finding or violation)
    exp = clist(r["tt"], lambda l: clist(l, cn, "nat"), "(list nat)")
    hand = "CaseLib.list_eqb CaseLib.nl_eqb (%s) %s" % (coq_show(c), exp)
    # the definitions translated from disorder.py, entered through the translated branch test
    if c["kind"] == "trans1":
        gen = "match gen_transitions (Arr1 %s) with TT1 l => CaseLib.nl_eqb l %s | _ => false end" % (
            clist(c["rows"][0], cz, "Z"), clist(r["tt"][0], cn, "nat"))
    elif c["kind"] == "transstats":
        gen = " && ".join("(match gen_transitions (Arr1 %s) with TT1 l => CaseLib.nl_eqb l %s | _ => false end)" % (
            clist(row, cz, "Z"), clist(t, cn, "nat")) for row, t in zip(c["rows"], r["tt"]))
    else:
        gen = "match gen_transitions (Arr2 %s) with TT2 l => CaseLib.list_eqb CaseLib.nl_eqb l %s | _ => false end" % (
            clist(c["rows"], lambda l: clist(l, cz, "Z"), "(list Z)"), exp)
    return "andb (%s) (%s)" % (hand, gen)


def coq_show(c):
    if c["kind"] == "pub":
        return "tt"
    if c["kind"] == "rot":
        return _rot_term(c, c["b"])
    if c["kind"] == "rotw":
        return clist([_rot_term(c, b) for b in c["bs"]], lambda x: x, "(option (list Z))")
    return "transitions2 %s" % clist(c["rows"], lambda l: clist(l, cz, "Z"), "(list Z)")


def _nt_states(s):
    return isinstance(s, list) and len(s) >= 3 and len(set(s)) >= 2 and any(x == y for x, y in zip(s, s[1:]))


def nontrivial(c, r):
    if c["kind"] == "pub":
        return any(_nt_states(s) for s in r.get("states", []))
    if c["kind"] in ("rot", "rotw"):
        return any(_nt_states(s) for s in r["runs"])
    return any(len(set(row)) > 1 for row in c["rows"])


def _narrow_tags(c, r):
    """which situation of the narrow stream the series realises (measured on the exact angles)"""
    hb, b = c["hb"], F(c["b"])
    ang = [F(a) for a in c["angles"]]
    t = ["rot-narrow"]
    circ = min(max((a - s) % 360 for a in ang) for s in ang)        # smallest arc from some frame covering all frames
    if b > 0 and circ < 2 * b:
        t.append("rot-narrow-span-below-2buffer")
        s = r.get("states")
        if isinstance(s, list) and len(set(s)) > 1:
            t.append("rot-narrow-with-state-change")
            first_b = min(hb[:-1], key=lambda x: min((ang[0] - x) % 360, (x - ang[0]) % 360))
            t.append("rot-narrow-change-at-seam" if first_b == 0 else "rot-narrow-change-at-inner-barrier")
            if max(ang) - min(ang) < 2 * b:
                t.append("rot-narrow-linear-span-below-2buffer-with-state-change")
    if len(ang) >= 20:
        t.append("rot-narrow-long")
    return t


def tags(c, r):
    if c["kind"] == "pub":
        return ["pub:" + c["fn"]] + (["pub-raises"] if "err" in r else [])
    if c["kind"] == "rotw":
        t = ["rotw", "rot-" + str(len(c["hb"]) - 1) + "basin"]
        ok = [x for x in r["runs"] if isinstance(x, list)]
        if len({tuple(x) for x in ok}) > 1:
            t.append("rotw-widths-give-different-states")
        if c.get("form", "plain") != "plain":
            t.append("rot-form:" + c["form"])
        return t
    if c["kind"] != "rot":
        t = [c["kind"]]
        if c.get("form", "plain") != "plain":
            t.append("trans-form:" + c["kind"] + ":" + c["form"])
        if c["kind"] == "transstats":
            return t + (["transstats-skipped"] if "tt_skipped" in r else [])
        if any(len(row) <= 1 for row in c["rows"]):
            t.append("trans-short-row")
        if c["kind"] != "trans1" and all(len(set(row)) <= 1 for row in c["rows"]):
            t.append("trans-no-transition-anywhere")
        if c["kind"] != "trans1" and len(c["rows"]) > 1 and len(set(c["rows"][-1])) <= 1 and any(len(set(row)) > 1 for row in c["rows"]):
            t.append("trans-trailing-quiet-row")
        return t
    t = ["rot-" + str(len(c["hb"]) - 1) + "basin"]
    b = F(c["b"])
    if "err" in r:
        t.append("rot-rejected")
    if len(c["hb"]) == 3 and 90 < b < 180:
        t.append("rot-wide-2basin-buffer")
    if b == 0:
        t.append("rot-zero-buffer")
    if c.get("form", "plain") != "plain":
        t.append("rot-form:" + c["form"])
    if c.get("stream") == "narrow":
        t += _narrow_tags(c, r)
    return t


ESSENTIAL_TAGS = ["transra", "rot-2basin", "rot-3basin", "rot-wide-2basin-buffer", "rot-zero-buffer", "rot-rejected", "trans1", "trans2",
                  "trans-short-row", "trans-no-transition-anywhere", "trans-trailing-quiet-row",
                  "rot-narrow-span-below-2buffer", "rot-narrow-change-at-seam", "rot-narrow-change-at-inner-barrier",
                  "rot-narrow-linear-span-below-2buffer-with-state-change", "rot-narrow-long", "rotw",
                  "rotw-widths-give-different-states", "rot-form:col", "rot-form:f32col", "transstats",
                  "trans-form:trans1:col", "trans-form:trans1:col16", "trans-form:trans1:int16", "trans-form:trans1:rev",
                  "trans-form:trans1:readonly", "trans-form:trans2:T", "trans-form:trans2:int16", "trans-form:trans2:readonly",
                  "pub:phi_rotamers", "pub:psi_rotamers", "pub:chi_rotamers", "pub:all_rotamers"]
