"""C10: nearest-centre assignment and per-trajectory bookkeeping are exact."""
import os, shutil, sys, tempfile
from fractions import Fraction as F
import numpy as np
import cluster_common as cc
from core import cz, cn, cq, clist, copt, VERIF
sys.path.insert(0, os.path.join(VERIF, "translator"))
import tr_partition

PID = "C10"
PROPS_FILE = "Props/C10.v"
MODEL_TARGETS = ["Model/Partition.vo", "Model/ClusterCase.vo", "Gen/PartitionGen.vo"]
GEN_FILES = ["Gen/PartitionGen.v", "Gen/ClusterGen.v"]
CASE_HEADER = ("From Coq Require Import List ZArith QArith.\n"
               "From EV Require Import PySlice PartitionBase PartitionGen Cluster ClusterCase Partition.\nImport ListNotations.\n")
TRUSTED = ["translator/tr_partition.py + py2coq.py (tests/updates of partition_indices, partition_list; loop skeletons Base/PartitionBase.v checked by correspondence)",
           "modelled not verified: NumPy masking/argmin/unique, RaggedArray construction, mdtraj/load_as_concatenated (batch_reassign is checked on the real code by the oracle only)"]
ASSUMPTIONS = ["trajectory lengths are positive; flat centre indices lie inside the data"]
RULE = ("assign_to_nearest_center with 1..8 centres that are frames or arbitrary points (fewer and more centres than frames), "
        "estimator predict on new data, ClusterResult.partition with equal and unequal lengths incl. length-1 trajectories and "
        "centre indices on trajectory boundaries, partition_indices / partition_list directly (incl. wrong totals), "
        "find_cluster_centers with label gaps and distance ties, compute_batches; batch_reassign on generated md trajectories "
        "against per-frame RMSD (one, two and three-or-more batches). Streams: 33..100 centres (assign, predict); data in non-contiguous "
        "memory layouts (metric evaluated on a fresh contiguous copy); a metric returning one reused buffer; md.Trajectory frames with "
        "centres in one md.Trajectory (frame-by-frame branch) or a list; estimator predict histories fit(A)/predict(short)/fit(B)/"
        "predict(short)/predict(long) for KCenters and KHybrid on md.Trajectory data, each predict judged against the centres of the "
        "latest fit. Flat centre indices as ndarray (int64 / int32 / the array find_cluster_centers returns), every centre beyond trajectory 0: "
        "arguments unchanged, the same result partitioned twice, partition_indices on its own. predict on float64 data whose values the "
        "fit dtype (float32 / int32 / int64) cannot hold, with a user callable metric accepting mixed dtypes. reassign() with two or three "
        "(topology, trajectories, selection) sets over one system of several atom groups: the same topology file named for every set with "
        "different equal-sized selections (index ranges / chains), or one file per set; frames follow the centres only in the selected "
        "group. A user callable that is NOT symmetric in (data, reference) -- one-sided excess, manhattan with reference-dependent weights, "
        "an asymmetric integer table on an index column -- with the centres held in one 2-D ndarray (one case in five: a list of rows), mostly strictly more centres than "
        "frames (built so that reading the callable the other way round gives another answer), directly and through predict of an estimator "
        "whose fitted centres are kept as one array: judged against d(frame data, centre), the data first, one centre second. "
        "non-trivial := >= 2 trajectories or >= 2 centres")
SHARD = 100


def translate(repo):
    import tr_cluster
    d = dict(tr_partition.translate(repo))
    d.update(tr_cluster.translate(repo))
    return d


def _lens(rng, n):
    k = rng.randint(1, min(5, n))
    if rng.random() < 0.3 and n % k == 0:
        return [n // k] * k
    cuts = sorted(rng.sample(range(1, n), k - 1)) if k > 1 else []
    return [b - a for a, b in zip([0] + cuts, cuts + [n])]


def generate(rng, tier):
    N = 90 if tier == "quick" else 900
    cases = []
    for _ in range(N):
        base = cc._base(rng, 10, pam=False)
        n = base["n"]
        # assignment to arbitrary centres (points of the same kind, possibly not frames)
        c = dict(base, kind="assign")
        k = rng.randint(1, 8)
        if base["metric"] == "matrix":
            c["centers"] = [rng.randrange(n) for _ in range(k)]          # frames (the callable needs indices)
        else:
            dim = len(base["X"][0])
            c["center_pts"] = [[rng.randrange(10) for _ in range(dim)] if rng.random() < 0.6 else list(rng.choice(base["X"]))
                               for _ in range(k)]
        cases.append(c)
        if base["metric"] != "matrix":
            cases.append(dict(base, kind="predict", k=rng.randint(1, min(4, n)),
                              Y=cc.gen_points(rng, rng.randint(1, 7), len(base["X"][0]), 10)))
        # partition of a flat result
        lens = _lens(rng, n)
        k = rng.randint(1, min(4, n))
        starts = [sum(lens[:i]) for i in range(len(lens))]
        boundary = starts + [s + l - 1 for s, l in zip(starts, lens)]
        ctrs = [rng.choice(boundary) if rng.random() < 0.6 else rng.randrange(n) for _ in range(k)]
        cases.append({"kind": "partition", "n": n, "lens": lens, "ctrs": ctrs,
                      "asg": [rng.randrange(k) for _ in range(n)], "dst": [rng.randrange(0, 20) for _ in range(n)],
                      "ctr_form": rng.choice(["list", "ndarray", "ndarray", "int32"])})
        cases.append({"kind": "plist", "n": n, "lens": lens if rng.random() < 0.7 else lens[:-1] + [lens[-1] + rng.choice([-1, 1, 2])],
                      "vals": [rng.randrange(100) for _ in range(n)]})
        m = rng.randint(1, 9)
        cases.append({"kind": "fcc", "asg": [rng.choice([0, 2, 3, 5]) if rng.random() < 0.5 else rng.randrange(4) for _ in range(m)],
                      "dst": [rng.randrange(0, 4) for _ in range(m)]})
        L = [rng.randint(1, 9) for _ in range(rng.randint(1, 7))]
        cases.append({"kind": "batches", "lens": L, "bs": rng.randint(max(L) + 1, max(L) + 12)})
    # flat centre indices held in an ndarray (what find_cluster_centers and predict return), every centre beyond
    # trajectory 0 and at least one in the last trajectory; the result is partitioned twice
    for i in range(8 if tier == "quick" else 60):
        n = rng.randint(4, 14)
        while True:
            lens = _lens(rng, n)
            if len(lens) >= 2:
                break
        k = rng.randint(1, 4)
        ctrs = [rng.randrange(lens[0], n) for _ in range(k - 1)] + [rng.randrange(n - lens[-1], n)]
        rng.shuffle(ctrs)
        cases.append({"kind": "partition", "n": n, "lens": lens, "ctrs": ctrs, "ctr_form": ["ndarray", "int32", "fcc"][i % 3],
                      "asg": [rng.randrange(k) for _ in range(n)], "dst": [rng.randrange(0, 20) for _ in range(n)]})
    # predict on data of a wider dtype than the fitted data (integer / float32 features at fit time, float64 data
    # with values the fit dtype cannot hold), user callable metric (the library kernels refuse mixed dtypes)
    for i in range(8 if tier == "quick" else 60):
        base = cc._base(rng, 10, pam=False)
        while base["metric"] == "matrix":
            base = cc._base(rng, 10, pam=False)
        base.pop("buf", None)
        base.pop("layout", None)
        n, dim = base["n"], len(base["X"][0])
        base["dtype"] = ["float32", "int32", "int64", "float32"][i % 4]
        Ydt = "float64" if (base["dtype"] != "float32" or i % 8 < 4) else "float64x"      # float64x: float32-representable control
        fr = (lambda: rng.choice([0.5, 0.25, 0.75, 0.125])) if base["dtype"] != "float32" else \
             (lambda: rng.choice([1, 3, 5, 7]) * 2.0 ** -rng.randint(26, 30))
        if Ydt == "float64x":
            fr = lambda: rng.choice([0.5, 0.25, 0.0])
        Y = [[v + fr() for v in p_] for p_ in cc.gen_points(rng, rng.randint(2, 7), dim, 10)]
        cases.append(dict(base, kind="predict", k=rng.randint(1, min(4, n)), Y=Y, Ydtype="float64", mixed=True))
    # lengths handed over as narrow-integer arrays whose running sum leaves the dtype's range
    for _ in range(6 if tier == "quick" else 40):
        dt = rng.choice(["uint8", "int8", "uint8", "int16"])
        lim = {"uint8": 255, "int8": 127, "int16": 300}[dt]
        lens = [rng.randint(lim // 2, lim - 1) for _ in range(rng.randint(2, 3))]
        n = sum(lens)
        cases.append({"kind": "plist", "n": n, "lens": lens, "lens_dtype": dt, "vals": [rng.randrange(100) for _ in range(n)]})
    # many centres (the per-centre sweep, 33..100 centres, few frames: the model's cost is centres x frames)
    for _ in range(12 if tier == "quick" else 80):
        base = cc._base(rng, 6, pam=False)
        n = base["n"]
        k = rng.choice([33, 34, 40, 47, 63, 64, 65, 70, 96, 97, 100, rng.randint(33, 100)])
        c = dict(base, kind="assign", many=True)
        if base["metric"] == "matrix":
            c["centers"] = [rng.randrange(n) for _ in range(k)]
        else:
            dim = len(base["X"][0])
            hi = rng.choice([12, 20, 30])      # few coincident centres: the nearest one may sit anywhere in the list
            c["center_pts"] = [[rng.randrange(hi) for _ in range(dim)] if rng.random() < 0.9 else list(rng.choice(base["X"]))
                               for _ in range(k)]
            c["cen_form"] = rng.choice(["array", "list"])
        cases.append(c)
    for _ in range(6 if tier == "quick" else 40):
        base = cc._base(rng, 12, pam=False)
        while base["metric"] == "matrix":
            base = cc._base(rng, 12, pam=False)
        n = rng.randint(36, 72)
        dim = rng.randint(1, 3)
        base.update(X=cc.gen_points(rng, n, dim, 12), n=n)
        cases.append(dict(base, kind="predict", many=True, k=rng.randint(33, n),
                          Y=cc.gen_points(rng, rng.randint(2, 5), dim, 12)))
    # md.Trajectory data and centres held in one md.Trajectory (user metric on time stamps): with more centres
    # than frames assign_to_nearest_center works frame by frame (argmin over all centres)
    for _ in range(10 if tier == "quick" else 80):
        n = rng.randint(1, 6)
        N = rng.randint(max(n, 3), 9)
        M, tri = cc.gen_matrix(rng, N, rng.choice([3, 6, 12]))
        k = rng.randint(1, 10)
        cases.append({"kind": "assign", "metric": "matrix", "traj": True, "M": M, "tri": tri, "n": n,
                      "frames": [rng.randrange(N) for _ in range(n)], "centers": [rng.randrange(N) for _ in range(k)],
                      "cen_form": rng.choice(["traj", "traj", "list"]), "buf": rng.random() < 0.2})
    # estimator histories: fit(A) / predict(short) / fit(B) / predict(short) / predict(long) ... on md.Trajectory
    # data (short = fewer frames than centres), KCenters and KHybrid; every predict must use the centres of
    # the latest fit
    for i in range(14 if tier == "quick" else 120):
        cases.append(_gen_phist(rng, i))
    nb = 6 if tier == "quick" else 30
    combos = [("reassign", "traj-precentered"), ("reassign", "traj"), ("reassign", "list"), ("batch_reassign", "list")]
    for bi in range(nb):
        L = [rng.randint(1, 6) for _ in range(rng.randint(2, 6))]
        if bi % 2 == 1:      # many short trajectories, small batches: three or more batches
            L = [rng.randint(1, 4) for _ in range(rng.randint(6, 10))]
        cases.append({"kind": "batch_reassign", "lens": L, "batch_frames": rng.randint(max(L) + 1, max(L) + 6),
                      "seed": rng.randrange(10 ** 6), "k": rng.randint(2, 4),
                      "entry": combos[bi % 4][0], "cform": combos[bi % 4][1]})
    # reassign() with several (topology, trajectories, atom selection) sets: the same topology file named for every
    # set with different selections of equal size (two or three groups of atoms of one system), or one file per set
    for bi in range(4 if tier == "quick" else 16):
        nsets = 2 + (bi % 3 == 2)
        L = [rng.randint(1, 5) for _ in range(rng.randint(nsets, nsets + 3))]
        cuts = sorted(rng.sample(range(1, len(L)), nsets - 1))
        cases.append({"kind": "batch_reassign", "lens": L, "batch_frames": rng.randint(max(L) + 1, max(L) + 6),
                      "seed": rng.randrange(10 ** 6), "k": rng.randint(2, 4), "entry": "reassign",
                      "cform": ["list", "traj", "traj-precentered"][bi % 3],
                      "sets": {"n": nsets, "cuts": cuts, "same_top": bi % 4 != 3, "sel": ["index", "chainid", "index"][bi % 3],
                               "order": rng.sample(range(nsets), nsets)}})
    # a user callable that is NOT symmetric in (data, reference), centres held in one 2-D ndarray, mostly strictly more
    # centres than frames; directly and through predict of an estimator whose centres are kept as one array
    for i in range(24 if tier == "quick" else 200):
        cases.append(_gen_asym(rng, i))
    return cases


ASYM = ["excess", "refweight", "table"]


def _asym_exact(c):
    """exact integer version d(x, y) (x = frame data, y = reference) of the case's asymmetric callable"""
    if c["asym"] == "excess":           # how far the frame overshoots the reference
        return lambda x, y: sum(max(a - b, 0) for a, b in zip(x, y))
    if c["asym"] == "refweight":        # manhattan with weights that depend on the reference
        return lambda x, y: sum((1 + int(b) % 3) * abs(a - b) for a, b in zip(x, y))
    T = c["T"]                          # a table with d(x -> y) != d(y -> x), on an index column
    return lambda x, y: T[int(x[0])][int(y[0])]


def _asym_metric(c):
    """the callable handed to the code: distance_method(data, reference) -> one distance per row of data"""
    if c["asym"] == "excess":
        return lambda X, y: np.maximum(np.asarray(X, dtype=float) - np.asarray(y, dtype=float), 0.0).sum(axis=1)
    if c["asym"] == "refweight":
        def rw(X, y):
            y = np.asarray(y, dtype=float)
            return (np.abs(np.asarray(X, dtype=float) - y) * (1.0 + np.mod(y, 3.0))).sum(axis=1)
        return rw
    T = np.array(c["T"], dtype=float)
    return lambda X, y: T[np.asarray(X)[:, 0].astype(int), int(np.asarray(y).ravel()[0])]


def _gen_asym(rng, i):
    fn = ASYM[i % 3]
    kind = "predict" if (i // 3) % 2 else "assign"
    more = i % 4 != 3
    while True:
        c = {"kind": kind, "asym": fn, "metric": "asym-" + fn, "cen_form": "array"}
        if fn == "table":
            N = rng.randint(6, 12)
            c["T"] = [[0 if a == b else rng.randint(1, 12) for b in range(N)] for a in range(N)]
            c["dtype"] = rng.choice(["float64", "int64"])
            pick = lambda m: [[rng.randrange(N)] for _ in range(m)]
            distinct = lambda m: [[v] for v in rng.sample(range(N), m)]
        else:
            dim = rng.randint(1, 3)
            c["dtype"] = rng.choice(["float64", "float64", "float32", "int64"])
            pick = lambda m: [[rng.randrange(10) for _ in range(dim)] for _ in range(m)]
            distinct = lambda m: cc.gen_points(rng, m, dim, 10)
        if kind == "assign":
            n = rng.randint(1, 5)
            k = rng.randint(n + 1, n + 6) if more else rng.randint(1, n)
            c.update(X=pick(n), center_pts=pick(k), n=n)
            if i % 5 == 4:
                c["cen_form"] = "list"         # the same centres as a list of rows (the callables accept any array-like)
            frames = c["X"]
        else:
            nfit = rng.randint(4, 6 if fn == "table" else 10)
            k = rng.randint(3, min(8, nfit))
            m = rng.randint(1, k - 1) if more else rng.randint(k, k + 4)
            c.update(X=distinct(nfit), n=nfit, k=k, Y=pick(m), Ydtype=c["dtype"])
            frames = c["Y"]
        if not more or kind == "predict":
            break
        # the direction of the call decides: reading the callable the other way round gives another answer
        d = _asym_exact(c)
        fwd = [min((d(x, y), j) for j, y in enumerate(c["center_pts"])) for x in frames]
        bwd = [min((d(y, x), j) for j, y in enumerate(c["center_pts"])) for x in frames]
        if fwd != bwd:
            break
    return c


def _gen_phist(rng, i):
    N = rng.randint(6, 12)
    M, tri = cc.gen_matrix(rng, N, rng.choice([3, 6, 12]))
    c = {"kind": "phist", "M": M, "tri": tri, "N": N, "est": ["kcenters", "khybrid"][i % 2],
         "seed": rng.randrange(10 ** 6), "n_iters": rng.randint(0, 2), "data": {}, "k": {}}
    for name in ("A", "B"):
        c["data"][name] = rng.sample(range(N), rng.randint(4, N))
        c["k"][name] = rng.randint(2, min(5, len(c["data"][name])))
    kmin = min(c["k"].values())
    c["data"]["P"] = [rng.randrange(N) for _ in range(rng.randint(1, kmin - 1))]          # fewer frames than centres
    c["data"]["Q"] = [rng.randrange(N) for _ in range(rng.randint(max(c["k"].values()) + 1, N + 3))]
    steps = [rng.choice(["fitA", "fitB"])]
    for _ in range(rng.randint(3, 6)):
        last_fit = [s for s in steps if s.startswith("fit")][-1]
        steps.append(rng.choice(["predP", "predP", "predQ", "fitB" if last_fit == "fitA" else "fitA"]))
    if steps[-1].startswith("fit"):
        steps.append("predP")
    if not any(s == "predP" for s in steps):
        steps.append("predP")
    if i % 4 in (1, 2):
        steps = ["fitA", "predP", "fitB", "predP", "predQ"] if rng.random() < 0.5 else ["fitB", "predQ", "predP", "fitA", "predQ", "predP"]
    c["steps"] = steps
    c["via"] = rng.choice(["set_params", "attr"])
    if i % 3 == 0:                   # the same history on numeric arrays with a library metric
        dim = rng.randint(1, 3)
        c.update(metric=rng.choice(["euclidean", "manhattan"]), pts=cc.gen_points(rng, N, dim, 10),
                 dtype=rng.choice(["float64", "float32"]), tri=True)
        del c["M"]
    return c


def _tt(M, idx):
    """md.Trajectory whose frames are the universe members idx (told apart by time stamp)"""
    import mdtraj as md
    top = md.Topology()
    top.add_atom("CA", md.element.carbon, top.add_residue("ALA", top.add_chain()))
    return md.Trajectory(np.zeros((len(idx), 1, 3), dtype=np.float32), top, time=np.array(idx, dtype=float))


def _phist(c):
    from enspara.cluster import kcenters as KC, hybrid as KH, util
    out = {}
    if "pts" in c:
        U = np.array(c["pts"], dtype=c["dtype"])
        dmt = c["metric"]
        ref = util._get_distance_method(c["metric"])
        out["M"] = [[str(F(float(v))) for v in ref(U, U[j])] for j in range(len(U))]
        where = {tuple(p): i for i, p in enumerate(c["pts"])}
        ident = lambda x: where[tuple(int(v) for v in np.asarray(x).ravel())]
        build = lambda M_, idx: U[list(idx)]
    else:
        M = np.array(c["M"], dtype=float)

        def dmt(X, y):
            return M[np.asarray(X.time).astype(int), int(np.asarray(y.time)[0])]
        ident = lambda x: int(np.asarray(x.time)[0])
        build = _tt
    first = c["steps"][0][3:]
    if c["est"] == "kcenters":
        est = KC.KCenters(dmt, n_clusters=c["k"][first])
    else:
        est = KH.KHybrid(dmt, n_clusters=c["k"][first], kmedoids_updates=c["n_iters"], random_state=c["seed"])
    preds, fitted = [], None
    for st in c["steps"]:
        name = st[-1]
        idx = c["data"][name]
        T = build(None if "pts" in c else M, idx)
        if st.startswith("fit"):
            if c["via"] == "set_params":
                est.set_params(n_clusters=c["k"][name])
            else:
                est.n_clusters = c["k"][name]
            est.fit(T)
            fitted = [int(idx[int(i)]) for i in est.result_.center_indices]        # universe members that are centres now
        else:
            r = est.predict(T)
            cen_now = [ident(x) for x in est.centers_]
            preds.append({"step": st, "centres": list(fitted), "frames": [int(v) for v in idx],
                          "asg": [int(v) for v in r.assignments], "dst": [str(F(float(v))) for v in r.distances],
                          "fcc": [int(v) for v in r.center_indices],
                          "centers_kept": bool(cen_now == fitted and [ident(x) for x in r.centers] == fitted)})
    out["preds"] = preds
    return out


def _make_top(n_atoms):
    import mdtraj as md
    top = md.Topology()
    ch = top.add_chain()
    for _ in range(n_atoms):
        top.add_atom("CA", md.element.carbon, top.add_residue("ALA", ch))
    return top


def _make_top_groups(n_groups, na):
    """one system of n_groups x na atoms, each group a chain of its own"""
    import mdtraj as md
    top = md.Topology()
    for _ in range(n_groups):
        ch = top.add_chain()
        for _ in range(na):
            top.add_atom("CA", md.element.carbon, top.add_residue("ALA", ch))
    return top


def _batch_reassign(c):
    import mdtraj as md, psutil
    from enspara.cluster import util
    rs = np.random.RandomState(c["seed"])
    na, k = 5, c["k"]
    top = _make_top(na)
    shapes = rs.normal(scale=1.0, size=(k, na, 3))
    sets = c.get("sets")
    tmp = tempfile.mkdtemp(prefix="c10_")
    try:
        topf = os.path.join(tmp, "top.pdb")
        if sets:
            # trajectories of a system of nsets groups of `na` atoms; the frames of set s follow the centres in group
            # order[s] (the atoms its selection names) and hold OTHER centres' shapes in the other groups
            ng = sets["n"]
            bigtop = _make_top_groups(ng, na)
            md.Trajectory(np.concatenate([shapes[0:1]] * ng, axis=1), bigtop).save_pdb(topf)
            bounds = [0] + list(sets["cuts"]) + [len(c["lens"])]
            set_of = [s_ for s_ in range(ng) for _ in range(bounds[s_ + 1] - bounds[s_])]
            group_of = [sets["order"][s_] for s_ in set_of]
            sel = (lambda g: "chainid %d" % g) if sets["sel"] == "chainid" else (lambda g: "index >= %d and index < %d" % (g * na, (g + 1) * na))
        else:
            md.Trajectory(shapes[0:1], top).save_pdb(topf)
        files, which_all = [], []
        for i, n in enumerate(c["lens"]):
            which = rs.randint(0, k, size=n)
            xyz = shapes[which] + rs.normal(scale=0.02, size=(n, na, 3)) + rs.normal(scale=2.0, size=(n, 1, 3))
            fn = os.path.join(tmp, "t%02d.h5" % i)
            if sets:
                parts = []
                for g in range(ng):
                    if g == group_of[i]:
                        parts.append(xyz)
                    else:
                        other = (which + 1 + (g % max(1, k - 1))) % k if k > 1 else which
                        parts.append(shapes[other] + rs.normal(scale=0.02, size=(n, na, 3)) + rs.normal(scale=2.0, size=(n, 1, 3)))
                md.Trajectory(np.concatenate(parts, axis=1).astype(np.float32), bigtop).save_hdf5(fn)
            else:
                md.Trajectory(xyz.astype(np.float32), top).save_hdf5(fn)
            files.append(fn)
            which_all.append(which.tolist())
        centers = md.Trajectory(shapes.astype(np.float32), top)
        frac = (c["batch_frames"] + 0.5) * na * 3 * 4 / psutil.virtual_memory().total
        bs, _ = util.determine_batch_size(na, 4, frac)
        if c.get("entry", "batch_reassign") == "batch_reassign":
            targets = [(f, md.load(topf).top, None) for f in files]
            asg, dst = util.batch_reassign(targets, centers, c["lens"], frac, n_procs=1)
        else:
            # the public entry point, with the centres handed over in the documented forms
            cen = md.Trajectory(shapes.astype(np.float32), top)
            if c["cform"] == "list":
                cen = [cen[i] for i in range(len(cen))]
            elif c["cform"] == "traj-precentered":
                cen.center_coordinates()
            if sets:
                tops = []
                for s_ in range(ng):
                    if sets["same_top"]:
                        tops.append(topf)
                    else:                               # one topology file per set (same system)
                        tf = os.path.join(tmp, "top%d.pdb" % s_)
                        shutil.copy(topf, tf)
                        tops.append(tf)
                trjs = [files[bounds[s_]:bounds[s_ + 1]] for s_ in range(ng)]
                atoms = [sel(sets["order"][s_]) for s_ in range(ng)]
                args_before = (list(tops), [list(t) for t in trjs], list(atoms))
                asg, dst = util.reassign(tops, trjs, atoms, cen, frac_mem=frac)
                if (tops, trjs, atoms) != args_before:
                    raise AssertionError("reassign modified its list arguments")
            else:
                asg, dst = util.reassign([topf], [files], ["all"], cen, frac_mem=frac)
        rows = []
        for i, fn in enumerate(files):
            if sets:
                g = group_of[i]
                trj = md.load(fn, atom_indices=np.arange(g * na, (g + 1) * na))
                trj = md.Trajectory(trj.xyz, top)
            else:
                trj = md.load(fn)
            ref = np.array([md.rmsd(trj, centers, frame=j) for j in range(k)])
            rows.append({"asg": [int(v) for v in asg[i]], "dst": [float(v) for v in dst[i]], "ref": ref.tolist()})
        out = {"rows": rows, "batch_size": int(bs), "n_batches": len(util.compute_batches(c["lens"], bs))}
        if sets:
            out["groups"] = group_of
        return out
    finally:
        shutil.rmtree(tmp, ignore_errors=True)


def run_impl(c):
    from enspara.cluster import util, kcenters as KC
    from enspara.ra import ra
    kind = c["kind"]
    try:
        if kind == "assign" and c.get("traj"):
            M = np.array(c["M"], dtype=float)
            X = _tt(M, c["frames"])
            cen = _tt(M, c["centers"])
            if c["cen_form"] == "list":
                cen = [cen[i] for i in range(len(cen))]
            dm = cc.make_metric(c)
            h0, hc = cc.xhash(X), (cc.xhash(cen) if c["cen_form"] == "traj" else None)
            with cc.Watchdog():
                a, d = util.assign_to_nearest_center(X, cen, dm)
            return {"Mc": [[str(F(M[f, j])) for f in c["frames"]] for j in c["centers"]], "asg": [int(v) for v in a],
                    "dst": [str(F(float(v))) for v in d],
                    "unchanged": cc.xhash(X) == h0 and (hc is None or cc.xhash(cen) == hc)}
        if kind == "assign":
            X = cc.make_X(c)
            if c.get("asym"):
                dm = ref = _asym_metric(c)
            else:
                dm = util._get_distance_method(cc.make_metric(c))
                ref = util._get_distance_method(cc.make_metric(c, plain=True))
            cen = X[c["centers"]] if "centers" in c else np.array(c["center_pts"], dtype=X.dtype)
            if c.get("cen_form") == "list":
                cen = [row for row in cen]
            h0 = cc.xhash(X)
            hc = cc.xhash(cen) if isinstance(cen, np.ndarray) else None
            with cc.Watchdog():
                a, d = util.assign_to_nearest_center(X, cen, dm)
            Xc = np.array(X, order="C", copy=True)       # the metric on the values: evaluated on a fresh contiguous copy
            # always d(frame data, centre): the data first, one centre second, as the documented call has it
            return {"Mc": [[str(F(float(v))) for v in ref(Xc, np.array(y))] for y in cen], "asg": [int(v) for v in a],
                    "dst": [str(F(float(v))) for v in d], "unchanged": cc.xhash(X) == h0 and (hc is None or cc.xhash(cen) == hc)}
        if kind == "predict":
            X = cc.make_X(c)
            Y = cc.layout_of(np.array(c["Y"], dtype=c.get("Ydtype") or X.dtype), c.get("layout"))
            if c.get("asym"):
                ref = metric = _asym_metric(c)
            else:
                ref = util._get_distance_method(c["metric"])
                metric = cc.make_metric(c)
            if c.get("mixed"):
                # a user callable that accepts any mix of dtypes: the library metric on float64 copies of both arguments
                lib = ref
                ref = metric = lambda A, b: lib(np.array(A, dtype=np.float64, order="C"), np.array(b, dtype=np.float64, order="C"))
            with cc.Watchdog():
                est = KC.KCenters(metric, n_clusters=c["k"]).fit(X)
                if c.get("asym"):
                    # the fitted centres kept as ONE 2-D array (as when centres are stored in / restored from an .npy file)
                    est.result_ = est.result_._replace(centers=np.array(est.result_.centers))
                h0 = cc.xhash(Y)
                r = est.predict(Y)
            Yc = np.array(Y, order="C", copy=True)
            return {"Mc": [[str(F(float(v))) for v in ref(Yc, np.array(y))] for y in est.centers_], "asg": [int(v) for v in r.assignments],
                    "dst": [str(F(float(v))) for v in r.distances], "fcc": [int(v) for v in r.center_indices],
                    "unchanged": cc.xhash(Y) == h0 and str(Y.dtype) == (c.get("Ydtype") or str(X.dtype)),
                    "centers_kept": len(r.centers) == len(est.centers_) and all(np.array_equal(a, b) for a, b in zip(r.centers, est.centers_))
                                    and all(np.array_equal(a, X[int(i)]) for a, i in zip(est.centers_, est.result_.center_indices))}
        if kind == "phist":
            with cc.Watchdog(60):
                return _phist(c)
        if kind == "partition":
            form = c.get("ctr_form", "list")
            if form == "list":
                ci = list(c["ctrs"])
            elif form == "fcc":
                # the very array find_cluster_centers returns: a labelling whose label j has its closest member at ctrs[j]
                # (needs distinct ctrs; otherwise a plain array)
                ci = np.array(c["ctrs"])
                if len(set(c["ctrs"])) == len(c["ctrs"]):
                    a_ = np.zeros(c["n"], dtype=int)
                    d_ = np.ones(c["n"])
                    a_[:] = int(np.argmin(c["ctrs"]))          # every other frame: a member of some cluster, farther than its centre
                    for j, f in enumerate(c["ctrs"]):
                        a_[f], d_[f] = j, 0.0
                    got = util.find_cluster_centers(a_, d_)
                    if [int(v) for v in got] == list(c["ctrs"]):
                        ci = got
            else:
                ci = np.array(c["ctrs"], dtype=("int32" if form == "int32" else "int64"))
            a_arg, d_arg = np.array(c["asg"]), np.array(c["dst"], dtype=float)
            res = util.ClusterResult(center_indices=ci, assignments=a_arg,
                                     distances=d_arg, centers=[None] * len(c["ctrs"]))
            p = res.partition(c["lens"])
            first = {"asg_type": type(p.assignments).__name__, "dst_type": type(p.distances).__name__,
                     "asg": [[int(v) for v in row] for row in p.assignments],
                     "dst": [[int(v) for v in row] for row in p.distances],
                     "ctr": [[int(t), int(f)] for t, f in p.center_indices]}
            first["args_after"] = {"ctrs": [int(v) for v in ci], "asg": [int(v) for v in a_arg], "dst": [int(v) for v in d_arg]}
            p2 = res.partition(c["lens"])
            first["again"] = {"asg": [[int(v) for v in row] for row in p2.assignments],
                              "dst": [[int(v) for v in row] for row in p2.distances],
                              "ctr": [[int(t), int(f)] for t, f in p2.center_indices]}
            # the index conversion on its own, on a fresh array of the same form
            ci2 = np.array(c["ctrs"]) if form != "list" else list(c["ctrs"])
            first["direct"] = [[int(t), int(f)] for t, f in ra.partition_indices(ci2, c["lens"])]
            first["direct_arg_after"] = [int(v) for v in ci2]
            return first
        if kind == "plist":
            lens_arg = np.array(c["lens"], dtype=c["lens_dtype"]) if "lens_dtype" in c else c["lens"]
            rows = ra.partition_list(np.array(c["vals"]), lens_arg)
            return {"rows": [[int(v) for v in r] for r in rows]}
        if kind == "fcc":
            return {"fcc": [int(v) for v in util.find_cluster_centers(np.array(c["asg"]), np.array(c["dst"], dtype=float))]}
        if kind == "batches":
            return {"batches": [[int(i) for i in b] for b in util.compute_batches(c["lens"], c["bs"])]}
        if kind == "batch_reassign":
            return _batch_reassign(c)
    except Exception as ex:
        return {"err": type(ex).__name__, "msg": str(ex)[:200]}


def oracle(c, r):
    kind = c["kind"]
    if "err" in r:
        if kind == "plist" and sum(c["lens"]) != c["n"] and r["err"] == "DataInvalid":
            return []
        return [("impl-error", "%s %s: %s" % (kind, r["err"], r.get("msg")))]
    out = []
    if kind in ("assign", "predict"):
        Mc = [[F(v) for v in row] for row in r["Mc"]]
        for f, (a, d) in enumerate(zip(r["asg"], r["dst"])):
            col = [row[f] for row in Mc]
            if not (0 <= a < len(Mc)) or F(d) != col[a] or F(d) != min(col):
                out.append(("nearest", "frame %d: label %d distance %s, distances to centres %s" % (f, a, d, [str(x) for x in col])))
                break
        if r.get("unchanged") is False:
            out.append(("input-modified", "data modified"))
        if kind == "predict":
            if not r["centers_kept"]:
                out.append(("predict-centers", "predict did not reuse the fitted centres"))
            exp = []
            for lab in sorted(set(r["asg"])):
                mem = [f for f, a in enumerate(r["asg"]) if a == lab]
                exp.append(min(mem, key=lambda f: (F(r["dst"][f]), f)))
            if r["fcc"] != exp:
                out.append(("find-centers", "got %s expected %s" % (r["fcc"], exp)))
    elif kind == "phist":
        M = c["M"] if "M" in c else r["M"]
        for p in r["preds"]:
            cen, fr = p["centres"], p["frames"]
            for f, (a, d) in enumerate(zip(p["asg"], p["dst"])):
                col = [F(M[j][fr[f]]) for j in cen]
                if not (0 <= a < len(cen)) or F(d) != col[a] or F(d) != min(col):
                    out.append(("nearest", "history %s, step %s: frame %d (universe member %d) got label %d distance %s; distances "
                                "to the centres of the latest fit %s are %s" % (c["steps"], p["step"], f, fr[f], a, d, cen, [str(x) for x in col])))
                    break
            if not p["centers_kept"]:
                out.append(("predict-centers", "history %s, step %s: predict did not report the centres of the latest fit" % (c["steps"], p["step"])))
            exp = []
            for lab in sorted(set(p["asg"])):
                mem = [f for f, a in enumerate(p["asg"]) if a == lab]
                exp.append(min(mem, key=lambda f: (F(p["dst"][f]), f)))
            if p["fcc"] != exp:
                out.append(("find-centers", "got %s expected %s" % (p["fcc"], exp)))
    elif kind == "partition":
        lens = c["lens"]
        sq = all(l == lens[0] for l in lens)
        want = "ndarray" if sq else "RaggedArray"
        if r["asg_type"] != want or r["dst_type"] != want:
            out.append(("partition-type", "lengths %s: got %s/%s" % (lens, r["asg_type"], r["dst_type"])))
        if [x for row in r["asg"] for x in row] != c["asg"] or [len(x) for x in r["asg"]] != lens:
            out.append(("partition-values", "assignments %s" % r["asg"]))
        if [x for row in r["dst"] for x in row] != c["dst"] or [len(x) for x in r["dst"]] != lens:
            out.append(("partition-values", "distances %s" % r["dst"]))
        starts = [sum(lens[:i]) for i in range(len(lens))]
        for flat, pr in zip(c["ctrs"], r["ctr"] + [None] * len(c["ctrs"])):
            if pr is None or not (0 <= pr[0] < len(lens)) or not (0 <= pr[1] < lens[pr[0]]) or starts[pr[0]] + pr[1] != flat:
                out.append(("partition-indices", "flat %s -> %s with lengths %s" % (flat, pr, lens)))
                break
        if len(r["ctr"]) != len(c["ctrs"]):
            out.append(("partition-indices", "number of pairs %d != %d" % (len(r["ctr"]), len(c["ctrs"]))))
        if "args_after" in r:
            form = c.get("ctr_form", "list")
            if r["args_after"] != {"ctrs": c["ctrs"], "asg": c["asg"], "dst": c["dst"]}:
                out.append(("partition-argument-modified", "partition(%s) with flat centre indices %s (%s): the result's own arrays hold centre "
                            "indices %s afterwards" % (lens, c["ctrs"], form, r["args_after"]["ctrs"])))
            if r["again"] != {"asg": r["asg"], "dst": r["dst"], "ctr": r["ctr"]}:
                out.append(("partition-twice", "partitioning the same result (flat centre indices %s as %s, lengths %s) a second time gives "
                            "centre pairs %s, the first time %s" % (c["ctrs"], form, lens, r["again"]["ctr"], r["ctr"])))
            if r["direct_arg_after"] != c["ctrs"]:
                out.append(("partition-argument-modified", "partition_indices(%s as %s, %s) left %s in the caller's indices" % (
                    c["ctrs"], form, lens, r["direct_arg_after"])))
            if r["direct"] != r["ctr"] and not any(k == "partition-indices" for k, _ in out):
                out.append(("partition-indices", "partition_indices on its own gives %s, through ClusterResult.partition %s" % (r["direct"], r["ctr"])))
    elif kind == "plist":
        if sum(c["lens"]) != c["n"]:
            out.append(("partition-list-accepts-wrong-total", str(r)))
        elif [x for row in r["rows"] for x in row] != c["vals"] or [len(x) for x in r["rows"]] != c["lens"]:
            out.append(("partition-values", str(r)))
    elif kind == "fcc":
        exp = []
        for lab in sorted(set(c["asg"])):
            mem = [f for f, a in enumerate(c["asg"]) if a == lab]
            exp.append(min(mem, key=lambda f: (c["dst"][f], f)))
        if r["fcc"] != exp:
            out.append(("find-centers", "got %s expected %s" % (r["fcc"], exp)))
    elif kind == "batches":
        if [i for b in r["batches"] for i in b] != list(range(len(c["lens"]))):
            out.append(("batches-order", str(r["batches"])))
    elif kind == "batch_reassign":
        if [len(x["asg"]) for x in r["rows"]] != c["lens"]:
            out.append(("batch-reassign-order", "row lengths %s != %s" % ([len(x["asg"]) for x in r["rows"]], c["lens"])))
        else:
            for i, row in enumerate(r["rows"]):
                ref = np.array(row["ref"])
                for j, (a, d) in enumerate(zip(row["asg"], row["dst"])):
                    # mdtraj's RMSD works in float32: its error is an absolute error of the mean *squared* deviation
                    # (observed up to 4.6e-6 over 6000 frame/centre pairs), i.e. 2e-4 in the RMSD itself at RMSD 0.012
                    if not (0 <= a < ref.shape[0]) or (abs(ref[a, j] - d) > 1e-4 and abs(ref[a, j] ** 2 - d ** 2) > 5e-5) \
                            or ref[a, j] > ref[:, j].min() + 1e-4:
                        extra = ""
                        if c.get("sets"):
                            extra = " (reassign with %d sets, %s, selections by %s; this trajectory belongs to the set selecting atom group %d)" % (
                                c["sets"]["n"], "one topology file named for every set" if c["sets"]["same_top"] else "one topology file per set",
                                c["sets"]["sel"], r["groups"][i])
                        out.append(("batch-reassign-nearest", "trajectory %d frame %d label %d dist %s ref %s%s" % (i, j, a, d, ref[:, j].tolist(), extra)))
                        break
    return out


def _q(s):
    return cq(F(s))


def coq_check(c, r):
    kind = c["kind"]
    if "err" in r and not (kind == "plist"):
        return None
    if kind in ("assign", "predict"):
        k, n = len(r["Mc"]), len(r["asg"])
        st = "(nearest_state (Dm %s) (seq 0 %s) %s)" % (clist(r["Mc"], lambda row: clist(row, _q, "Q"), "(list Q)"), cn(k), cn(n))
        t = "(nat_list_eqb (labels %s) %s && q_list_eqb (dists %s) %s)%%bool" % (
            st, clist(r["asg"], cn, "nat"), st, clist(r["dst"], _q, "Q"))
        if kind == "predict":
            t = "(%s && nat_list_eqb (find_cluster_centers (snd %s)) %s)%%bool" % (t, st, clist(r["fcc"], cn, "nat"))
        return t
    if kind == "phist":
        ts = []
        MM = c["M"] if "M" in c else r["M"]
        for p in r["preds"]:
            Mc = [[str(F(MM[j][f])) for f in p["frames"]] for j in p["centres"]]
            st = "(nearest_state (Dm %s) (seq 0 %s) %s)" % (clist(Mc, lambda row: clist(row, _q, "Q"), "(list Q)"),
                                                            cn(len(Mc)), cn(len(p["frames"])))
            ts.append("nat_list_eqb (labels %s) %s && q_list_eqb (dists %s) %s && nat_list_eqb (find_cluster_centers (snd %s)) %s" % (
                st, clist(p["asg"], cn, "nat"), st, clist(p["dst"], _q, "Q"), st, clist(p["fcc"], cn, "nat")))
        return "(%s)%%bool" % " && ".join(ts)
    if kind == "partition":
        exp_ctr = clist(r["ctr"], lambda p: "(%s, %s)" % (cz(p[0]), cz(p[1])), "(Z * Z)")
        return ("(let p := partition_result %s %s %s %s in Bool.eqb (p_square p) %s && "
                "CaseLib.opt_eqb (CaseLib.list_eqb nat_list_eqb) (p_asg p) (Some %s) && "
                "CaseLib.list_eqb (CaseLib.pair_eqb Z.eqb Z.eqb) (p_ctr p) %s)%%bool") % (
            clist(c["ctrs"], cz, "Z"), clist(c["asg"], cn, "nat"), clist(c["dst"], lambda v: cq(F(v)), "Q"),
            clist(c["lens"], cz, "Z"), "true" if r["asg_type"] == "ndarray" else "false",
            clist(r["asg"], lambda row: clist(row, cn, "nat"), "(list nat)"), exp_ctr)
    if kind == "plist":
        exp = "(@None (list (list Z)))" if "err" in r else "(Some %s)" % clist(r["rows"], lambda row: clist(row, cz, "Z"), "(list Z)")
        return "CaseLib.opt_eqb CaseLib.zll_eqb (gen_partition_list %s %s) %s" % (
            clist(c["vals"], cz, "Z"), clist(c["lens"], cz, "Z"), exp)
    if kind == "fcc":
        frs = clist(list(zip(range(len(c["asg"])), c["asg"], c["dst"])),
                    lambda t: "(mkfr %s %s %s)" % (cn(t[0]), cn(t[1]), cq(F(t[2]))), "fr")
        return "nat_list_eqb (find_cluster_centers %s) %s" % (frs, clist(r["fcc"], cn, "nat"))
    if kind == "batches":
        return "CaseLib.list_eqb nat_list_eqb (compute_batches %s %s) %s" % (
            clist(c["lens"], cz, "Z"), cz(c["bs"]), clist(r["batches"], lambda b: clist(b, cn, "nat"), "(list nat)"))
    return None


def coq_show(c):
    r = run_impl(c)
    t = coq_check(c, r)
    return t if t else "tt"


def nontrivial(c, r):
    if "err" in r:
        return False
    k = c["kind"]
    if k == "phist":
        return len(r["preds"]) >= 2
    if k in ("assign", "predict"):
        return len(r["Mc"]) >= 2 and len(r["asg"]) >= 2
    if k in ("partition", "plist", "batches", "batch_reassign"):
        return len(c["lens"]) >= 2
    return len(set(c["asg"])) >= 2


def tags(c, r):
    t = [c["kind"]]
    if c["kind"] == "partition":
        t.append("square" if all(l == c["lens"][0] for l in c["lens"]) else "ragged")
        if 1 in c["lens"]:
            t.append("length-1-trajectory")
    if c["kind"] == "assign" and len(r.get("Mc", [])) > len(r.get("asg", [0])):
        t.append("more-centres-than-frames")
    if c["kind"] == "batches" and len(r.get("batches", [])) > 1:
        t.append("several-batches")
    if c["kind"] == "plist" and "lens_dtype" in c:
        t.append("narrow-dtype-lengths")
    if c["kind"] == "fcc" and len(set(c["asg"])) < max(c["asg"]) + 1:
        t.append("label-gap")
    if c["kind"] in ("assign", "predict"):
        if len(r.get("Mc", [])) > 32:
            t.append(c["kind"] + "-more-than-32-centres")
        if c.get("layout") and c.get("metric") != "matrix" and c["layout"] != "readonly":
            t.append("non-contiguous-data")
        if c.get("buf"):
            t.append("buffer-reusing-metric")
        if c.get("traj"):
            t.append("md-trajectory-centres" if c["cen_form"] == "traj" else "md-trajectory-frames-list-centres")
            if c["cen_form"] == "traj" and len(c["centers"]) > c["n"]:
                t.append("frame-by-frame-branch")
    if c["kind"] in ("assign", "predict") and c.get("asym") and "Mc" in r:
        t.append("asymmetric-callable-ndarray-centres" if c.get("cen_form") != "list" else "asymmetric-callable-list-centres")
        t.append("asymmetric-callable-" + c["asym"])
        if len(r["Mc"]) > len(r["asg"]):
            t.append("asymmetric-callable-%s-more-centres-than-frames" % c["kind"])
    if c["kind"] == "phist" and "preds" in r:
        t.append("predict-history-" + c["est"])
        t.append("predict-history-ndarray" if "pts" in c else "predict-history-md-trajectory")
        seen_fit = 0
        for s in c["steps"]:
            if s.startswith("fit"):
                seen_fit += 1
            elif seen_fit >= 2:
                t.append("predict-short-after-refit" if s == "predP" else "predict-long-after-refit")
    if c["kind"] == "batch_reassign" and "n_batches" in r:
        t.append("reassign-%s-batches" % ("1" if r["n_batches"] == 1 else "2" if r["n_batches"] == 2 else "3+"))
        if c.get("sets"):
            t.append("reassign-several-sets-same-topology-file" if c["sets"]["same_top"] else "reassign-several-sets-topology-file-each")
    if c["kind"] == "partition" and c.get("ctr_form", "list") != "list":
        t.append("partition-ndarray-centre-indices")
        if "err" not in r and all(v >= c["lens"][0] for v in c["ctrs"]) and len(c["lens"]) >= 2:
            t.append("partition-ndarray-centres-beyond-trajectory-0")
    if c["kind"] == "predict" and c.get("mixed"):
        t.append("predict-wider-dtype-than-fit")
        t.append("predict-wider-dtype-than-fit-" + c["dtype"])
    return t


ESSENTIAL_TAGS = ["asymmetric-callable-assign-more-centres-than-frames", "asymmetric-callable-predict-more-centres-than-frames",
                  "asymmetric-callable-excess", "asymmetric-callable-refweight", "asymmetric-callable-table",
                  "reassign-several-sets-same-topology-file", "partition-ndarray-centres-beyond-trajectory-0", "predict-wider-dtype-than-fit-float32",
                  "predict-wider-dtype-than-fit-int32", "predict-wider-dtype-than-fit-int64", "assign-more-than-32-centres", "predict-more-than-32-centres", "non-contiguous-data", "buffer-reusing-metric",
                  "md-trajectory-centres", "frame-by-frame-branch", "predict-history-kcenters", "predict-history-khybrid", "predict-history-ndarray", "predict-history-md-trajectory",
                  "predict-short-after-refit", "predict-long-after-refit", "reassign-3+-batches",
                  "narrow-dtype-lengths", "assign", "predict", "partition", "plist", "fcc", "batches", "batch_reassign", "square", "ragged",
                  "length-1-trajectory", "more-centres-than-frames", "several-batches", "label-gap"]
