"""C09: k-medoids refinement never worsens the cost and keeps centres in the data."""
from fractions import Fraction as F
import cluster_common as cc
from cluster_common import CASE_HEADER, MODEL_TARGETS, GEN_FILES
import os, sys
from core import VERIF
sys.path.insert(0, os.path.join(VERIF, "translator"))
import tr_kcguard


def translate(repo):
    return cc.translate_all(repo)


PID = "C09"
PROPS_FILE = "Props/C09.v"
TRUSTED = cc.TRUSTED + ["NumPy's RandomState stream (reproducibility is observed by running twice, not proved)"]
ASSUMPTIONS = ["integer-valued metrics (manhattan on integer coordinates, 1-D euclidean, arbitrary integer matrix) so that the float "
               "cost mean(d^2) is exact; 1 <= k <= n; >= 1 sweep for stand-alone kmedoids"]
RULE = ("k-medoids (cold, from centre indices, from (trajectory,frame) pairs, from a consistent state) and k-hybrid (function and "
        "estimator), 1..4 sweeps, random proposals recorded from the implementation's RandomState or explicit proposal lists "
        "(incl. frames outside the cluster, the current medoid, another medoid); every prefix of the sweeps is run from the same "
        "recorded history and the cost followed sweep by sweep; each seeded run is repeated. non-trivial := >= 2 clusters and at "
        "least one accepted and one rejected proposal"
        " Input-class axes, each forced in every run for every entry point (cluster_common.gen_axis_streams): memory layout of the data (column subset / strided rows / Fortran / transposed / negative stride / strided columns / read-only; same values, the metric is evaluated on a fresh contiguous copy); container of the warm-start centres (2-D array or md.Trajectory slice, Python list of frames, the .centers list of an earlier result) with argument-unchanged checks on the list and the earlier result; a metric that returns its result in one reused float64 buffer; estimator-reuse histories (constructed with other parameters, optional earlier fit on the same or other data, parameters changed through set_params / attribute assignment, second fit) compared with the function form called with the current parameters; tiny length scales (x 2^-14..2^-20) incl. k-medoids started from labels+distances without centre indices. Every run of the real code is bounded by a watchdog (10 s; key does-not-terminate)."
        " Explicit proposals with random_state=None (2..4 sweeps, from every supplied start state): three identical calls under different "
        "states of NumPy's global generator must agree with each other, with the seeded run and with one-sweep calls composed by hand. "
        "65537..70000 frames on a line (k = 2, explicit proposals, held as a recipe; oracle only, exact integer costs before / after): a far "
        "group of frames at the end / start / middle of the array decides the accept test. Estimator attributes are read after every fit "
        "of a history and compared with that fit's result_. k-hybrid with a user callable that does not obey the triangle inequality "
        "(squared euclidean distances of integer points, arbitrary symmetric integer tables; 6..13 frames, >= 3 centres, 0..3 sweeps), three "
        "in four built so that the bound of the triangle-inequality shortcut is wrong for some frame and a k-centers run relying on it costs "
        "more: the hybrid result is compared with kcenters() called with the same arguments.")
SHARD = 60


def generate(rng, tier):
    N = 160 if tier == "quick" else 1800
    cases = []
    for _ in range(N):
        r = rng.random()
        c = cc.gen_multiscale(rng) if r < 0.15 else cc.gen_kmedoids(rng) if r < 0.7 else cc.gen_hybrid(rng)
        c["extras"] = True
        if c["kind"] == "hybrid" and c["metric"] != "matrix" and rng.random() < 0.3:
            # rarely used: k-hybrid started from supplied centres that are not frames (centroid-like points);
            # outside the Coq model (oracle only): every returned centre must still be a frame of the input
            dim = len(c["X"][0])
            k = rng.randint(1, min(3, c["n"]))
            base = rng.sample(c["X"], k)       # a quarter unit away from k distinct frames: each attracts its frame
            c["init_pts"] = [[p[0] + 0.25] + list(p[1:]) for p in base]
            c["nclu"], c["cutoff"] = k, None          # no further centres: a new centre frame could empty a supplied cluster
            c["init"] = None
            c.pop("scale_exp", None)
            c.pop("init_form", None)
            c.pop("hist", None)
            c.pop("buf", None)
            c["form"] = "func" if c.get("form") != "class" else "class"
            c["n_iters"] = rng.randint(1, 3)
            c["dtype"] = "float64"
            c["extras"] = False
        cases.append(c)
    for c in cc.gen_axis_streams(rng, ["kmedoids", "hybrid"], reps=1 if tier == "quick" else 8):
        c["extras"] = True
        cases.append(c)
    # more than 2^16 frames: the group of frames that decides the accept test sits at the end of the array (every
    # run), and at its start / in the middle (in turn)
    wheres = ["end", rng.choice(["start", "middle", "end"])] if tier == "quick" else ["end", "start", "middle"] * 4
    for w in wheres:
        cases.append(cc.gen_big_kmedoids(rng, w))
    # k-hybrid with a callable that does not obey the triangle inequality (squared euclidean distances, arbitrary symmetric
    # tables), mostly built so that a k-centers stage relying on the triangle-inequality bound would end worse than kcenters()
    for i in range(24 if tier == "quick" else 240):
        c = cc.gen_hybrid_nonmetric(rng, mislead=(i % 4 != 3))
        c["extras"] = True
        cases.append(c)
    return cases


def run_impl(c):
    if c["kind"] == "kmedoids_big":
        return cc.run_big(c)
    return cc.run_case(c)


def oracle(c, out):
    if c["kind"] == "kmedoids_big":
        return cc.big_failures(c, out)
    if "err" in out:
        return [cc.err_failure(out)]
    if c.get("init_pts") is not None:
        res = out["res"]
        fails = []
        if not res["centers_are_frames"] or any(not (0 <= i < c["n"]) for i in res["ctrs"]):
            fails.append(("center-not-in-data", "k-hybrid from non-frame initial centres returned a centre that is not the frame at its index"))
        if len(res["ctrs"]) != len(out["kc"]["ctrs"]):
            fails.append(("k-changed", "hybrid k differs from k-centers k"))
        if not out.get("X_unchanged", True):
            fails.append(("input-modified", "data modified"))
        return fails
    fails = cc.inv_failures(out)
    res = out["res"]
    n = c["n"]
    if any(not (0 <= i < n) for i in res["ctrs"]) or not res["centers_are_frames"]:
        fails.append(("center-not-in-data", str(res["ctrs"])))
    if "prefix" in out:
        seq = [p for p in out["prefix"] if p is not None]
        costs = [cc.cost(p) for p in seq]
        if any(b > a for a, b in zip(costs, costs[1:])):
            fails.append(("cost-increased", "costs along the sweeps: %s" % [str(x) for x in costs]))
        ks = {len(p["ctrs"]) for p in seq}
        if len(ks) > 1:
            fails.append(("k-changed", str(sorted(ks))))
        if out.get("repeat_equal") is False:
            fails.append(("not-reproducible", "two runs with the same seed / proposals differ"))
    if c["kind"] == "hybrid":
        if cc.cost(res) > cc.cost(out["kc"]):
            fails.append(("hybrid-worse-than-kcenters", "%s > %s" % (cc.cost(res), cc.cost(out["kc"]))))
        if len(res["ctrs"]) != len(out["kc"]["ctrs"]):
            fails.append(("k-changed", "hybrid k differs from k-centers k"))
    if out.get("chain_equal") is False:
        fails.append(("not-reproducible", "public kmedoids differs from the chained per-sweep run with the same seed"))
    fails += cc.hist_failures(c, out)
    fails += cc.attr_failures(out)
    fails += cc.explicit_failures(c, out)
    return fails


def coq_check(c, out):
    if c["kind"] == "kmedoids_big":
        return None        # 65537..70000 frames: exact integer oracle only
    if c.get("init_pts") is not None:
        return None        # non-frame initial centres are outside the model (frames as centres); oracle only
    return cc.coq_check(c, out)


def coq_show(c):
    if c["kind"] == "kmedoids_big":
        return "tt"
    return cc.coq_show(c)


def _acc_rej(c, out):
    p = out.get("prefix")
    if not p or any(x is None for x in p):
        return False, False
    return any(a != b for a, b in zip(p, p[1:])) or (c["kind"] == "kmedoids" and True), True


def nontrivial(c, out):
    if c["kind"] == "kmedoids_big":
        return "ctrs" in out
    return "res" in out and len(out["res"]["ctrs"]) >= 2 and c["n"] >= 4


def tags(c, out):
    if c["kind"] == "kmedoids_big":
        return ["kmedoids-more-than-65536-frames", "kmedoids-more-than-65536-frames-deciding-group-at-" + c["where"]] + (["impl-error"] if "err" in out else [])
    t = cc.common_tags(c, out)
    if c.get("init_pts") is not None:
        t.append("hybrid-non-frame-init")
    p = out.get("prefix")
    if p and all(x is not None for x in p):
        costs = [cc.cost(x) for x in p]
        if any(b < a for a, b in zip(costs, costs[1:])):
            t.append("some-sweep-lowered-cost")
        if any(b == a for a, b in zip(costs, costs[1:])):
            t.append("some-sweep-changed-nothing")
    return t


ESSENTIAL_TAGS = ["hybrid-non-metric-callable", "hybrid-non-metric-callable-shortcut-bound-wrong", "kmedoids-more-than-65536-frames-deciding-group-at-end", "explicit-proposals-several-sweeps-no-random-state",
                  "estimator-read-attrs-then-refit", "estimator-read-fit_predict-then-refit", "estimator-read-predict-then-refit", "init-estimator", "tiny-scale", "tiny-scale-start-without-centres", "init-list", "init-result", "non-contiguous-data", "buffer-reusing-metric", "estimator-history-kmedoids",
                  "estimator-history-hybrid", "hybrid-non-frame-init", "multi-scale-data", "kmedoids", "hybrid", "start-cold", "start-centers", "start-state", "start-pairs", "explicit-proposals",
                  "random-proposals", "some-sweep-lowered-cost", "some-sweep-changed-nothing", "estimator-form"]
