"""C19: results depend on arguments only, not on history, threads or heap contents.

Part (1): the masked-call discipline for every `where=` call of the tree (translator/sites.py ->
Gen/MaskedSites.v, proved in Proof/MaskedProofs.v / Props/C19.v), and -- round 2 -- write-before-read for
every allocation that does not initialise memory plus the absence of result caches (second scan of
translator/sites.py -> Gen/AllocSites.v, Proof/AllocProofs.v).  Part (2), this module: a fixed
list of numerical routines is re-run under perturbed conditions -- repeated call in one process,
fresh argument objects, preceding allocate-fill-free of same-size blocks (NaN and 0xFF patterns),
OMP_NUM_THREADS 1 vs 8 (two persistent child processes), a young vs an old process -- and must
return bit-identical results and leave its arguments byte-identical.  Round 2 adds the in-place-overwrite
history probe (call on A, overwrite the SAME objects with B, call again, compare with a call on fresh B) for
every routine, the same probe on files rewritten at the same path for the loaders, and NumPy's slice-store
semantics against Model/Alloc.v.  Round 3s adds three streams that do not depend on the translator seeing a change: the builder grid
(`bgrid`: every builder x container x dtype x prior, argument snapshot + call twice + fresh argument), RaggedArray call
histories (`rahist`: observer -> mutator -> observer programs against a freshly constructed array and an unobserved twin)
and the single-feature-pair thread stream (`thr`: joint_counts / mi_matrix on >= 200 000 frames with 1/4/8/16 threads
against pure NumPy counting).
"""
import atexit, copy, hashlib, json, os, shutil, subprocess, sys, tempfile, threading
from fractions import Fraction as F

HERE = os.path.dirname(os.path.abspath(__file__))
HARNESS = os.path.dirname(HERE)
VERIF_DIR = os.path.dirname(HARNESS)
for _p in (HARNESS, os.path.join(VERIF_DIR, "translator")):
    if _p not in sys.path:
        sys.path.insert(0, _p)
import numpy as np

PID = "C19"
PROPS_FILE = "Props/C19.v"
MODEL_TARGETS = ["Model/Masked.vo", "Proof/MaskedProofs.vo", "Gen/MaskedSites.vo",
                 "Model/Alloc.vo", "Proof/AllocProofs.vo", "Gen/AllocSites.vo"]
GEN_FILES = ["Gen/MaskedSites.v", "Gen/AllocSites.v"]
CASE_HEADER = ("From Coq Require Import List ZArith QArith Bool.\nFrom EV Require Import Masked MaskedSites Alloc AllocSites.\n"
               "Import ListNotations.\n")
SHARD = 250
RULE = ("(a) one `sites` case: translator/sites.py scans every .py/.pyx under enspara/ (test excluded); each masked call "
        "must be guarded and the compiled Gen/MaskedSites.v must list the same sites. (b) `ufunc` cases: NumPy's own "
        "where=/out= behaviour (negative/add/subtract/multiply on small integers-as-doubles, with an out buffer, without "
        "one, and with mis-shaped mask/out) against Model/Masked.v, evaluated in Coq. (c) `run` cases: 29 routines "
        "(shannon_entropy, kl_divergence, joint_counts, mutual_information, mi_matrix, weighted_mi, normalize/transpose/"
        "mle, assigns_to_counts, trim_disconnected, eigenspectrum and eq_probs (dense LAPACK path, and the ARPACK path on sparse matrices of >= 1000 states), committors, mfpts, reactive_fluxes, "
        "net_fluxes, reactive_populations, top_path, paths, assign_to_nearest_center, kcenters, libdist euclidean/"
        "manhattan/hamming with and without a poisoned out=, RaggedArray reads and operators) on small integer-valued "
        "inputs with many zero cells; each is executed in a child with OMP_NUM_THREADS=1 and one with 8: base call, "
        "repeat, after freeing NaN-filled / 0xFF-filled blocks of every size occurring in arguments and result (7 per "
        "size = NumPy's per-bucket cache depth), with freshly built arguments, and in a recently started process; all "
        "digests (dtype, shape, raw bytes) must coincide and the argument digest must not change. non-trivial := the "
        "routine returned a value (not an exception) in every condition of both children. Round 2: (a') the same `sites` "
        "case also runs the second scan: every np.empty/np.empty_like/np.ndarray(shape) allocation must be completed by a "
        "recognised store pattern, no result-cache idiom may exist; the compiled Gen/AllocSites.v must list the same sites. "
        "(d) `wbr` cases: random store programs (fill, slice stores, index stores, the cursor loop, the enumerate loop) on "
        "a real NumPy buffer pre-filled with known junk against Model/Alloc.v `run`, and `all_written` against whether two "
        "different junk fillings give the same array. (e) every `run` case carries a second content B of the same shapes: "
        "after the conditions above the argument objects are overwritten IN PLACE with B (ndarray cells, the attribute "
        "dictionary of a sparse matrix, RaggedArray._data), the routine is called again on the same objects and must "
        "return bit-for-bit what it returns on freshly built B. (f) `file` cases: ra.load and load_as_concatenated on files "
        "that are rewritten at the same path (same mtime restored) between two calls, compared with a fresh path. Round 3s: "
        "(g) `bgrid` cases: one count matrix, one builder (normalize/transpose/mle); for every container (ndarray, csr_matrix, "
        "csr_array, csc, coo, lil, dok, bsr, dia) x dtype (int32, int64, float32, float64) x prior_counts (None, a positive scalar, present-but-zero as 0 / 0.0 / "
        "zero matrix (float, int) / zero row, array-valued: float matrix, int matrix, one broadcast row): "
        "snapshot of the argument (type, dtype, values, stored-entry array) before and after each of two calls on the same "
        "object, digest of both results and of the result on a freshly built equal argument -- all equal. (h) `rahist` "
        "cases: a RaggedArray (int64/int32/float64/bool; nested or flat+lengths construction) receives a program of "
        "observers (.starts, .lengths, len/size/shape, flatten, row, a[i, j] with negative rows, tuple-of-index-arrays, "
        "ra.where(a), a[a > k], 2-d slices, a[:, j], a[[rows], c:d], a[i, c:d], row slices, row lists, a[a:b, [cols]]) and "
        "mutators (append of rows / of a RaggedArray / of one row / of a flat list, a[i] = row, a[i, j] = v, tuple-of-arrays "
        "store, 2-d slice store, a[i, c:d] = v, a[a > k] = v); 3 of 5 programs have the form offsets-reading observer -> "
        "append(s) -> 2-d observers; every observation (value or exception type) must equal the same observation on a "
        "RaggedArray newly constructed from the rows the array holds at that point, an observer must leave the array's state "
        "(_data, lengths, rows) unchanged, and after every mutator outcome and state must equal those of a twin that received "
        "the mutators only. (i) `thr` cases: joint_counts(x, y) with 1-d inputs, with (n, 1) inputs, joint_counts(x) alone, "
        "and mi_matrix on one feature column (1-2 trajectories): 2-3 states, 200 000 - 1 000 000 frames (thorough: up to "
        "3 000 000) drawn from a seed (uniform, or 85 % of the frames in state 0), int64/int32; four calls in each of four "
        "children with OMP_NUM_THREADS = 1, 4, 8, 16; every table must equal np.bincount over the pair code (= np.histogram2d) "
        "exactly, every mi value the one computed from that table. non-trivial := (g) some combination returned a value, "
        "(h) an observation returned a value after a successful mutator, (i) all 16 calls returned"
        ", (j) at least two process counts returned a value. (j) `nproc` cases: bace.calcDMat (entered exactly as bace() enters it), bace.bace, bace.baysean_prune, "
        "load_as_concatenated, concatenate_trjs, msm.bootstrap (global NumPy generator re-seeded before every call) with "
        "1, 2, 4 (and 3) worker processes, 2-3 repetitions each, on inputs whose first block of work is by far the most "
        "expensive (block counts where early states have the most partners; first trajectory file 20-90x longer than "
        "the others): digests of every result equal; arguments unchanged; second wave: work lists of 5, 6, 7, 11 (1..6 processes) "
        "and 29, 34 (1, 5, 6, 16 processes) entries for baysean_prune, calcDMat and bace (1, 5, 6) -- lengths the process "
        "count does not divide, where the routines cut more blocks than there are processes. (k) `kcti` cases (4 quick / 16 thorough): "
        "kcenters(use_triangle_inequality=True) on 1000-5000 integer-valued frames in 3-8 well separated blobs (most frames are skipped by the "
        "shortcut), 8-12 centers, with a caller-supplied Manhattan metric that returns float32 and, while it works, allocates, fills and frees an "
        "8n-byte scratch vector; the call is repeated with the scratch (and 28 blocks freed just before the call) holding nothing / NaN / -1 / 0 / 7.5, "
        "in the long-lived child and in a fresh one: centers, distances and assignments of all 14 runs equal; non-trivial := the metric was asked "
        "for a proper subset of the frames at least once. (l) `seeded` cases (20 quick / 120 thorough): the routines that take `random_state` "
        "-- kmedoids (cold start and warm start from given centre indices), hybrid, KHybrid(...).fit, KCenters(...).fit, mpi.ops.randind -- on "
        "16-60 integer-valued frames, 3-6 centres, called with the integer seed 0 and with another seed (1, 7, 12345, 2^31-5, 2^32-1; as int / "
        "np.int64 / np.int32), each five times in one process after different histories of the process-wide generators (np.random.seed(a) and "
        "random.seed(a) with 0-5 draws consumed, seed b with 0-1000 draws, seed a again with more draws, or left as the previous call left "
        "them): centres, distances and assignments (or the exception type) of the five runs with the same seed equal; the data argument "
        "unchanged; non-trivial := all ten runs returned a value.")

TRUSTED = ["translator/sites.py: the `where=` scan (ast for .py, token scan + per-call parse for .pyx), its tables of ufunc / "
           "reduction / allocator names, and the rule that a where= passed through **kwargs or a partial is not seen",
           "heap perturbation is best effort: it relies on NumPy's small-block cache (< 1024 bytes, exact size buckets) and "
           "glibc's tcache handing a just-freed block to the next request of that size; reproduced D14 50/50 with it",
           "modelled not verified: broadcasting (arrays are flattened to a common shape), NumPy's ufunc inner loops",
           "OMP thread count is set through the environment of two child processes (1 and 8)",
           "translator/sites.py second scan: its list of uninitialising allocators (np.empty, empty_like, ndarray(shape), "
           "masked_all, as_strided; malloc & co / C stack arrays in .pyx), the statement-shape recognisers for the five "
           "completion patterns, and the rule that the buffer may not be mentioned in between except for metadata",
           "MPI semantics (not run here): Bcast/Recv/Allgather fill the whole receive buffer with the message",
           "the cache scan is syntactic: lru_cache-style decorators, id(), identifiers containing cache/memo, module-level "
           "dict/list mutated from functions, mutable defaults stored into, `global` outside the pool-initialiser idiom; "
           "instance attributes holding earlier results under other names are seen only by the overwrite probe",
           "in-place overwrite of a scipy sparse matrix = replacing its attribute dictionary (object identity kept); of a "
           "RaggedArray = overwriting the cells of its _data (and of _array where that holds copies of the rows)",
           "rahist: 'the rows the array holds' are read from its _data and lengths attributes; the freshly constructed "
           "comparison array is constructed in the same form as the array under test (RaggedArray(list of row copies) or "
           "RaggedArray(elements, lengths=[...])) -- the two forms are different arguments: with equally long rows the first "
           "returns rows of dtype object, the second typed rows; after a mutator ran, agreement with either form counts; "
           "skipped when _data is not a 1-d non-object array or a row is empty",
           "thr: a lost update needs threads that really run concurrently; 16 calls x >= 200 000 frames x 2-3 states per case "
           "made every one of 24 multi-thread call groups lose counts on the seeded kernel, but this is a test, not a proof"]
ASSUMPTIONS = ["masked operations: operands, mask and out already broadcast to one shape",
               "process-pool code paths (n_procs > 1): exercised by the `nproc` stream for bace (calcDMat, baysean_prune, bace), "
               "load_as_concatenated, concatenate_trjs and msm.bootstrap with 1/2/4(/3) processes; pockets, the smFRET dye "
               "routines, save_states and cluster.util.batch_reassign (joblib/pool over trajectory files) are not run"]

_repo = os.environ.get("ENSPARA_REPO", "/repo")


def translate(repo):
    import sites
    return sites.translate(repo)


# ============================================================================ canonical digests
def _canon(o):
    """Deterministic nested description of a value; arrays by dtype/shape/raw bytes."""
    import scipy.sparse as sp
    if o is None or isinstance(o, (bool, str)):
        return o
    if isinstance(o, int):
        return ["i", str(o)]
    if isinstance(o, float):
        return ["f", o.hex()]
    if isinstance(o, complex):
        return ["c", o.real.hex(), o.imag.hex()]
    if isinstance(o, np.generic):
        return ["g", str(o.dtype), o.tobytes().hex()]
    if isinstance(o, np.ndarray):
        if o.dtype == object:
            return ["obj", list(o.shape), [_canon(x) for x in o.ravel().tolist()]]
        b = np.ascontiguousarray(o).tobytes()
        return ["nd", str(o.dtype), list(o.shape), b.hex() if len(b) <= 64 else "sha:" + hashlib.sha256(b).hexdigest()]
    if sp.issparse(o):
        return ["sp", type(o).__name__, _canon(np.asarray(o.toarray()))]
    if type(o).__name__ == "RaggedArray":
        return ["ra", _canon(np.asarray(o._data)), _canon(np.asarray(o.lengths))]
    if type(o).__name__ == "TrimMapping":
        return ["tm", sorted([int(k), int(v)] for k, v in o.to_original.items())]
    if isinstance(o, dict):
        return ["d", [[str(k), _canon(v)] for k, v in sorted(o.items(), key=lambda kv: str(kv[0]))]]
    if isinstance(o, (list, tuple)):
        return ["l", [_canon(x) for x in o]]
    return ["uncanonical", type(o).__name__]


def _digest(o):
    return hashlib.sha256(json.dumps(_canon(o), sort_keys=True).encode()).hexdigest()[:20]


def _preview(o, depth=0):
    import scipy.sparse as sp
    if sp.issparse(o):
        o = o.toarray()
    if type(o).__name__ == "RaggedArray":
        return {"ra": _preview(np.asarray(o._data)), "lengths": [int(x) for x in o.lengths]}
    if type(o).__name__ == "TrimMapping":
        return sorted([int(k), int(v)] for k, v in o.to_original.items())
    if isinstance(o, np.ndarray):
        if o.size > 24:
            return "array%s %s" % (list(o.shape), o.dtype)
        return o.tolist() if o.dtype != object else [_preview(x, depth + 1) for x in o.ravel()]
    if isinstance(o, (list, tuple)):
        return [_preview(x, depth + 1) for x in list(o)[:8]]
    if isinstance(o, (np.generic,)):
        return o.item()
    if isinstance(o, (int, float, str, bool)) or o is None:
        return o
    return str(type(o).__name__)


def _arrays_in(o, acc):
    import scipy.sparse as sp
    if isinstance(o, np.ndarray):
        acc.append(o)
    elif sp.issparse(o):
        acc.append(np.asarray(o.toarray()))
    elif type(o).__name__ == "RaggedArray":
        acc.append(np.asarray(o._data))
        acc.append(np.asarray(o.lengths))
    elif isinstance(o, dict):
        for v in o.values():
            _arrays_in(v, acc)
    elif isinstance(o, (list, tuple)):
        for v in o:
            _arrays_in(v, acc)
    return acc


# ============================================================================ heap perturbation
def _sizes(objs):
    counts = set()
    for a in _arrays_in(objs, []):
        counts.add(int(a.size))
        prod = 1
        for d in a.shape:
            counts.add(int(d))
            prod *= int(d)
            counts.add(prod)
        prod = 1
        for d in reversed(a.shape):
            prod *= int(d)
            counts.add(prod)
    sizes = set()
    for n in counts:
        if n <= 0:
            continue
        for item in (1, 4, 8, 16):
            if n * item <= 65536:
                sizes.add(n * item)
    return sorted(sizes)[:160]


def _poison(sizes, pattern):
    """allocate, fill and free 7 blocks of every size: NumPy's small-block cache (exact-size buckets of depth 7) and
    the C allocator then hand these blocks to the next requests of the same size."""
    blocks = []
    for nb in sizes:
        for _ in range(7):
            if pattern == "nan" and nb % 8 == 0:
                blocks.append(np.full(nb // 8, np.nan))
            else:
                b = np.empty(nb, dtype=np.uint8)
                b.fill(0xFF)
                blocks.append(b)
    del blocks


# ============================================================================ the routines
# name -> (generator(rng) -> params, build(params) -> args dict, call(args) -> value)
def _ri(rng, lo, hi):
    return rng.randint(lo, hi)


def _counts_matrix(rng, n, zero_p=0.3, hi=9, connected=True):
    C = [[0 if rng.random() < zero_p else rng.randint(1, hi) for _ in range(n)] for _ in range(n)]
    if connected:
        for i in range(n):
            C[i][(i + 1) % n] = max(1, C[i][(i + 1) % n])
            C[(i + 1) % n][i] = max(1, C[(i + 1) % n][i])
            C[i][i] = max(1, C[i][i])
    return C


def _tprob(C):
    C = np.array(C, dtype=float)
    return C / C.sum(axis=1)[:, None]


def _rev_tprob(C):
    C = np.array(C, dtype=float)
    C = C + C.T
    return C / C.sum(axis=1)[:, None], C.sum(axis=1) / C.sum()


def _container(fmt, M):
    import scipy.sparse as sp
    if fmt == "dense":
        return M
    if fmt.endswith("_array") or fmt.endswith("_matrix"):
        return getattr(sp, fmt)(M)
    return sp.coo_matrix(M).asformat(fmt)


def g_entropy(rng):
    n = rng.choice([2, 3, 5, 8, 8, 13, 16])
    two_d = rng.random() < 0.25
    rows = 3 if two_d else 1
    counts = [rng.choice([0, 0, 1, 2, 3, 5]) for _ in range(n * rows)]
    if sum(counts) == 0:
        counts[rng.randrange(len(counts))] = 2
    return {"counts": counts, "shape": [rows, n] if two_d else [n], "normalize": rng.random() < 0.4}


def b_entropy(p):
    a = np.array(p["counts"], dtype=float).reshape(p["shape"])
    # normalize=True is documented as "not in place; duplicates p": hand it unnormalised counts
    return {"p": a if p["normalize"] else a / a.sum()}


def c_entropy(a, p):
    from enspara.info_theory import entropy as E
    return E.shannon_entropy(a["p"], normalize=p["normalize"])


def g_kl(rng):
    n = rng.choice([2, 3, 5, 8])
    rows = rng.choice([1, 1, 2, 3])
    mk = lambda: [[rng.choice([0, 1, 1, 2, 3]) for _ in range(n)] for _ in range(rows)]
    P, Q = mk(), mk()
    for M in (P, Q):
        for r in M:
            if sum(r) == 0:
                r[0] = 1
    return {"P": P, "Q": Q, "base": rng.choice([2, 10]), "oned": rows == 1 and rng.random() < 0.5}


def b_kl(p):
    P = np.array(p["P"], dtype=float)
    Q = np.array(p["Q"], dtype=float)
    P /= P.sum(axis=1)[:, None]
    Q /= Q.sum(axis=1)[:, None]
    if p["oned"]:
        P, Q = P[0].copy(), Q[0].copy()
    return {"P": P, "Q": Q}


def c_kl(a, p):
    from enspara.info_theory import entropy as E
    return E.kl_divergence(a["P"], a["Q"], base=p["base"])


def g_jc(rng):
    T = rng.choice([1, 3, 8, 20])
    fx, fy = rng.choice([1, 2, 3]), rng.choice([1, 2, 3])
    nx, ny = rng.choice([2, 3, 4]), rng.choice([2, 3, 4])
    return {"X": [[rng.randrange(nx) for _ in range(fx)] for _ in range(T)],
            "Y": None if rng.random() < 0.3 else [[rng.randrange(ny) for _ in range(fy)] for _ in range(T)],
            "nx": nx, "ny": ny, "dtype": rng.choice(["int64", "int32", "int16"])}


def b_jc(p):
    d = {"X": np.array(p["X"], dtype=p["dtype"])}
    if p["Y"] is not None:
        d["Y"] = np.array(p["Y"], dtype=p["dtype"])
    return d


def c_jc(a, p):
    from enspara.info_theory import mutual_info as M
    if "Y" in a:
        return M.joint_counts(a["X"], a["Y"], p["nx"], p["ny"])
    return M.joint_counts(a["X"], None, p["nx"])


def g_mi(rng):
    fa, fb = rng.choice([1, 2, 3]), rng.choice([1, 2, 3])
    nx, ny = rng.choice([2, 3]), rng.choice([2, 3, 4])
    jc = []
    for i in range(fa):
        row = []
        for j in range(fb):
            if rng.random() < 0.35:
                row.append([[0] * ny for _ in range(nx)])     # never-observed feature pair: masked-out cells
            else:
                row.append([[rng.choice([0, 0, 1, 2, 5]) for _ in range(ny)] for _ in range(nx)])
        jc.append(row)
    return {"jc": jc, "dtype": rng.choice(["int64", "uint32", "float64"])}


def b_mi(p):
    return {"jc": np.array(p["jc"], dtype=p["dtype"])}


def c_mi(a, p):
    from enspara.info_theory import mutual_info as M
    return M.mutual_information(a["jc"])


def g_mimat(rng):
    f = rng.choice([1, 2, 3])
    n = rng.choice([2, 3])
    ntr = rng.choice([1, 2, 3])
    # feature f-1 never leaves state 0 in some cases -> zero cells
    mk = lambda T: [[(0 if (k == f - 1 and rng.random() < 0.5) else rng.randrange(n)) for k in range(f)] for _ in range(T)]
    lens = [rng.choice([2, 5, 9]) for _ in range(ntr)]
    return {"Xs": [mk(T) for T in lens], "Ys": [mk(T) for T in lens], "n": n, "f": f, "normalize": rng.random() < 0.5}


def b_mimat(p):
    return {"Xs": [np.array(x) for x in p["Xs"]], "Ys": [np.array(y) for y in p["Ys"]],
            "n_x": np.full(p["f"], p["n"]), "n_y": np.full(p["f"], p["n"])}


def c_mimat(a, p):
    from enspara.info_theory import mutual_info as M
    return M.mi_matrix(a["Xs"], a["Ys"], a["n_x"], a["n_y"], normalize=p["normalize"])


def g_wmi(rng):
    T = rng.choice([3, 6, 10])
    f = rng.choice([2, 3])
    n = rng.choice([2, 3])
    feats = [[rng.randrange(n) for _ in range(f)] for _ in range(T)]
    if rng.random() < 0.5:
        for r in feats:
            r[0] = 0                 # a state that is never visited: zero marginals, masked-out cells
    w = [rng.choice([0, 1, 1, 2, 3]) for _ in range(T)]
    if sum(w) == 0:
        w[0] = 1
    return {"features": feats, "w": w, "n": n, "given_states": rng.random() < 0.6, "normalize": rng.random() < 0.5}


def b_wmi(p):
    w = np.array(p["w"], dtype=float)
    return {"features": np.array(p["features"]), "weights": w / w.sum()}


def c_wmi(a, p):
    from enspara.info_theory import mutual_info as M
    nfs = [p["n"]] * a["features"].shape[1] if p["given_states"] else None
    return M.weighted_mi(a["features"], a["weights"], n_feature_states=nfs, normalize=p["normalize"])


def g_builder(rng):
    n = rng.choice([2, 3, 4, 6])
    return {"C": _counts_matrix(rng, n), "fmt": rng.choice(["dense", "dense", "csr", "csr", "csr_array", "coo", "lil", "csc"]),
            "prior": rng.choice([None, None, None, 0.5, 1]), "eq": rng.random() < 0.8,
            "dtype": rng.choice(["int64", "int32", "float64", "float64", "float32"])}


def b_builder(p):
    # counts kept in an integer type (what assigns_to_counts produces) or in a floating-point type (weighted /
    # rescaled counts): conversions such as asfptype() copy in the first case only
    C = np.array(p["C"], dtype=p.get("dtype") or (float if p["fmt"] == "dense" else int))
    return {"C": _container(p["fmt"], C)}


def _builder_call(name):
    def call(a, p):
        from enspara.msm import builders
        return getattr(builders, name)(a["C"], prior_counts=p["prior"], calculate_eq_probs=p["eq"])
    return call


def g_a2c(rng):
    ntr = rng.choice([1, 2, 3])
    n = rng.choice([2, 3, 5])
    trjs = [[rng.randrange(n) for _ in range(rng.choice([2, 4, 7, 12]))] for _ in range(ntr)]
    return {"trjs": trjs, "lag": rng.choice([1, 1, 2, 3]), "sliding": rng.random() < 0.6,
            "maxn": rng.choice([None, n, n + 2]), "form": rng.choice(["ragged", "padded"])}


def b_a2c(p):
    from enspara.ra.ra import RaggedArray
    if p["form"] == "ragged":
        return {"assigns": RaggedArray(p["trjs"])}
    L = max(len(t) for t in p["trjs"])
    return {"assigns": np.array([t + [-1] * (L - len(t)) for t in p["trjs"]])}


def c_a2c(a, p):
    from enspara.msm.transition_matrices import assigns_to_counts
    return assigns_to_counts(a["assigns"], p["lag"], max_n_states=p["maxn"], sliding_window=p["sliding"])


def g_trim(rng):
    n = rng.choice([3, 4, 6])
    return {"C": _counts_matrix(rng, n, zero_p=0.6, connected=False), "thr": rng.choice([1, 1, 2, 3]),
            "ren": rng.random() < 0.6, "fmt": rng.choice(["dense", "csr", "lil", "coo"])}


def b_trim(p):
    return {"counts": _container(p["fmt"], np.array(p["C"]))}


def c_trim(a, p):
    from enspara.msm.transition_matrices import trim_disconnected
    return trim_disconnected(a["counts"], threshold=p["thr"], renumber_states=p["ren"])


def g_eig(rng):
    n = rng.choice([2, 3, 5, 7])
    return {"C": _counts_matrix(rng, n), "fmt": rng.choice(["dense", "dense", "csr"]), "n_eigs": rng.choice([None, 2, 3]),
            "left": rng.random() < 0.7}


def b_eig(p):
    return {"T": _container(p["fmt"], _tprob(p["C"]))}


def c_eig(a, p):
    from enspara.msm.transition_matrices import eigenspectrum
    ne = p["n_eigs"] if p["n_eigs"] is None else min(p["n_eigs"], a["T"].shape[0])
    return eigenspectrum(a["T"], n_eigs=ne, left=p["left"])


def c_eqp(a, p):
    from enspara.msm.transition_matrices import eq_probs
    return eq_probs(a["T"])


def g_arpack(rng):
    # >= 1000 states and sparse: the only inputs for which eigenspectrum takes the ARPACK route
    return {"n": rng.choice([1000, 1040, 1100]), "seed": rng.randrange(10 ** 6), "n_eigs": rng.choice([2, 3, 4]),
            "which": rng.choice(["eq_probs", "eigenspectrum"])}


def b_arpack(p):
    import scipy.sparse as sp
    n = p["n"]
    rs = np.random.RandomState(p["seed"])
    i = np.arange(n)
    rows = np.concatenate([i, i, i, rs.randint(0, n, 3 * n)])
    cols = np.concatenate([i, (i + 1) % n, (i - 1) % n, rs.randint(0, n, 3 * n)])
    vals = rs.randint(1, 9, len(rows)).astype(float)
    C = sp.coo_matrix((vals, (rows, cols)), shape=(n, n)).tocsr()
    C = (C + C.T).tocsr()
    d = np.asarray(C.sum(axis=1)).ravel()
    return {"T": sp.csr_matrix(sp.diags(1.0 / d) @ C)}


def c_arpack(a, p):
    from enspara.msm.transition_matrices import eigenspectrum, eq_probs
    if p["which"] == "eq_probs":
        return eq_probs(a["T"])
    return eigenspectrum(a["T"], n_eigs=p["n_eigs"])


def g_tpt(rng):
    n = rng.choice([3, 4, 5, 7])
    nodes = list(range(n))
    rng.shuffle(nodes)
    ks, kt = rng.choice([1, 1, 2]), rng.choice([1, 1, 2])
    if ks + kt > n:
        ks = kt = 1
    return {"C": _counts_matrix(rng, n), "src": nodes[:ks], "snk": nodes[n - kt:], "fmt": rng.choice(["dense", "dense", "csr"]),
            "pops": rng.random() < 0.5, "lag": rng.choice([1, 2, 10])}


def b_tpt(p):
    T, pi = _rev_tprob(p["C"])
    d = {"T": _container(p["fmt"], T), "src": list(p["src"]), "snk": list(p["snk"])}
    if p["pops"]:
        d["pops"] = pi
    return d


def c_comm(a, p):
    from enspara.tpt import committors
    return committors(a["T"], a["src"], a["snk"])


def c_mfpt_s(a, p):
    from enspara.tpt import mfpts
    return mfpts(a["T"], sinks=a["snk"], lagtime=float(p["lag"]))


def c_mfpt_a(a, p):
    from enspara.tpt import mfpts
    return mfpts(a["T"], populations=a.get("pops"), lagtime=float(p["lag"]))


def _tpt_call(name):
    def call(a, p):
        from enspara.tpt import tpt
        return getattr(tpt, name)(a["T"], a["src"], a["snk"], populations=a.get("pops"))
    return call


def g_paths(rng):
    p = g_tpt(rng)
    p["fmt"] = "dense"
    p["scheme"] = rng.choice(["subtract", "bottleneck"])
    p["num_paths"] = rng.choice([1, 2, 5])
    return p


def b_paths(p):
    from enspara.tpt import tpt
    T, pi = _rev_tprob(p["C"])
    nf = np.asarray(tpt.net_fluxes(T, list(p["src"]), list(p["snk"]), populations=pi), dtype=float)
    return {"nf": nf, "src": list(p["src"]), "snk": list(p["snk"])}


def c_top_path(a, p):
    from enspara.tpt import path as P
    return P.top_path(a["src"], a["snk"], a["nf"])


def c_paths(a, p):
    from enspara.tpt import path as P
    return P.paths(a["src"], a["snk"], a["nf"], remove_path=p["scheme"], num_paths=p["num_paths"])


def g_cluster(rng):
    n = rng.choice([3, 6, 10, 17])
    d = rng.choice([1, 2, 3])
    X = [[rng.randint(-3, 3) for _ in range(d)] for _ in range(n)]
    k = rng.randint(1, min(n, 4))
    return {"X": X, "k": k, "centers": sorted(rng.sample(range(n), k)), "metric": rng.choice(["euclidean", "manhattan"]),
            "dtype": rng.choice(["float64", "float32"]), "cutoff": rng.choice([None, None, 1.5]),
            "ti": rng.random() < 0.3}


def b_cluster(p):
    X = np.array(p["X"], dtype=p["dtype"])
    return {"X": X, "centers": X[p["centers"]].copy()}


def c_assign(a, p):
    from enspara.cluster import util
    return util.assign_to_nearest_center(a["X"], a["centers"], util._get_distance_method(p["metric"]))


def c_kcenters(a, p):
    from enspara.cluster import kcenters as KC
    kw = {"n_clusters": p["k"]}
    if p["cutoff"] is not None:
        kw["dist_cutoff"] = p["cutoff"]
    r = KC.kcenters(a["X"], p["metric"], use_triangle_inequality=p["ti"], **kw)
    return [r.center_indices, r.distances, r.assignments, r.centers]


def g_dist(rng):
    if rng.random() < 0.25:
        # rounding-sensitive input: one or two rows, thousands of features, one huge coordinate followed by
        # ones -- any change of the summation order (a reduction over features split across threads) changes
        # the last bits of the result, so thread-count dependence becomes visible in a byte comparison
        d = rng.choice([1500, 4097])
        row = [2 ** 27] + [1] * (d - 1)
        rows = [row] if rng.random() < 0.6 else [row, [1] * (d - 1) + [2 ** 27]]
        return {"X": rows, "y": [0] * d, "dtype": "float64", "out": rng.choice(["none", "zeros"])}
    n = rng.choice([1, 4, 9, 33])
    d = rng.choice([1, 2, 5])
    return {"X": [[rng.randint(-4, 4) for _ in range(d)] for _ in range(n)], "y": [rng.randint(-4, 4) for _ in range(d)],
            "dtype": rng.choice(["float64", "float32"]), "out": rng.choice(["none", "nan", "ff", "zeros", "big"])}


def g_dist_int(rng):
    p = g_dist(rng)
    p["dtype"] = rng.choice(["int64", "int32"])
    return p


def b_dist(p):
    return {"X": np.array(p["X"], dtype=p["dtype"]), "y": np.array(p["y"], dtype=p["dtype"])}


def _dist_call(name):
    def call(a, p):
        from enspara.geometry import libdist
        fn = getattr(libdist, name)
        n = len(a["X"])
        mode = p["out"]
        if mode == "none":
            return fn(a["X"], a["y"])
        if mode == "nan":
            out = np.full(n, np.nan)
        elif mode == "ff":
            out = np.empty(n, dtype=np.float64)
            out.view(np.uint8).fill(0xFF)
        elif mode == "zeros":
            out = np.zeros(n)
        else:
            out = np.full(n, 1e300)
        r = fn(a["X"], a["y"], out=out)
        # documented in-place: `out` receives the distances and is what is returned
        return [np.asarray(r).reshape(-1), out, bool(np.shares_memory(r, out))]
    return call


def c_dist_noout_vs_out(a, p):
    """the same kernel without out=: must equal the value written into a poisoned out="""
    from enspara.geometry import libdist
    res = []
    for name in ("euclidean", "manhattan", "hamming"):
        fn = getattr(libdist, name)
        n = len(a["X"])
        X, y = (a["X"].astype(np.int64), a["y"].astype(np.int64)) if name == "hamming" else (a["X"], a["y"])
        poisoned = np.full(n, np.nan)
        fn(X, y, out=poisoned)
        plain = np.asarray(fn(X, y)).reshape(-1)
        res.append([plain, poisoned, bool(np.array_equal(plain, poisoned))])
    return res


def g_ra(rng):
    nrows = rng.choice([1, 2, 3, 5])
    lens = [rng.choice([1, 2, 3, 5]) for _ in range(nrows)]
    rows = [[rng.randint(-3, 6) for _ in range(L)] for L in lens]
    i = rng.randrange(nrows)
    return {"rows": rows, "dtype": rng.choice(["int64", "float64"]), "i": i, "j": rng.randrange(lens[i]),
            "op": rng.choice(["row", "cell", "colslice", "rowslice", "rowlist", "mask", "add", "mul", "radd", "sub", "gt", "eq",
                              "truediv", "flatten", "max", "where", "addra", "neg_index", "pow"]),
            "k": rng.choice([1, 2, 3])}


def b_ra(p):
    from enspara.ra.ra import RaggedArray
    flat = np.array([x for r in p["rows"] for x in r], dtype=p["dtype"])
    return {"a": RaggedArray(flat, lengths=[len(r) for r in p["rows"]])}


def c_ra(a, p):
    from enspara.ra import ra as R
    A = a["a"]
    op, i, j, k = p["op"], p["i"], p["j"], p["k"]
    if op == "row":
        return A[i]
    if op == "cell":
        return A[i, j]
    if op == "colslice":
        return A[:, :k]
    if op == "rowslice":
        return A[i:]
    if op == "rowlist":
        return A[[i, 0]]
    if op == "mask":
        return A[A > 1] if bool((A > 1).any()) else A[A > -100]
    if op == "add":
        return A + k
    if op == "radd":
        return k + A
    if op == "sub":
        return A - k
    if op == "mul":
        return A * A
    if op == "pow":
        return A ** 2
    if op == "addra":
        return A + A
    if op == "gt":
        return A > k
    if op == "eq":
        return A == k
    if op == "truediv":
        return A / 2
    if op == "flatten":
        return A.flatten()
    if op == "max":
        return [A.max(), A.min(), A.any(), A.all()]
    if op == "where":
        return R.where(A > 0)
    if op == "neg_index":
        return A[-1]
    raise KeyError(op)



# ============================================================================ content B of the same shapes
def _redraw_C(rng, p, **kw):
    q = copy.deepcopy(p)
    q["C"] = _counts_matrix(rng, len(p["C"]), **kw)
    return q


def v_entropy(rng, p):
    q = copy.deepcopy(p)
    q["counts"] = [rng.choice([0, 0, 1, 2, 3, 5]) for _ in p["counts"]]
    if sum(q["counts"]) == 0:
        q["counts"][rng.randrange(len(q["counts"]))] = 2
    return q


def v_kl(rng, p):
    q = copy.deepcopy(p)
    for key in ("P", "Q"):
        q[key] = [[rng.choice([0, 1, 1, 2, 3]) for _ in r] for r in p[key]]
        for r in q[key]:
            if sum(r) == 0:
                r[0] = 1
    return q


def v_jc(rng, p):
    q = copy.deepcopy(p)
    q["X"] = [[rng.randrange(p["nx"]) for _ in r] for r in p["X"]]
    if p["Y"] is not None:
        q["Y"] = [[rng.randrange(p["ny"]) for _ in r] for r in p["Y"]]
    return q


def v_mi(rng, p):
    q = copy.deepcopy(p)
    q["jc"] = [[[[0 for _ in row] for row in blk] if rng.random() < 0.35 else
                [[rng.choice([0, 0, 1, 2, 5]) for _ in row] for row in blk] for blk in fr] for fr in p["jc"]]
    return q


def v_mimat(rng, p):
    q = copy.deepcopy(p)
    f, n = p["f"], p["n"]
    mk = lambda T: [[(0 if (k == f - 1 and rng.random() < 0.5) else rng.randrange(n)) for k in range(f)] for _ in range(T)]
    q["Xs"] = [mk(len(x)) for x in p["Xs"]]
    q["Ys"] = [mk(len(y)) for y in p["Ys"]]
    return q


def v_wmi(rng, p):
    q = copy.deepcopy(p)
    q["features"] = [[rng.randrange(p["n"]) for _ in r] for r in p["features"]]
    if rng.random() < 0.5:
        for r in q["features"]:
            r[0] = 0
    q["w"] = [rng.choice([0, 1, 1, 2, 3]) for _ in p["w"]]
    if sum(q["w"]) == 0:
        q["w"][0] = 1
    return q


def v_a2c(rng, p):
    q = copy.deepcopy(p)
    n = max(max(t) for t in p["trjs"]) + 1
    q["trjs"] = [[rng.randrange(n) for _ in t] for t in p["trjs"]]
    return q


def v_arpack(rng, p):
    q = copy.deepcopy(p)
    q["seed"] = rng.randrange(10 ** 6)
    return q


def v_cluster(rng, p):
    q = copy.deepcopy(p)
    q["X"] = [[rng.randint(-3, 3) for _ in r] for r in p["X"]]
    return q


def v_dist(rng, p):
    q = copy.deepcopy(p)
    d = len(p["y"])
    if d >= 1000:
        # keep the input rounding-sensitive: the huge coordinate moves to another column
        rows = []
        for _ in p["X"]:
            k = rng.randrange(d)
            rows.append([1] * k + [2 ** 27] + [1] * (d - 1 - k))
        q["X"] = rows
        q["y"] = [rng.choice([0, 1]) for _ in range(d)] if rng.random() < 0.5 else [0] * d
    else:
        q["X"] = [[rng.randint(-4, 4) for _ in r] for r in p["X"]]
        q["y"] = [rng.randint(-4, 4) for _ in p["y"]]
    return q


def v_ra(rng, p):
    q = copy.deepcopy(p)
    q["rows"] = [[rng.randint(-3, 6) for _ in r] for r in p["rows"]]
    return q


v_builder = lambda rng, p: _redraw_C(rng, p)
v_trim = lambda rng, p: _redraw_C(rng, p, zero_p=0.6, connected=False)

VARY = {
    "shannon_entropy": v_entropy, "kl_divergence": v_kl, "joint_counts": v_jc, "mutual_information": v_mi,
    "mi_matrix": v_mimat, "weighted_mi": v_wmi, "builders.normalize": v_builder, "builders.transpose": v_builder,
    "builders.mle": v_builder, "assigns_to_counts": v_a2c, "trim_disconnected": v_trim, "eigenspectrum": v_builder,
    "eq_probs": v_builder, "eigenspectrum.arpack": v_arpack, "committors": v_builder, "mfpts_sinks": v_builder,
    "mfpts_all": v_builder, "reactive_fluxes": v_builder, "net_fluxes": v_builder, "reactive_populations": v_builder,
    "top_path": v_builder, "paths": v_builder, "assign_to_nearest_center": v_cluster, "kcenters": v_cluster,
    "libdist.euclidean": v_dist, "libdist.manhattan": v_dist, "libdist.hamming": v_dist, "libdist.out_vs_noout": v_dist,
    "RaggedArray.ops": v_ra,
}


def _overwrite(dst, src):
    """Give the object `dst` the contents of `src` without changing its identity.  False when the two do not have the
    same layout (then the probe is not applied)."""
    import scipy.sparse as sp
    if isinstance(dst, np.ndarray):
        if not isinstance(src, np.ndarray) or dst.shape != src.shape or dst.dtype != src.dtype or dst.dtype == object:
            return False
        dst[...] = src
        return True
    if sp.issparse(dst):
        if type(dst) is not type(src) or dst.shape != src.shape:
            return False
        new = copy.deepcopy(src.__dict__)
        dst.__dict__.clear()
        dst.__dict__.update(new)
        return True
    if type(dst).__name__ == "RaggedArray":
        if type(src) is not type(dst) or list(dst.lengths) != list(src.lengths) or dst._data.dtype != src._data.dtype \
                or dst._data.shape != src._data.shape or dst._data.dtype == object:
            return False
        same_rows = lambda: all(np.array_equal(np.asarray(a), np.asarray(b)) for a, b in zip(dst._array, src._array))
        dst._data[...] = src._data                 # rows that are views of _data follow
        if not same_rows() and isinstance(dst._array, np.ndarray) and isinstance(src._array, np.ndarray) \
                and dst._array.shape == src._array.shape and dst._array.dtype == src._array.dtype:
            dst._array[...] = copy.deepcopy(src._array)     # rows held as copies (equal row lengths): overwritten as well
        return same_rows()
    if isinstance(dst, dict):
        return isinstance(src, dict) and sorted(dst) == sorted(src) and all(_overwrite(dst[k], src[k]) for k in sorted(dst))
    if isinstance(dst, (list, tuple)):
        return isinstance(src, type(dst)) and len(dst) == len(src) and all(_overwrite(a, b) for a, b in zip(dst, src))
    return type(dst) is type(src) and dst == src


ROUTINES = {
    "shannon_entropy": (g_entropy, b_entropy, c_entropy),
    "kl_divergence": (g_kl, b_kl, c_kl),
    "joint_counts": (g_jc, b_jc, c_jc),
    "mutual_information": (g_mi, b_mi, c_mi),
    "mi_matrix": (g_mimat, b_mimat, c_mimat),
    "weighted_mi": (g_wmi, b_wmi, c_wmi),
    "builders.normalize": (g_builder, b_builder, _builder_call("normalize")),
    "builders.transpose": (g_builder, b_builder, _builder_call("transpose")),
    "builders.mle": (g_builder, b_builder, _builder_call("mle")),
    "assigns_to_counts": (g_a2c, b_a2c, c_a2c),
    "trim_disconnected": (g_trim, b_trim, c_trim),
    "eigenspectrum": (g_eig, b_eig, c_eig),
    "eq_probs": (g_eig, b_eig, c_eqp),
    "eigenspectrum.arpack": (g_arpack, b_arpack, c_arpack),
    "committors": (g_tpt, b_tpt, c_comm),
    "mfpts_sinks": (g_tpt, b_tpt, c_mfpt_s),
    "mfpts_all": (g_tpt, b_tpt, c_mfpt_a),
    "reactive_fluxes": (g_tpt, b_tpt, _tpt_call("reactive_fluxes")),
    "net_fluxes": (g_tpt, b_tpt, _tpt_call("net_fluxes")),
    "reactive_populations": (g_tpt, b_tpt, _tpt_call("reactive_populations")),
    "top_path": (g_paths, b_paths, c_top_path),
    "paths": (g_paths, b_paths, c_paths),
    "assign_to_nearest_center": (g_cluster, b_cluster, c_assign),
    "kcenters": (g_cluster, b_cluster, c_kcenters),
    "libdist.euclidean": (g_dist, b_dist, _dist_call("euclidean")),
    "libdist.manhattan": (g_dist, b_dist, _dist_call("manhattan")),
    "libdist.hamming": (g_dist_int, b_dist, _dist_call("hamming")),
    "libdist.out_vs_noout": (g_dist, b_dist, c_dist_noout_vs_out),
    "RaggedArray.ops": (g_ra, b_ra, c_ra),
}
# routines whose inputs are built to contain cells the masked operations skip
MASKED_ROUTINES = {"shannon_entropy", "mutual_information", "weighted_mi"}
SLOW = {"eigenspectrum.arpack"}
WEIGHT = {"shannon_entropy": 3, "mutual_information": 3, "weighted_mi": 2, "mi_matrix": 2, "RaggedArray.ops": 3,
          "libdist.euclidean": 2, "libdist.manhattan": 2, "libdist.hamming": 2}


def _run_once(call, args, params):
    try:
        v = call(args, params)
    except Exception as ex:
        return {"err": type(ex).__name__, "msg": str(ex)[:160]}, None
    c = _canon(v)
    if "uncanonical" in json.dumps(c):
        return {"err": "Uncanonical", "msg": json.dumps(c)[:160]}, None
    return {"digest": hashlib.sha256(json.dumps(c, sort_keys=True).encode()).hexdigest()[:20]}, v


def _execute(case):
    """Runs inside a child process.  Returns digests of the result under each in-process condition."""
    gen, build, call = ROUTINES[case["routine"]]
    params = case["params"]
    out = {}
    try:
        args = build(params)
    except Exception as ex:
        return {"err": "Build:" + type(ex).__name__, "msg": str(ex)[:200]}
    a0 = _digest(args)
    r, v = _run_once(call, args, params)
    out["base"] = r
    out["args_after_base"] = _digest(args) == a0
    out["preview"] = _preview(v) if v is not None else None
    sizes = _sizes([args, v])
    out["n_sizes"] = len(sizes)
    out["repeat"] = _run_once(call, args, params)[0]
    _poison(sizes, "nan")
    out["heap_nan"] = _run_once(call, args, params)[0]
    _poison(sizes, "ff")
    out["heap_ff"] = _run_once(call, args, params)[0]
    out["args_after_all"] = _digest(args) == a0
    try:
        args2 = build(params)
        _poison(sizes, "nan")
        out["fresh_args"] = _run_once(call, args2, params)[0]
        out["args_rebuilt_equal"] = _digest(args2) == a0 or out["args_after_all"] is False
    except Exception as ex:
        out["fresh_args"] = {"err": "Build:" + type(ex).__name__}
    # in-place-overwrite history probe: the SAME argument objects now receive content B
    pb = case.get("params_b")
    if pb is not None and out["args_after_all"]:
        try:
            argsB = build(pb)
            applied = _overwrite(args, argsB) and _digest(args) == _digest(argsB)
            out["ow_applied"] = bool(applied)
            if applied:
                _poison(sizes, "nan")
                out["ow_same_obj"] = _run_once(call, args, pb)[0]
                out["ow_args_kept"] = _digest(args) == _digest(argsB)
                out["ow_fresh"] = _run_once(call, build(pb), pb)[0]
                out["ow_changed"] = out["ow_same_obj"] != out["base"]
        except Exception as ex:
            out["ow_applied"] = False
            out["ow_error"] = type(ex).__name__ + ": " + str(ex)[:120]
    return out


# ============================================================================ loaders: files rewritten at the same path
_SRC = {}


def _src_traj():
    if "t" not in _SRC:
        import mdtraj as md
        _SRC["t"] = md.load(os.path.join(_repo, "enspara", "test", "data", "frame0.h5"))
    return _SRC["t"]


def g_file_ra(rng):
    nrows = rng.choice([1, 2, 3, 5])
    lens = [rng.choice([1, 2, 3, 5]) for _ in range(nrows)]
    if rng.random() < 0.3:
        lens = [lens[0]] * nrows
    return {"rows": [[rng.randint(-3, 6) for _ in range(L)] for L in lens], "dtype": rng.choice(["int64", "float64"]),
            "as": rng.choice(["ragged", "ragged", "array"]), "rewrite": rng.choice(["replace", "truncate"])}


def v_file_ra(rng, p):
    q = copy.deepcopy(p)
    if rng.random() < 0.5:
        q["rows"] = [[rng.randint(-3, 6) for _ in r] for r in p["rows"]]             # same shape, other values
    else:
        q["rows"] = g_file_ra(rng)["rows"]                                            # other shape as well
    if q["as"] == "array":
        L = len(q["rows"][0])
        q["rows"] = [(r + [0] * L)[:L] for r in q["rows"]]
    return q


def g_file_lac(rng):
    k = rng.choice([1, 2, 3])
    return {"lens": [rng.choice([1, 2, 4, 7]) for _ in range(k)], "offs": [rng.randrange(0, 400) for _ in range(k)],
            "stride": rng.choice([1, 1, 2]), "rewrite": rng.choice(["replace", "truncate"])}


def v_file_lac(rng, p):
    q = copy.deepcopy(p)
    q["offs"] = [(o + rng.randrange(20, 90)) % 400 for o in p["offs"]]
    i = rng.randrange(len(p["lens"]))           # other frame counts too (a stale length table then shows)
    q["lens"][i] = rng.choice([n for n in (1, 2, 4, 7) if n != p["lens"][i]])
    return q


def _file_write(routine, p, base, rewrite):
    """write the file(s) of params p under the path stem `base`; existing files are replaced or truncated-and-rewritten"""
    from enspara.ra import ra as R
    if routine == "ra.load":
        paths = [base + ".h5"]
    else:
        paths = ["%s_%d.h5" % (base, i) for i in range(len(p["lens"]))]
    stats = {}
    for q in paths:
        if os.path.exists(q):
            st = os.stat(q)
            stats[q] = (st.st_atime_ns, st.st_mtime_ns)
            if rewrite == "replace":
                os.remove(q)
            else:
                open(q, "wb").close()
                os.remove(q)              # PyTables refuses to create over an existing file either way
    if routine == "ra.load":
        flat = np.array([x for r in p["rows"] for x in r], dtype=p["dtype"])
        if p["as"] == "array" and len({len(r) for r in p["rows"]}) == 1:
            obj = flat.reshape(len(p["rows"]), -1)
        else:
            obj = R.RaggedArray(flat, lengths=[len(r) for r in p["rows"]])
        R.save(paths[0], obj)
    else:
        src = _src_traj()
        for q, n, off in zip(paths, p["lens"], p["offs"]):
            src[off:off + n].save_hdf5(q)
    for q, ns in stats.items():
        os.utime(q, ns=ns)                # same path, same timestamps: only the contents differ
    return paths


def _file_load(routine, p, paths):
    if routine == "ra.load":
        from enspara.ra import ra as R
        return R.load(paths[0])
    from enspara.util.load import load_as_concatenated
    kw = {} if p["stride"] == 1 else {"stride": p["stride"]}
    lengths, xyz = load_as_concatenated(paths, processes=1, **kw)
    return [[int(v) for v in lengths], np.array(xyz)]


def _files_digest(paths):
    h = hashlib.sha256()
    for q in paths:
        with open(q, "rb") as f:
            h.update(f.read())
    return h.hexdigest()[:20]


def _execute_file(case):
    routine, pa, pb = case["routine"], case["params"], case["params_b"]
    d = tempfile.mkdtemp(prefix="c19f_", dir="/tmp")
    load = lambda a, p: _file_load(routine, p, a)
    out = {}
    try:
        paths = _file_write(routine, pa, os.path.join(d, "x"), pa["rewrite"])
        f0 = _files_digest(paths)
        r, v = _run_once(load, paths, pa)
        out["base"] = r
        out["args_after_base"] = _files_digest(paths) == f0
        out["preview"] = _preview(v) if v is not None else None
        sizes = _sizes([v])
        out["n_sizes"] = len(sizes)
        out["repeat"] = _run_once(load, paths, pa)[0]
        _poison(sizes, "nan")
        out["heap_nan"] = _run_once(load, paths, pa)[0]
        _poison(sizes, "ff")
        out["heap_ff"] = _run_once(load, paths, pa)[0]
        out["args_after_all"] = _files_digest(paths) == f0
        out["fresh_args"] = _run_once(load, _file_write(routine, pa, os.path.join(d, "z"), "replace"), pa)[0]
        # the same path(s) now hold content B (a shorter list of files keeps the leading paths)
        pathsB = _file_write(routine, pb, os.path.join(d, "x"), pa["rewrite"])
        out["ow_applied"] = pathsB == paths[:len(pathsB)] and len(pathsB) == len(paths)
        _poison(sizes, "nan")
        out["ow_same_obj"] = _run_once(load, pathsB, pb)[0]
        out["ow_args_kept"] = True
        out["ow_fresh"] = _run_once(load, _file_write(routine, pb, os.path.join(d, "y"), "replace"), pb)[0]
        out["ow_changed"] = out["ow_same_obj"] != out["base"]
    finally:
        shutil.rmtree(d, ignore_errors=True)
    return out


FILE_ROUTINES = {"ra.load": (g_file_ra, v_file_ra), "load_as_concatenated": (g_file_lac, v_file_lac)}


# ============================================================================ round 3s: builder grid
# every builder x container x dtype x prior on one count matrix: the argument must be left as it was (value, dtype,
# stored entries), a second call on the same object and a call on a freshly built object must return the same digest
BG_BUILDERS = ["normalize", "transpose", "mle"]
BG_CONTAINERS = ["dense", "csr_matrix", "csr_array", "csc_matrix", "coo_matrix", "lil_matrix", "dok_matrix", "bsr_matrix",
                 "dia_matrix"]
BG_DTYPES = ["int32", "int64", "float32", "float64"]


def _bg_snapshot(A):
    """what the caller can see of a count matrix: type, dtype, shape, values and (sparse) the stored-entry array"""
    import scipy.sparse as sp
    if sp.issparse(A):
        d = ["sp", type(A).__name__, str(A.dtype), list(A.shape), _canon(np.asarray(A.toarray()))]
        raw = getattr(A, "data", None)
        if isinstance(raw, np.ndarray) and raw.dtype != object:
            d.append(_canon(raw))
        return d
    return _canon(A)


def _bg_call(builder, A, prior, eq):
    from enspara.msm import builders
    try:
        v = getattr(builders, builder)(A, prior_counts=prior, calculate_eq_probs=eq)
    except Exception as ex:
        return {"err": type(ex).__name__}, None
    return {"digest": _digest(v)}, v


def _execute_bgrid(case):
    import warnings
    warnings.filterwarnings("ignore")
    out = {"combos": 0, "values": 0, "errors": {}, "fails": [], "prior_values": {}}
    for cont in BG_CONTAINERS:
        for dt in BG_DTYPES:
            for plabel in BG_PRIORS:
                prior = _bg_prior(case, plabel)
                A = _container(cont, np.array(case["C"], dtype=dt))
                s0 = _bg_snapshot(A)
                r1, v1 = _bg_call(case["builder"], A, prior, case["eq"])
                pv = _preview(v1) if v1 is not None else None
                s1 = _bg_snapshot(A)
                r2, _v = _bg_call(case["builder"], A, prior, case["eq"])
                s2 = _bg_snapshot(A)
                r3, _v = _bg_call(case["builder"], _container(cont, np.array(case["C"], dtype=dt)), _bg_prior(case, plabel), case["eq"])
                out["combos"] += 1
                if "digest" in r1:
                    out["values"] += plabel in ("none", "scalar")
                    out["prior_values"][plabel] = out["prior_values"].get(plabel, 0) + 1
                else:
                    out["errors"][r1["err"]] = out["errors"].get(r1["err"], 0) + 1
                combo = {"container": cont, "dtype": dt, "prior": _bg_prior_show(case, plabel)}
                if isinstance(prior, np.ndarray) and _canon(prior) != _canon(_bg_prior(case, plabel)):
                    out["fails"].append(dict(combo, why="argument-mutated", before=_preview(_bg_prior(case, plabel)),
                                             after=_preview(prior), which="prior_counts"))
                if s1 != s0 or s2 != s0:
                    out["fails"].append(dict(combo, why="argument-mutated", before=_preview(np.array(case["C"], dtype=dt)),
                                             after=_preview(A)))
                if r2 != r1:
                    out["fails"].append(dict(combo, why="repeat", first=r1, second=r2, first_value=pv))
                if r3 != r1:
                    out["fails"].append(dict(combo, why="fresh", first=r1, fresh=r3, first_value=pv))
    out["fails"] = out["fails"][:12]
    return out


# priors: absent, a positive scalar, present-but-zero in every spelling, array-valued (full matrix, one row broadcast)
BG_PRIORS = ["none", "scalar", "zero-int", "zero-float", "zero-matrix", "zero-matrix-int", "zero-row", "matrix", "matrix-int", "row"]


def _bg_prior(case, label):
    n = len(case["C"])
    if label == "none":
        return None
    if label == "scalar":
        return case["prior"]
    if label == "zero-int":
        return 0
    if label == "zero-float":
        return 0.0
    if label == "zero-matrix":
        return np.zeros((n, n))
    if label == "zero-matrix-int":
        return np.zeros((n, n), dtype=int)
    if label == "zero-row":
        return np.zeros(n)
    if label == "matrix":
        return np.array(case["prior_arr"], dtype=float) / 2
    if label == "matrix-int":
        return np.array(case["prior_arr"], dtype=int)
    if label == "row":
        return np.array(case["prior_arr"][0], dtype=float) + 0.5
    raise KeyError(label)


def _bg_prior_show(case, label):
    v = _bg_prior(case, label)
    return v if not isinstance(v, np.ndarray) else "%s array %s" % (v.dtype, v.tolist())


def _gen_bgrid(rng, builder):
    n = rng.choice([2, 3, 4])
    # mle: connected counts only (the Prinz iteration runs to max_iter = 10**5 sweeps on others: minutes, not a C19 matter)
    C = _counts_matrix(rng, n, zero_p=0.35, connected=builder == "mle" or rng.random() < 0.8)
    return {"kind": "bgrid", "builder": builder, "C": C, "prior": rng.choice([0.5, 1, 2]), "eq": rng.random() < 0.8,
            "prior_arr": [[rng.choice([0, 1, 1, 2, 3]) for _ in range(n)] for _ in range(n)]}


# ============================================================================ round 3s: RaggedArray call histories
# observer -> mutator -> observer programs; every observation is compared with the same observation on a freshly
# constructed RaggedArray holding the same rows, and the state after every mutator with a twin that received the
# mutators only (no observation in between)
RA_OBS = ["starts", "lengths", "len", "flatten", "row", "cell", "cells", "where_self", "getmask", "slice2d", "colint",
          "listslice", "introwslice", "rowslice", "rowlist", "slicelist"]
RA_OBS_STARTS = ["starts", "cell", "cells", "where_self", "getmask", "slice2d", "listslice"]   # read the row offsets
RA_OBS_2D = ["cell", "cells", "where_self", "getmask", "slice2d", "colint", "listslice", "slicelist"]
RA_MUT = ["append_rows", "append_rows", "append_ra", "append_one", "append_flat", "set_row", "set_cell", "set_cells",
          "set_slice2d", "set_introwslice", "set_mask"]
RA_APPEND = ["append_rows", "append_ra", "append_one"]


def _ra_val(rng, dtype):
    return rng.choice([0, 1]) if dtype == "bool" else rng.randint(-3, 6)


def _ra_rows(rng, dtype, nrows=None):
    nrows = nrows or rng.choice([1, 2, 2, 3])
    return [[_ra_val(rng, dtype) for _ in range(rng.choice([1, 2, 3, 4]))] for _ in range(nrows)]


def _ra_step(rng, name, dtype, nrows_hint, maxlen_hint):
    """nrows_hint: number of rows the array is expected to have when the step runs (indices may still fall outside:
    an IndexError is an outcome like any other and must not depend on the history either)"""
    n, L = max(1, nrows_hint), max(1, maxlen_hint)
    ri = lambda: rng.choice([rng.randrange(n), rng.randrange(n), -1, -rng.randint(1, n), n - 1])
    ci = lambda: rng.choice([0, 0, rng.randrange(L), -1])
    sl = lambda m: rng.choice([[None, None], [None, None], [rng.randrange(m + 1), None], [None, rng.randrange(m + 1)],
                               [rng.randrange(m + 1), rng.randrange(m + 2)], [None, -1], [-rng.randint(1, m), None]])
    if name in ("starts", "lengths", "len", "flatten", "where_self"):
        return [name]
    if name == "row":
        return [name, ri()]
    if name == "cell":
        return [name, ri(), ci()]
    if name == "cells":
        k = rng.choice([1, 2, 3])
        return [name, [ri() for _ in range(k)], [rng.choice([0, 0, -1]) for _ in range(k)], rng.choice(["array", "list"])]
    if name == "getmask":
        return [name, rng.choice([-4, 0, 1, 3])]
    if name == "slice2d":
        return [name] + sl(n) + sl(L)
    if name == "colint":
        return [name, rng.choice([0, 0, -1])]
    if name == "listslice":
        return [name, [ri() for _ in range(rng.choice([1, 2]))]] + sl(L)
    if name == "introwslice":
        return [name, ri()] + sl(L)
    if name == "rowslice":
        return [name] + sl(n)
    if name == "rowlist":
        return [name, [ri() for _ in range(rng.choice([1, 2, 3]))]]
    if name == "slicelist":
        return [name] + sl(n) + [[rng.choice([0, 0, -1]) for _ in range(rng.choice([1, 2]))]]
    if name in ("append_rows", "append_ra"):
        return [name, _ra_rows(rng, dtype), rng.choice(["array", "list"])]
    if name == "append_one":
        return ["append_rows", _ra_rows(rng, dtype, 1), "array"]
    if name == "append_flat":
        return [name, _ra_rows(rng, dtype, 1)[0]]
    if name == "set_row":
        return [name, ri(), _ra_rows(rng, dtype, 1)[0]]
    if name == "set_cell":
        return [name, ri(), ci(), _ra_val(rng, dtype)]
    if name == "set_cells":
        k = rng.choice([1, 2])
        return [name, [ri() for _ in range(k)], [rng.choice([0, 0, -1]) for _ in range(k)], [_ra_val(rng, dtype) for _ in range(k)]]
    if name == "set_slice2d":
        return [name] + sl(n) + sl(L) + [_ra_val(rng, dtype)]
    if name == "set_introwslice":
        return [name, ri()] + sl(L) + [_ra_val(rng, dtype)]
    if name == "set_mask":
        return [name, rng.choice([0, 1, 3]), _ra_val(rng, dtype)]
    raise KeyError(name)


def _gen_rahist(rng):
    dtype = rng.choice(["int64", "int64", "float64", "bool", "int32"])
    rows = _ra_rows(rng, dtype)
    if rng.random() < 0.2:
        rows = [r[:len(rows[0])] + [0] * (len(rows[0]) - len(r)) for r in rows]      # equally long rows (2-d row block)
    n, L = len(rows), max(len(r) for r in rows)
    prog = []
    shape = rng.choice(["starts-append-2d", "starts-append-2d", "starts-append-2d", "observe-set-observe", "random"])
    obs = lambda pool: prog.append(["obs"] + _ra_step(rng, rng.choice(pool), dtype, n, L))

    def mut(pool):
        nonlocal n, L
        st = _ra_step(rng, rng.choice(pool), dtype, n, L)
        prog.append(["mut"] + st)
        if st[0] in ("append_rows", "append_ra"):
            n += len(st[1])
            L = max([L] + [len(r) for r in st[1]])
    if shape == "starts-append-2d":
        obs(RA_OBS_STARTS)
        for _ in range(rng.choice([1, 1, 2])):
            mut(RA_APPEND)
            if rng.random() < 0.3:
                obs(RA_OBS_STARTS)
        for _ in range(rng.choice([2, 3])):
            obs(RA_OBS_2D)
        if rng.random() < 0.5:
            mut(["set_cell", "set_cells", "set_slice2d", "set_mask"])
            obs(RA_OBS)
    elif shape == "observe-set-observe":
        obs(RA_OBS)
        mut(["set_row", "set_cell", "set_cells", "set_slice2d", "set_introwslice", "set_mask"])
        obs(RA_OBS_2D)
        if rng.random() < 0.6:
            mut(RA_APPEND)
            obs(RA_OBS_2D)
            obs(RA_OBS)
    else:
        for _ in range(rng.choice([3, 4, 6])):
            if rng.random() < 0.55:
                obs(RA_OBS)
            else:
                mut(RA_MUT)
        obs(RA_OBS_2D)
    return {"kind": "rahist", "rows": rows, "dtype": dtype, "build": rng.choice(["nested", "nested", "flat"]), "prog": prog}


def _ra_np(vals, dtype):
    return np.array(vals, dtype=dtype)


def _ra_make(rows, dtype, build):
    from enspara.ra.ra import RaggedArray
    if build == "flat":
        return RaggedArray(_ra_np([x for r in rows for x in r], dtype), lengths=[len(r) for r in rows])
    return RaggedArray([_ra_np(r, dtype) for r in rows])


def _ra_fresh(A, build="nested"):
    """a newly constructed RaggedArray holding the rows A holds now (None when A's element store is not a plain 1-d
    array -- nothing to compare with then).  `build` selects the constructor form: "nested" = list of row arrays,
    "flat" = RaggedArray(elements, lengths=[...]).  The two forms are different arguments for the library: for equally
    long rows the nested form keeps a 2-d object-dtype row table (row reads come back with dtype object) while the flat
    form keeps typed rows, so an observation is only ever compared with a twin constructed the way the array under
    test was (or, once mutators have rebuilt its row table, with either form)."""
    from enspara.ra.ra import RaggedArray
    d, ls = np.asarray(A._data), [int(x) for x in np.asarray(A.lengths)]
    if d.dtype == object or d.ndim != 1 or sum(ls) != len(d) or len(ls) == 0:
        return None
    if any(n == 0 for n in ls):
        return None
    if build == "flat":
        return RaggedArray(d.copy(), lengths=list(ls))
    rows, s = [], 0
    for n in ls:
        rows.append(d[s:s + n].copy())
        s += n
    return RaggedArray(rows)


def _ra_state(A):
    return _digest(["ra", _canon(np.asarray(A._data)), _canon(np.asarray(A.lengths)),
                    [_canon(np.asarray(r)) for r in A._array]])


def _sl(a, b):
    return slice(a, b)


def _ra_apply(A, st, dtype):
    """one step on A; observers return a value, mutators None"""
    from enspara.ra import ra as R
    name, a = st[0], st[1:]
    if name == "starts":
        return A.starts
    if name == "lengths":
        return A.lengths
    if name == "len":
        return [len(A), A.size, list(A.shape)]
    if name == "flatten":
        return A.flatten()
    if name == "row":
        return A[a[0]]
    if name == "cell":
        return A[a[0], a[1]]
    if name == "cells":
        return A[(np.array(a[0]), np.array(a[1]))] if a[2] == "array" else A[(list(a[0]), list(a[1]))]
    if name == "where_self":
        return list(R.where(A))
    if name == "getmask":
        return A[A > a[0]]
    if name == "slice2d":
        return A[_sl(a[0], a[1]), _sl(a[2], a[3])]
    if name == "colint":
        return A[:, a[0]]
    if name == "listslice":
        return A[list(a[0]), _sl(a[1], a[2])]
    if name == "introwslice":
        return A[a[0], _sl(a[1], a[2])]
    if name == "rowslice":
        return A[_sl(a[0], a[1])]
    if name == "rowlist":
        return A[list(a[0])]
    if name == "slicelist":
        return A[_sl(a[0], a[1]), list(a[2])]
    if name == "append_rows":
        A.append([_ra_np(r, dtype) for r in a[0]] if a[1] == "array" else [list(_ra_np(r, dtype).tolist()) for r in a[0]])
    elif name == "append_ra":
        A.append(R.RaggedArray([_ra_np(r, dtype) for r in a[0]]))
    elif name == "append_flat":
        A.append(list(_ra_np(a[0], dtype).tolist()))
    elif name == "set_row":
        A[a[0]] = _ra_np(a[1], dtype)
    elif name == "set_cell":
        A[a[0], a[1]] = _ra_np([a[2]], dtype)[0]
    elif name == "set_cells":
        A[(np.array(a[0]), np.array(a[1]))] = _ra_np(a[2], dtype)
    elif name == "set_slice2d":
        A[_sl(a[0], a[1]), _sl(a[2], a[3])] = _ra_np([a[4]], dtype)[0]
    elif name == "set_introwslice":
        A[a[0], _sl(a[1], a[2])] = _ra_np([a[3]], dtype)[0]
    elif name == "set_mask":
        A[A > a[0]] = _ra_np([a[1]], dtype)[0]
    else:
        raise KeyError(name)
    return None


def _ra_outcome(A, st, dtype):
    try:
        v = _ra_apply(A, st, dtype)
    except Exception as ex:
        return {"err": type(ex).__name__}, None
    if st[0] in RA_OBS:
        return {"digest": _digest(v)}, v
    return {"done": True}, None


def _execute_rahist(case):
    import warnings
    warnings.filterwarnings("ignore")
    dtype = case["dtype"]
    A = _ra_make(case["rows"], dtype, case["build"])        # observed
    B = _ra_make(case["rows"], dtype, case["build"])        # twin: receives the mutators only
    out = {"fails": [], "steps": [], "fresh_compared": 0, "twin_compared": 0, "obs_after_append": 0, "obs_after_set": 0,
           "touched_starts": False, "stale_pattern": False, "fresh_other_form": 0}
    appended = setted = mutated = False
    for k, step in enumerate(case["prog"]):
        role, st = step[0], step[1:]
        if role == "obs":
            s0 = _ra_state(A)
            # twins are built from the content at this very moment, before the observation runs; every outcome is
            # reduced to a digest of plain values (dtype/shape/bytes) at the moment it is produced
            F = _ra_fresh(A, case["build"])
            G = _ra_fresh(A, "flat" if case["build"] == "nested" else "nested") if mutated else None
            r, v = _ra_outcome(A, st, dtype)
            out["steps"].append(r.get("err", "value"))
            if _ra_state(A) != s0:
                out["fails"].append({"why": "observer-changed-array", "step": k, "op": st})
            if F is not None:
                rf, vf = _ra_outcome(F, st, dtype)
                out["fresh_compared"] += 1
                if rf != r and G is not None and _ra_outcome(G, st, dtype)[0] == r:
                    out["fresh_other_form"] += 1          # a mutator rebuilt the row table: equals the other constructor form
                elif rf != r:
                    out["fails"].append({"why": "fresh", "step": k, "op": st, "got": r.get("err", _preview(v)),
                                         "fresh": rf.get("err", _preview(vf)),
                                         "rows_now": _preview([np.asarray(x) for x in F._array])})
            if "digest" in r:
                out["obs_after_append"] += appended
                out["obs_after_set"] += setted
                if appended and out["touched_starts"] and st[0] in RA_OBS_2D:
                    out["stale_pattern"] = True
            if st[0] in RA_OBS_STARTS and not appended:
                out["touched_starts"] = True
        else:
            r, _v = _ra_outcome(A, st, dtype)
            rb, _v = _ra_outcome(B, st, dtype)
            out["steps"].append(r.get("err", "done"))
            out["twin_compared"] += 1
            if r != rb or _ra_state(A) != _ra_state(B):
                out["fails"].append({"why": "twin", "step": k, "op": st, "observed_array": [r.get("err", "done"), _preview(A)],
                                     "unobserved_twin": [rb.get("err", "done"), _preview(B)]})
                break
            mutated = True
            if "done" in r:
                if st[0].startswith("append"):
                    appended = True
                else:
                    setted = True
    out["fails"] = out["fails"][:6]
    return out


# ============================================================================ round 3s: thread counts, one feature pair
# joint_counts / mi_matrix with ONE feature against ONE feature, few states and many frames: the shape for which a
# kernel that hands out frames (not features) to threads loses counts.  Inputs are rebuilt from a seed in every child.
THR_CHILDREN = [("t1", 1), ("t4", 4), ("t8", 8), ("t16", 16)]


def _gen_thr(rng, tier):
    routine = rng.choice(["joint_counts", "joint_counts", "mi_matrix"])
    T = rng.choice([200000, 400000, 1000000] if tier == "quick" else [200000, 500000, 1000000, 3000000])
    return {"kind": "thr", "routine": routine, "T": T, "seed": rng.randrange(10 ** 6), "nx": rng.choice([2, 2, 3]),
            "ny": rng.choice([2, 3]), "form": rng.choice(["1d", "1d", "col", "self"] if routine == "joint_counts" else ["col"]),
            "dtype": rng.choice(["int64", "int64", "int32"]), "reps": 4, "skew": rng.choice([False, True]),
            "ntraj": rng.choice([1, 2]) if routine == "mi_matrix" else 1}


def _thr_arrays(c):
    rs = np.random.RandomState(c["seed"])
    T = c["T"]

    def draw(n):
        v = rs.randint(0, n, T)
        if c["skew"]:      # most frames in state 0: every thread hammers the same cell
            v = np.where(rs.random_sample(T) < 0.85, 0, v)
        return v.astype(c["dtype"])
    x, y = draw(c["nx"]), draw(c["ny"])
    x[0], y[0] = c["nx"] - 1, c["ny"] - 1          # every state number occurs
    return x, y


def _thr_expected(c):
    """pure NumPy counting: np.bincount over the pair code and np.histogram2d must agree"""
    x, y = _thr_arrays(c)
    if c["form"] == "self":
        y, ny = x, c["nx"]
    else:
        ny = c["ny"]
    t = np.bincount(x.astype(np.int64) * ny + y.astype(np.int64), minlength=c["nx"] * ny).reshape(c["nx"], ny)
    h, _a, _b = np.histogram2d(x, y, bins=[np.arange(c["nx"] + 1) - 0.5, np.arange(ny + 1) - 0.5])
    assert np.array_equal(t, h.astype(np.int64)) and int(t.sum()) == c["T"]
    return [int(v) for v in t.ravel()]


def _execute_thr(c):
    import warnings
    warnings.filterwarnings("ignore")
    from enspara.info_theory import mutual_info as M
    x, y = _thr_arrays(c)
    if c["form"] == "col":
        x, y = x[:, None].copy(), y[:, None].copy()
    h0 = hashlib.sha256(x.tobytes() + y.tobytes()).hexdigest()
    runs = []
    for _ in range(c["reps"]):
        try:
            if c["routine"] == "joint_counts":
                if c["form"] == "self":
                    v = M.joint_counts(x, None, c["nx"])
                else:
                    v = M.joint_counts(x, y, c["nx"], c["ny"])
                runs.append({"shape": list(v.shape), "dtype": str(v.dtype), "table": [int(t) for t in np.asarray(v).ravel()]})
            else:
                k = c["ntraj"]
                cut = [len(x) * i // k for i in range(k + 1)]
                Xs = [x[a:b] for a, b in zip(cut, cut[1:])]
                Ys = [y[a:b] for a, b in zip(cut, cut[1:])]
                v = M.mi_matrix(Xs, Ys, np.array([c["nx"]]), np.array([c["ny"]]), normalize=False)
                runs.append({"shape": list(np.shape(v)), "dtype": str(np.asarray(v).dtype),
                             "mi": [float(t).hex() for t in np.asarray(v, dtype=float).ravel()]})
        except Exception as ex:
            runs.append({"err": type(ex).__name__, "msg": str(ex)[:120]})
    return {"runs": runs, "args_kept": hashlib.sha256(x.tobytes() + y.tobytes()).hexdigest() == h0}


# ============================================================================ round 3s: worker-process counts
# every routine of the tree that takes a process count and hands blocks of work to a multiprocessing pool is run with
# 1, 2 and 4 processes (the pool the code itself creates), several times each, on inputs whose FIRST block is the most
# expensive one -- so that a routine that takes results in order of completion, or writes blocks to positions derived
# from completion order, returns something else than the serial run.  Exact equality (digests).
NPROC_ROUTINES = ["bace.calcDMat", "bace.calcDMat", "bace.bace", "bace.baysean_prune", "load_as_concatenated",
                  "concatenate_trjs", "msm.bootstrap"]
NPROC_COUNTS = [1, 2, 4, 3]


def _gen_nproc(rng, routine, tier):
    c = {"kind": "nproc", "routine": routine, "seed": rng.randrange(10 ** 6), "reps": 2 if tier == "quick" else 3,
         "procs": list(NPROC_COUNTS)}
    if routine == "bace.calcDMat":
        c.update(n=rng.choice([80, 110, 150]), fmt=rng.choice(["dense", "dense", "csr"]), chunk=rng.choice([100, 100, 25]),
                 weak=rng.choice([0, 0, 3]))
    elif routine == "bace.bace":
        c.update(n=rng.choice([24, 36]), fmt=rng.choice(["dense", "dense", "csr"]), chunk=rng.choice([4, 8]),
                 merges=rng.choice([3, 5]), weak=rng.choice([0, 2]))
    elif routine == "bace.baysean_prune":
        c.update(n=rng.choice([40, 90, 200]), fmt=rng.choice(["dense", "csr"]), weak=rng.choice([2, 5, 9]))
    elif routine in ("load_as_concatenated", "concatenate_trjs"):
        k = rng.choice([3, 4, 6])
        c.update(lens=[rng.choice([60, 90])] + [rng.choice([1, 2, 3]) for _ in range(k - 1)],       # first file by far the longest
                 offs=[rng.randrange(0, 300) for _ in range(k)], stride=rng.choice([1, 1, 2]), rewrite="replace")
    else:
        c.update(n=rng.choice([30, 60]), m=rng.choice([2, 3]), trials=rng.choice([5, 8]))
    return c


# round 3s (second wave): block counts that the process count does not divide.  The bace routines cut their work list
# of L entries into blocks of L // k entries for k worker processes; whenever L % (L // k) > 3 or L % k > L // k there
# are MORE blocks than processes (a short last one).  L = 5, 6, 7, 11 do that for k <= 4 already, L = 29, 34 for k = 5, 6
# (and 16); every run deals all six work-list lengths to baysean_prune, calcDMat and bace.
NPROC_ODD_LENGTHS = [5, 6, 7, 11, 29, 34]
NPROC_ODD_COUNTS = {"small": [1, 2, 3, 4, 5, 6], "large": [1, 5, 6, 16]}


def _bace_blocks(L, k):
    """number of blocks the bace routines cut a work list of L entries into for k > 1 worker processes"""
    k = min(L, k)
    step = L // k
    end = L if L % step > 3 else L - step
    return len(range(0, end, step))


def _gen_nproc_odd(rng, routine, L, tier):
    """the routine's work list has exactly L entries: baysean_prune: L states; calcDMat: L + 1 well-connected states
    (one work item per state but the last); bace: L states (prune) then L - 1 work items"""
    procs = list(NPROC_ODD_COUNTS["small" if L <= 11 else "large"])
    if routine == "bace.bace":
        procs = [k for k in procs if k != 16]
    c = {"kind": "nproc", "routine": routine, "seed": rng.randrange(10 ** 6), "reps": 2,
         "procs": procs, "odd": L, "fmt": rng.choice(["dense", "dense", "csr"]), "chunk": 100, "weak": 0}
    if routine == "bace.calcDMat":
        c.update(n=L + 1)
    elif routine == "bace.bace":
        c.update(n=L, merges=rng.choice([2, 3]) if L > 5 else 2)
    else:
        c.update(n=L, weak=rng.choice([0, 0, 2]) if L > 11 else 0)
    return c


def _nproc_counts(case):
    """block-structured symmetric counts; every state has partners all over the matrix, so the states early in the
    list have the most (s, j > s) pairs to score: the first block of work is the most expensive"""
    import scipy.sparse as sp
    n, rs = case["n"], np.random.RandomState(case["seed"])
    c = np.zeros((n, n))
    for b in np.array_split(np.arange(n), 4):
        c[np.ix_(b, b)] = rs.randint(20, 200, (len(b), len(b)))
    c += rs.randint(2, 6, (n, n))
    c = c + c.T
    c[np.diag_indices(n)] += 1000
    for s_ in rs.choice(n, case.get("weak", 0), replace=False) if case.get("weak") else []:
        c[s_, :] = 0
        c[:, s_] = 0
        j = (s_ + 1) % n
        c[s_, j] = c[j, s_] = 1                       # insufficient statistics: pruned into its neighbour
    return sp.csr_matrix(c) if case["fmt"] == "csr" else c


def _nproc_call(case, k, files):
    """one call with k worker processes on freshly built arguments -> (value, arguments as left by the call, arguments as built)"""
    import scipy.sparse as sp
    routine = case["routine"]
    if routine.startswith("bace."):
        from enspara.msm import bace as B
        c = _nproc_counts(case)
        c0 = c.copy()
        if routine == "bace.baysean_prune":
            cc, labels, keep = B.baysean_prune(c, n_procs=k)
            return [cc, labels, keep], c, c0
        if routine == "bace.bace":
            bf, labels = B.bace(c, c.shape[0] - case["merges"], chunk_size=case["chunk"], n_procs=k)
            return [sorted(bf.items()), sorted((kk, np.asarray(v)) for kk, v in labels.items())], c, c0
        # calcDMat exactly as bace() enters it
        cc, state_map, keep = B.baysean_prune(c, 1)
        cc = cc.astype("float")
        w = np.array(cc.sum(axis=1)).flatten()
        w[keep] += 1
        unmerged = np.zeros(w.shape[0], dtype=np.int8)
        unmerged[keep] = 1
        ind = B.getInds(cc, keep, case["chunk"])
        dMat = sp.lil_matrix(cc.shape) if sp.issparse(cc) else np.zeros(cc.shape, dtype=np.float32)
        if sp.issparse(cc):
            cc = cc.tocsr()
        bf = {}
        dMat, minX, minY = B.calcDMat(cc, w, bf, ind, dMat, k, keep, unmerged, case["chunk"])
        return [dMat, int(minX), int(minY), sorted(bf.items()), len(ind)], c, c0
    if routine == "load_as_concatenated":
        from enspara.util.load import load_as_concatenated
        kw = {} if case["stride"] == 1 else {"stride": case["stride"]}
        lengths, xyz = load_as_concatenated(files, processes=k, **kw)
        return [[int(v) for v in lengths], np.array(xyz)], None, None
    if routine == "concatenate_trjs":
        from enspara.util.load import concatenate_trjs
        src = _src_traj()
        trjs = [src[o:o + n] for o, n in zip(case["offs"], case["lens"])]
        before = [t.xyz.copy() for t in trjs]
        t = concatenate_trjs(trjs, n_procs=k)
        return [np.array(t.xyz), t.n_atoms], [x.xyz for x in trjs], before
    from enspara.msm import bootstrap as BS
    rs = np.random.RandomState(case["seed"])
    data = rs.randint(0, 5, (case["n"], case["m"])).astype("int32")
    d0 = data.copy()
    np.random.seed(case["seed"] % 2 ** 31)             # bootstrap draws its resampling indices from the global generator
    return [np.asarray(x) for x in BS.bootstrap(np.sum, data, case["trials"], n_procs=k, axis=0)], data, d0


def _pool_available():
    import multiprocessing
    try:
        with multiprocessing.Pool(processes=2) as pool:
            return pool.map(abs, [-1, 2]) == [1, 2], ""
    except Exception as ex:
        return False, type(ex).__name__


def _execute_nproc(case):
    import warnings
    warnings.filterwarnings("ignore")
    ok, why = _pool_available()
    if not ok:
        return {"skipped": "a process pool cannot be started here: " + why, "runs": [], "fails": []}
    out = {"runs": [], "fails": []}
    d = tempfile.mkdtemp(prefix="c19n_", dir="/tmp")
    try:
        files = _file_write("load_as_concatenated", case, os.path.join(d, "x"), "replace") \
            if case["routine"] == "load_as_concatenated" else None
        ref = None
        for rep in range(case["reps"]):
            for k in case["procs"]:
                try:
                    v, a1, a0 = _nproc_call(case, k, files)
                    r = {"digest": _digest(v)}
                    if a0 is not None and _canon(a1) != _canon(a0):
                        out["fails"].append({"why": "argument-mutated", "procs": k})
                except Exception as ex:
                    v, r = None, {"err": type(ex).__name__, "msg": str(ex)[:100]}
                out["runs"].append([k, rep, r.get("err", "value")])
                if ref is None:
                    ref = (k, r, _preview(v) if v is not None else None)
                elif {x: r[x] for x in r if x != "msg"} != {x: ref[1][x] for x in ref[1] if x != "msg"}:
                    out["fails"].append({"why": "differs", "procs": k, "rep": rep, "got": r.get("err", _preview(v)),
                                         "ref_procs": ref[0], "ref": ref[1].get("err", ref[2])})
    finally:
        shutil.rmtree(d, ignore_errors=True)
    out["fails"] = out["fails"][:4]
    return out


def _oracle_nproc(c, r):
    if "err" in r:
        return [("crash:" + c["routine"], "process-count stream: %s (case %s)" % (r, json.dumps(c)[:300]))]
    out = []
    what = "%s on the input built from %s" % (c["routine"], json.dumps({k: v for k, v in c.items() if k not in ("kind", "routine", "reps", "procs")}))
    for f in r["fails"]:
        if f["why"] == "argument-mutated":
            out.append(("argument-mutated:" + c["routine"], "%s with %d worker processes changed its argument" % (what, f["procs"])))
        else:
            out.append(("process-count-dependence:" + c["routine"],
                        "%s: with %d worker processes (repetition %d) it returned %s; with %d: %s"
                        % (what, f["procs"], f["rep"], str(f["got"])[:300], f["ref_procs"], str(f["ref"])[:300])))
    return out


# ============================================================================ round 3s (second wave): k-centers shortcut
# kcenters(..., use_triangle_inequality=True) recomputes, in every iteration, only the distances of the frames that can
# move to the new center; the vector it compares with the current distances must hold defined values for the others
# too.  Probe: a few thousand integer-valued frames in well separated blobs (most frames are NOT recomputed), a
# caller-supplied metric that returns single precision (as mdtraj's rmsd does: the temporaries of an iteration then
# have another size than the 8n-byte distance vector) and that, while it works, allocates, fills and frees a scratch
# vector of 8n bytes -- what the scratch holds has no influence on what the metric returns.  The same call is made
# with several scratch contents (and the heap poisoned with the same content before the call): all results equal.
KCTI_FILLS = [None, "nan", -1.0, 0.0, 7.5, "nan", -1.0]


class _ScratchMetric:
    """Manhattan distance between integer-valued frames, returned in single precision (exact)"""

    def __init__(self, n, fill):
        self.n, self.fill, self.partial = n, fill, 0

    def __call__(self, X, y):
        X = np.asarray(X, dtype=float)
        if 1 < len(X) < self.n:
            self.partial += 1
        d = np.abs(X - np.asarray(y, dtype=float)).sum(axis=1).astype(np.float32)
        if self.fill is not None:
            scratch = np.full(self.n, self.fill, dtype=np.float64)
            del scratch
        return d


def _gen_kcti(rng):
    return {"kind": "kcti", "n": rng.choice([1000, 2000, 3000, 5000]), "blobs": rng.choice([3, 5, 8]), "k": rng.choice([8, 10, 12]),
            "seed": rng.randrange(10 ** 6), "spread": rng.choice([2, 3, 6])}


def _kcti_data(c):
    rs = np.random.RandomState(c["seed"])
    n = c["n"]
    X = np.empty((n, 2))
    X[:, 0] = 100 * rs.randint(0, c["blobs"], n) + rs.randint(-c["spread"], c["spread"] + 1, n)
    X[:, 1] = rs.randint(-c["spread"], c["spread"] + 1, n)
    return X


def _execute_kcti(c):
    import warnings
    warnings.filterwarnings("ignore")
    from enspara.cluster import kcenters as KC
    X = _kcti_data(c)
    x0 = X.copy()
    n = c["n"]
    out = {"runs": [], "fails": [], "partial": 0}
    ref = None
    for fill in KCTI_FILLS:
        val = float("nan") if fill == "nan" else fill
        m = _ScratchMetric(n, val)
        try:
            if val is not None:
                blocks = [np.full(nb // 8, val) for nb in (8 * n, 4 * n, 8 * n + 8, 16 * n) for _ in range(7)]
                del blocks
            r = KC.kcenters(X, m, n_clusters=c["k"], use_triangle_inequality=True)
            v = [np.asarray(r.center_indices), np.asarray(r.distances), np.asarray(r.assignments)]
            got = {"digest": _digest(v)}
        except Exception as ex:
            v, got = None, {"err": type(ex).__name__, "msg": str(ex)[:100]}
        out["runs"].append([str(fill), got.get("err", "value")])
        out["partial"] = max(out["partial"], m.partial)
        if ref is None:
            ref = (fill, got, v)
        elif {x: got[x] for x in got if x != "msg"} != {x: ref[1][x] for x in ref[1] if x != "msg"}:
            f = {"fill": str(fill), "ref_fill": str(ref[0]), "got": got.get("err"), "ref": ref[1].get("err")}
            if v is not None and ref[2] is not None:
                f["centers"], f["ref_centers"] = [int(t) for t in v[0]], [int(t) for t in ref[2][0]]
                f["assignments_differ"] = int(np.count_nonzero(v[2] != ref[2][2]))
                f["min_distance"], f["ref_min_distance"] = float(np.min(v[1])), float(np.min(ref[2][1]))
            out["fails"].append(f)
    out["args_kept"] = bool(np.array_equal(X, x0))
    out["fails"] = out["fails"][:3]
    return out


def _oracle_kcti(c, r):
    if "err" in r:
        return [("crash:kcenters-triangle-inequality", "k-centers shortcut probe: %s (case %s)" % (r, json.dumps(c)))]
    out = []
    what = ("kcenters(X, metric, n_clusters=%d, use_triangle_inequality=True) on %d integer-valued frames in %d blobs (seed %d, spread %d), "
            "Manhattan metric returning float32" % (c["k"], c["n"], c["blobs"], c["seed"], c["spread"]))
    for f in r["fails"]:
        out.append(("heap-dependence:kcenters-triangle-inequality",
                    "%s: when the metric's freed 8n-byte scratch vector (and the blocks freed before the call) held %s the call returned "
                    "centers %s (%s assignments different, smallest distance %s); when they held %s: centers %s (smallest distance %s)%s"
                    % (what, f["fill"], f.get("centers"), f.get("assignments_differ"), f.get("min_distance"), f["ref_fill"],
                       f.get("ref_centers"), f.get("ref_min_distance"),
                       "" if not (f.get("got") or f.get("ref")) else " [exceptions: %s / %s]" % (f.get("got"), f.get("ref")))))
    if not r.get("args_kept", True):
        out.append(("argument-mutated:kcenters", "%s changed its data argument" % what))
    return out


# ============================================================================ seeded routines vs the global generators
SEEDED_ROUTINES = ["kmedoids", "kmedoids", "kmedoids", "kmedoids.warm", "hybrid", "hybrid", "KHybrid", "KHybrid", "KCenters", "randind"]
SEEDED_OTHER = [1, 7, 12345, 2 ** 31 - 5, 2 ** 32 - 1]


def _gen_seeded(rng, routine):
    """a routine that takes `random_state`, called with the integer seed 0 and with another seed, each after several
    different histories of the process-wide generators (np.random seeded with a / b and some draws consumed, Python's
    `random` likewise, or left as the previous call left them)"""
    n = rng.choice([16, 24, 30, 40, 60])
    d = rng.choice([1, 2, 2, 3])
    X = [[rng.randint(-6, 6) for _ in range(d)] for _ in range(n)]
    k = rng.randint(3, 6)
    a, b = rng.sample(range(1, 10 ** 6), 2)
    hists = [["asis"], ["seed", a, rng.choice([0, 1, 5])], ["seed", b, rng.choice([0, 3, 1000])],
             ["seed", a, rng.choice([7, 64])], ["asis"]]
    return {"kind": "seeded", "routine": routine, "X": X, "k": k, "n_iters": rng.choice([1, 2, 3, 5]),
            "metric": rng.choice(["euclidean", "manhattan"]), "centers": sorted(rng.sample(range(n), k)),
            "seeds": [0, rng.choice(SEEDED_OTHER)], "seed_type": rng.choice(["int", "int", "np.int64", "np.int32"]),
            "hists": hists}


def _seeded_call(c, X, seed):
    from enspara.cluster import kmedoids as KM, hybrid as HY, kcenters as KC
    name = c["routine"]
    if c["seed_type"] != "int" and seed < 2 ** 31:
        seed = getattr(np, c["seed_type"][3:])(seed)
    if name == "randind":
        from enspara.mpi import ops
        return [list(ops.randind(np.arange(len(X)), seed)) for _ in range(1)]
    if name == "kmedoids":
        r = KM.kmedoids(X, c["metric"], n_clusters=c["k"], n_iters=c["n_iters"], random_state=seed)
    elif name == "kmedoids.warm":
        r = KM.kmedoids(X, c["metric"], cluster_center_inds=list(c["centers"]), n_iters=c["n_iters"], random_state=seed)
    elif name == "hybrid":
        r = HY.hybrid(X, c["metric"], n_iters=c["n_iters"], n_clusters=c["k"], random_state=seed)
    elif name == "KHybrid":
        r = HY.KHybrid(c["metric"], n_clusters=c["k"], kmedoids_updates=c["n_iters"], random_state=seed).fit(X).result_
    elif name == "KCenters":
        r = KC.KCenters(c["metric"], n_clusters=c["k"], random_state=seed).fit(X).result_
    else:
        raise ValueError(name)
    return [np.asarray(r.center_indices), np.asarray(r.distances), np.asarray(r.assignments)]


def _execute_seeded(c):
    import random as pyrandom
    import warnings
    warnings.filterwarnings("ignore")
    X = np.array(c["X"], dtype=float)
    x0 = X.copy()
    out = {"runs": [], "fails": []}
    for seed in c["seeds"]:
        ref = None
        for h in c["hists"]:
            if h[0] == "seed":
                np.random.seed(h[1])
                pyrandom.seed(h[1])
                if h[2]:
                    np.random.random(h[2])
                    pyrandom.random()
            try:
                v = _seeded_call(c, X, seed)
                got = {"digest": _digest(v)}
                show = [[int(t) for t in np.asarray(v[0]).ravel()[:12]]]
            except Exception as ex:
                v, got, show = None, {"err": type(ex).__name__, "msg": str(ex)[:100]}, None
            out["runs"].append([seed, h, got.get("digest") or "err:" + got["err"]])
            cmpable = {x: got[x] for x in got if x != "msg"}
            if ref is None:
                ref = (h, cmpable, v, show)
            elif cmpable != ref[1]:
                f = {"seed": seed, "hist": h, "ref_hist": ref[0], "got": got.get("err"), "ref": ref[1].get("err"),
                     "centers": show, "ref_centers": ref[3]}
                if v is not None and ref[2] is not None and len(v) == 3:
                    f["assignments_differ"] = int(np.count_nonzero(np.asarray(v[2]) != np.asarray(ref[2][2])))
                out["fails"].append(f)
    out["args_kept"] = bool(np.array_equal(X, x0))
    out["fails"] = out["fails"][:4]
    return out


def _oracle_seeded(c, r):
    if "err" in r:
        return [("crash:seeded-" + c["routine"], "seeded-routine probe: %s (case %s)" % (r, json.dumps(c)[:300]))]
    out = []
    what = {"kmedoids": "kmedoids(X, %r, n_clusters=%d, n_iters=%d, random_state=S)" % (c["metric"], c["k"], c["n_iters"]),
            "kmedoids.warm": "kmedoids(X, %r, cluster_center_inds=%s, n_iters=%d, random_state=S)" % (c["metric"], c["centers"], c["n_iters"]),
            "hybrid": "hybrid(X, %r, n_iters=%d, n_clusters=%d, random_state=S)" % (c["metric"], c["n_iters"], c["k"]),
            "KHybrid": "KHybrid(%r, n_clusters=%d, kmedoids_updates=%d, random_state=S).fit(X)" % (c["metric"], c["k"], c["n_iters"]),
            "KCenters": "KCenters(%r, n_clusters=%d, random_state=S).fit(X)" % (c["metric"], c["k"]),
            "randind": "mpi.ops.randind(np.arange(%d), S)" % len(c["X"])}[c["routine"]]
    hs = lambda h: "the generators as the previous call left them" if h[0] == "asis" else \
        "np.random.seed(%d) / random.seed(%d) and %d draws consumed" % (h[1], h[1], h[2])
    for f in r["fails"]:
        out.append(("global-rng-history-dependence:" + c["routine"],
                    "%s with S = %s(%d) on %d integer-valued frames (%d features): after %s the call returned centers %s; after %s: centers %s "
                    "(%s assignments different)%s -- same arguments, another history of the process-wide generators"
                    % (what, c["seed_type"], f["seed"], len(c["X"]), len(c["X"][0]), hs(f["hist"]), f.get("centers"), hs(f["ref_hist"]),
                       f.get("ref_centers"), f.get("assignments_differ"),
                       "" if not (f.get("got") or f.get("ref")) else " [exceptions: %s / %s]" % (f.get("got"), f.get("ref")))))
    if not r.get("args_kept", True):
        out.append(("argument-mutated:seeded-" + c["routine"], "%s changed its data argument" % what))
    return out


# ============================================================================ child processes
class _Child:
    def __init__(self, threads, label):
        self.threads, self.label, self.proc, self.served = threads, label, None, 0

    def start(self):
        env = dict(os.environ)
        env["OMP_NUM_THREADS"] = str(self.threads)
        env["PYTHONPATH"] = HARNESS + os.pathsep + env.get("PYTHONPATH", "")
        env["ENSPARA_REPO"] = _repo
        self.proc = subprocess.Popen([sys.executable, "-u", os.path.abspath(__file__), "--worker"],
                                     stdin=subprocess.PIPE, stdout=subprocess.PIPE, stderr=subprocess.DEVNULL,
                                     text=True, env=env)
        self.served = 0

    def stop(self):
        if self.proc is not None:
            try:
                self.proc.kill()
                self.proc.wait()
            except OSError:
                pass
            self.proc = None

    def call(self, case):
        if self.proc is None or self.proc.poll() is not None:
            self.start()
        proc = self.proc
        timer = threading.Timer(120, proc.kill)
        timer.start()
        try:
            proc.stdin.write(json.dumps(case) + "\n")
            proc.stdin.flush()
            while True:
                line = proc.stdout.readline()
                if not line:
                    raise EOFError
                if line.startswith("@@R "):
                    self.served += 1
                    return json.loads(line[4:])
        except (EOFError, BrokenPipeError, OSError):
            self.stop()
            return {"err": "Crashed"}
        finally:
            timer.cancel()


_children = {}
YOUNG_RESTART = 12     # the "young" child is restarted every so many cases: short history, fresh heap


def _child(label, threads):
    if label not in _children:
        _children[label] = _Child(threads, label)
        atexit.register(_children[label].stop)
    return _children[label]


EXECUTORS = {"file": _execute_file, "bgrid": _execute_bgrid, "rahist": _execute_rahist, "thr": _execute_thr,
             "nproc": _execute_nproc, "kcti": _execute_kcti, "seeded": _execute_seeded}


def _worker_main():
    import logging, warnings
    logging.disable(logging.CRITICAL)
    warnings.filterwarnings("ignore")
    import bootstrap
    bootstrap.install()
    for line in sys.stdin:
        line = line.strip()
        if not line:
            continue
        case = json.loads(line)
        try:
            r = EXECUTORS.get(case.get("kind"), _execute)(case)
        except Exception as ex:
            r = {"err": "Harness:" + type(ex).__name__, "msg": str(ex)[:300]}
        r["omp"] = os.environ.get("OMP_NUM_THREADS")
        sys.stdout.write("@@R " + json.dumps(r) + "\n")
        sys.stdout.flush()


# ============================================================================ generated cases
UFUNCS = {"negative": ("Qopp", 1), "add": ("Qplus", 2), "subtract": ("Qminus", 2), "multiply": ("Qmult", 2)}


def _gen_ufunc(rng):
    name = rng.choice(sorted(UFUNCS))
    n = rng.choice([0, 1, 2, 3, 5, 8])
    vec = lambda k: [rng.randint(-5, 5) for _ in range(k)]
    mode = rng.choice(["out", "out", "noout", "noout", "badmask", "badout"])
    if mode in ("badmask", "badout") and n == 1:
        n = 2          # a length-1 operand broadcasts against any mask/out: not a shape error in NumPy
    m = [rng.random() < 0.5 for _ in range(n)]
    if rng.random() < 0.15:
        m = [True] * n
    c = {"kind": "ufunc", "uf": name, "x": vec(n), "y": vec(n) if UFUNCS[name][1] == 2 else None, "m": m, "mode": mode,
         "init": vec(n) if mode in ("out", "badmask") else None}
    if mode == "badmask":
        c["m"] = m + [True, False]
    if mode == "badout":
        c["init"] = vec(n + 2)
    return c


def _gen_wbr(rng):
    n = rng.choice([0, 1, 2, 3, 5, 8])
    shape = rng.choice(["random", "random", "random", "tile", "tile", "enum", "fill", "full", "gap", "oob"])
    c = {"kind": "wbr", "shape": shape, "n": n, "junk": [rng.randint(70, 79) for _ in range(n)]}
    val = lambda: rng.randint(-5, 5)
    if shape == "oob":
        n = max(n, 1)
        c["n"], c["junk"] = n, [rng.randint(70, 79) for _ in range(n)]
        if rng.random() < 0.5:
            c["prog"] = [["idx", n + rng.choice([0, 1, 3]), val()]]
        else:
            lo = rng.randint(0, n)
            c["prog"] = [["slice", lo, [val() for _ in range(n - lo + rng.choice([1, 2]) + (1 if n - lo == 0 else 0))]]]
            if len(c["prog"][0][2]) == 1:
                c["prog"][0][2].append(val())       # a single value would broadcast
        return c
    if shape in ("tile", "gap"):
        cuts = sorted(rng.randint(0, n) for _ in range(rng.choice([0, 1, 2, 3])))
        bounds = [0] + cuts + [n]
        c["segs"] = [[val() for _ in range(b - a)] for a, b in zip(bounds, bounds[1:])]
        if shape == "gap":
            nonempty = [i for i, sgm in enumerate(c["segs"]) if sgm]
            c["skip"] = rng.choice(nonempty) if nonempty else None
    elif shape == "enum":
        c["vals"] = [val() for _ in range(n)]
    elif shape == "fill":
        c["prog"] = [["fill", val()]]
    elif shape == "full":
        c["prog"] = [["slice", 0, [val() for _ in range(n)]]]
    else:
        prog = []
        for _ in range(rng.choice([0, 1, 2, 3, 4])):
            k = rng.random()
            if k < 0.12:
                prog.append(["fill", val()])
            elif k < 0.45 and n > 0:
                prog.append(["idx", rng.randrange(n), val()])
            else:
                lo = rng.randint(0, n)
                prog.append(["slice", lo, [val() for _ in range(rng.randint(0, n - lo))]])
        c["prog"] = prog
    return c


def _wbr_prog(c):
    """the flat list of stores the case performs (what NumPy is asked to do, and what the oracle reasons about)"""
    if c["shape"] in ("tile", "gap"):
        prog, start = [], 0
        for i, sgm in enumerate(c["segs"]):
            if not (c["shape"] == "gap" and i == c.get("skip")):
                prog.append(["slice", start, sgm])
            start += len(sgm)
        return prog
    if c["shape"] == "enum":
        return [["idx", i, v] for i, v in enumerate(c["vals"])]
    return c["prog"]


def generate(rng, tier):
    per = 7 if tier == "quick" else 60
    few = 3 if tier == "quick" else 12
    cases = [{"kind": "sites"}]
    for _ in range(120 if tier == "quick" else 1200):
        cases.append(_gen_ufunc(rng))
    for _ in range(100 if tier == "quick" else 1000):
        cases.append(_gen_wbr(rng))

    def add_run(name, p):
        pb = p
        for _ in range(8):                     # content B: same shapes, other values
            pb = VARY[name](rng, p)
            if pb != p:
                break
        cases.append({"kind": "run", "routine": name, "params": p, "params_b": pb})
    for name in ROUTINES:
        for _ in range(few if name in SLOW else per * WEIGHT.get(name, 1)):
            add_run(name, ROUTINES[name][0](rng))
    # in-place variants on dense input (the combination in which a missing defensive copy shows)
    for _ in range(4 if tier == "quick" else 30):
        p = g_trim(rng)
        p["ren"], p["fmt"] = False, "dense"
        add_run("trim_disconnected", p)
    for name, n_ in (("ra.load", 8 if tier == "quick" else 60), ("load_as_concatenated", 3 if tier == "quick" else 16)):
        g, v = FILE_ROUTINES[name]
        for _ in range(n_):
            p = g(rng)
            cases.append({"kind": "file", "routine": name, "params": p, "params_b": v(rng, p)})
    # round 3s streams
    for b in BG_BUILDERS:
        for _ in range((2 if b == "mle" else 3) if tier == "quick" else 12):
            cases.append(_gen_bgrid(rng, b))
    for _ in range(150 if tier == "quick" else 1500):
        cases.append(_gen_rahist(rng))
    for k in range(len(NPROC_ROUTINES) if tier == "quick" else 4 * len(NPROC_ROUTINES)):
        cases.append(_gen_nproc(rng, NPROC_ROUTINES[k % len(NPROC_ROUTINES)], tier))
    for rep in range(1 if tier == "quick" else 3):
        deck = list(NPROC_ODD_LENGTHS)
        rng.shuffle(deck)
        for k, L in enumerate(deck):
            cases.append(_gen_nproc_odd(rng, "bace.baysean_prune", L, tier))
            cases.append(_gen_nproc_odd(rng, "bace.calcDMat", L, tier))
            cases.append(_gen_nproc_odd(rng, "bace.bace", L, tier))
    for _ in range(4 if tier == "quick" else 16):
        cases.append(_gen_kcti(rng))
    thr = [_gen_thr(rng, tier) for _ in range(8 if tier == "quick" else 40)]
    for k, (routine, form) in enumerate([("joint_counts", "1d"), ("joint_counts", "col"), ("joint_counts", "self"),
                                         ("mi_matrix", "col")]):
        thr[k]["routine"], thr[k]["form"] = routine, form          # every shape occurs in every run
        thr[k]["ntraj"] = thr[k]["ntraj"] if routine == "mi_matrix" else 1
    cases += thr
    # round 3s (E): seeded routines after different histories of the process-wide random generators
    for rep in range(2 if tier == "quick" else 12):
        for name in SEEDED_ROUTINES:
            cases.append(_gen_seeded(rng, name))
    return cases


# ============================================================================ running
def _run_sites():
    import sites
    from core import TranslatorReject
    try:
        files, found = sites.scan(_repo)
    except TranslatorReject as ex:
        return {"err": "TranslatorReject", "msg": str(ex)}
    summ = [sites.site_summary(s) for s in found]
    un = sites.uninit_allocs(_repo, files)
    try:
        _afiles, asites, pool_globals = sites.scan_allocs(_repo)
    except TranslatorReject as ex:
        return {"err": "TranslatorReject", "msg": str(ex)}
    return {"files": len(files), "pyx": sum(1 for f in files if f.endswith(".pyx")), "sites": summ,
            "uninit_allocs": ["%s:%d np.%s" % u for u in un],
            "allocs": [sites.alloc_summary(a) for a in asites],
            "pool_globals": ["%s:%d %s global %s" % g for g in pool_globals]}


def _run_wbr(c):
    prog = _wbr_prog(c)

    def go(junk):
        a = np.array(junk, dtype=float)          # stands for np.empty(n): the allocator's cells
        if c["shape"] in ("tile", "gap"):
            start = 0                            # the loop of enspara/mpi/io.py, literally
            for i, sgm in enumerate(c["segs"]):
                end = start + len(sgm)
                if not (c["shape"] == "gap" and i == c.get("skip")):
                    a[start:end] = np.array(sgm, dtype=float)
                start = end
            assert end == len(a) if c["segs"] else True
        elif c["shape"] == "enum":
            for i, v in enumerate(c["vals"]):
                a[i] = v
        else:
            for op in prog:
                if op[0] == "fill":
                    a.fill(op[1])
                elif op[0] == "idx":
                    a[op[1]] = op[2]
                else:
                    a[op[1]:op[1] + len(op[2])] = np.array(op[2], dtype=float)
        return a
    try:
        r1 = go(c["junk"])
        r2 = go([v + 100 for v in c["junk"]])
        return {"val": [int(v) for v in r1.tolist()], "indep": bool(np.array_equal(r1, r2))}
    except Exception as ex:
        return {"err": type(ex).__name__}


def _run_ufunc(c):
    fn = getattr(np, c["uf"])
    x = np.array(c["x"], dtype=float)
    ops = [x] if c["y"] is None else [x, np.array(c["y"], dtype=float)]
    m = np.array(c["m"], dtype=bool)
    try:
        if c["init"] is not None:
            out = np.array(c["init"], dtype=float)
            r = fn(*ops, where=m, out=out)
            return {"val": [int(v) for v in out.tolist()], "same": bool(r is out)}
        _poison([8 * max(1, len(c["x"]))], "nan")
        r = fn(*ops, where=m)
        # masked-out cells are whatever the allocator returned: reported as null, never compared
        return {"val": [int(v) if (mk and v == v) else None for v, mk in zip(r.tolist(), m.tolist())], "noout": True}
    except Exception as ex:
        return {"err": type(ex).__name__}


def run_impl(c):
    if c["kind"] == "sites":
        return _run_sites()
    if c["kind"] == "ufunc":
        return _run_ufunc(c)
    if c["kind"] == "wbr":
        return _run_wbr(c)
    if c["kind"] in ("bgrid", "rahist", "nproc", "seeded"):
        return _child("t1", 1).call(c)
    if c["kind"] == "kcti":
        # in the long-lived child (a heap with a history) and in a fresh one
        r1 = _child("t1", 1).call(c)
        r2 = _child("young", 1).call(c)
        if "err" in r1 or "err" in r2:
            return {"err": r1.get("err") or r2.get("err"), "t1": r1, "young": r2}
        return {"runs": r1["runs"] + r2["runs"], "fails": (r1["fails"] + r2["fails"])[:4], "partial": min(r1["partial"], r2["partial"]),
                "args_kept": r1["args_kept"] and r2["args_kept"]}
    if c["kind"] == "thr":
        return {lab: _child(lab, n).call(c) for lab, n in THR_CHILDREN}
    res = {}
    res["t1"] = _child("t1", 1).call(c)
    res["t8"] = _child("t8", 8).call(c)
    young = _child("young", 1)
    if young.proc is not None and young.served >= YOUNG_RESTART:
        young.stop()
    res["young"] = young.call(c)
    return res


CONDS = ["base", "repeat", "heap_nan", "heap_ff", "fresh_args"]


def _oracle_bgrid(c, r):
    name = "builders." + c["builder"]
    if "err" in r:
        return [("crash:" + name, "builder grid: %s (case %s)" % (r, json.dumps(c)[:300]))]
    out = []
    for f in r["fails"]:
        what = "%s(%s %s, prior_counts=%s, calculate_eq_probs=%s) on counts %s" % (
            name, f["container"], f["dtype"], f["prior"], c["eq"], json.dumps(c["C"]))
        if f["why"] == "argument-mutated":
            out.append(("argument-mutated:" + name, "%s changed its %s argument: it held %s and holds %s after the call"
                        % (what, f.get("which", "counts"), f["before"], f["after"])))
        elif f["why"] == "repeat":
            out.append(("history-dependence:" + name, "%s: a second call with the same object returned %s, the first %s (value %s)"
                        % (what, f["second"], f["first"], str(f["first_value"])[:300])))
        else:
            out.append(("history-dependence:" + name, "%s: a call on a freshly built equal argument returned %s, the first call %s"
                        % (what, f["fresh"], f["first"])))
    return out


def _oracle_rahist(c, r):
    if "err" in r:
        return [("crash:RaggedArray.history", "%s (case %s)" % (r, json.dumps(c)[:400]))]
    out = []
    head = "RaggedArray(%s %s, built %s) after steps %s: " % (c["dtype"], json.dumps(c["rows"]), c["build"], json.dumps(c["prog"])[:500])
    for f in r["fails"]:
        pre = head + "step %d %s " % (f["step"], json.dumps(f["op"]))
        if f["why"] == "observer-changed-array":
            out.append(("argument-mutated:RaggedArray." + f["op"][0], pre + "is a read but changed the array"))
        elif f["why"] == "fresh":
            out.append(("history-dependence:RaggedArray." + f["op"][0],
                        pre + "gave %s; the same lookup on a newly constructed RaggedArray with the same rows %s gives %s"
                        % (f["got"], f["rows_now"], f["fresh"])))
        else:
            out.append(("history-dependence:RaggedArray." + f["op"][0],
                        pre + "left the array that had been looked at before as %s and its twin that had not as %s"
                        % (f["observed_array"], f["unobserved_twin"])))
    return out


def _oracle_thr(c, r):
    name = c["routine"] + ".single-pair"
    out = []
    try:
        exp = _thr_expected(c)
    except Exception as ex:
        return [("oracle-exception", "NumPy reference failed: %s" % ex)]
    desc = "%s on %d frames (seed %d, %s, form %s, states %dx%d, skew %s)" % (
        c["routine"], c["T"], c["seed"], c["dtype"], c["form"], c["nx"], c["ny"], c["skew"])
    ref = None
    if c["routine"] == "mi_matrix":
        from enspara.info_theory import mutual_info as M
        ny = c["ny"]
        v = M.mutual_information(np.array(exp, dtype=np.uint32).reshape(1, 1, c["nx"], ny))
        ref = [float(t).hex() for t in np.asarray(v, dtype=float).ravel()]
    for lab, n in THR_CHILDREN:
        w = r.get(lab, {})
        if "err" in w or "runs" not in w:
            out.append(("crash:" + name, "%s child: %s; %s" % (lab, w, desc)))
            continue
        if not w.get("args_kept"):
            out.append(("argument-mutated:" + name, "%s child: an argument changed; %s" % (lab, desc)))
        for k, run in enumerate(w["runs"]):
            if "err" in run:
                out.append(("crash:" + name, "%s child, call %d: %s; %s" % (lab, k, run, desc)))
                break
            got, want = (run["table"], exp) if ref is None else (run["mi"], ref)
            if got != want:
                first = r.get("t1", {}).get("runs", [{}])[0]
                kind = "threads" if n > 1 and first.get("table" if ref is None else "mi") == want else "history"
                out.append(("%s-dependence:%s" % (kind, name),
                            "%s with OMP_NUM_THREADS=%d, call %d of %d returned %s; counting with NumPy (bincount = histogram2d) "
                            "and the single-thread run give %s" % (desc, n, k + 1, len(w["runs"]), got, want)))
                break
    return out


def oracle(c, r):
    out = []
    if c["kind"] == "sites":
        if "err" in r:
            return [("scan-rejected", r.get("msg", ""))]
        for s in r["sites"]:
            if s["kind"] == "masked" and not s["guarded"]:
                out.append(("unguarded-masked-site", "%s:%d in %s: %s -- %s" % (s["file"], s["line"], s["func"], s["call"], s["guard"])))
        # every textual np.empty / empty_like / ndarray( token of the tree is one of the classified allocation sites
        listed = {(a["file"], a["line"]) for a in r.get("allocs", [])}
        for u in r.get("uninit_allocs", []):
            loc = u.split(" ")[0]
            fn_, ln_ = loc.rsplit(":", 1)
            if (fn_, int(ln_)) not in listed:
                out.append(("unclassified-allocation", u))
        return out
    if c["kind"] == "wbr":
        prog, n = _wbr_prog(c), c["n"]
        fits = all(op[0] == "fill" or (op[0] == "idx" and op[1] < n) or (op[0] == "slice" and op[1] + len(op[2]) <= n)
                   for op in prog)
        if fits == ("err" in r):
            out.append(("numpy-store-shape", "%s: %s" % (c, r)))
        if "err" not in r:
            cells = [False] * n
            for op in prog:
                if op[0] == "fill":
                    cells = [True] * n
                elif op[0] == "idx":
                    cells[op[1]] = True
                else:
                    for i in range(op[1], op[1] + len(op[2])):
                        cells[i] = True
            if all(cells) != r["indep"]:
                out.append(("write-before-read", "every cell stored: %s, result independent of the junk: %s; %s" % (all(cells), r["indep"], c)))
        return out
    if c["kind"] == "ufunc":
        n = len(c["x"])
        bad_shape = len(c["m"]) != n or (c["init"] is not None and len(c["init"]) != n)
        if bad_shape != ("err" in r):
            out.append(("numpy-masked-shape", "%s: %s" % (c, r)))
        return out
    if c["kind"] == "bgrid":
        return _oracle_bgrid(c, r)
    if c["kind"] == "rahist":
        return _oracle_rahist(c, r)
    if c["kind"] == "nproc":
        return _oracle_nproc(c, r)
    if c["kind"] == "kcti":
        return _oracle_kcti(c, r)
    if c["kind"] == "seeded":
        return _oracle_seeded(c, r)
    if c["kind"] == "thr":
        return _oracle_thr(c, r)
    name = c["routine"]
    for lab in ("t1", "t8", "young"):
        w = r.get(lab, {})
        if w.get("ow_applied") and w.get("ow_same_obj") != w.get("ow_fresh"):
            out.append(("overwrite-history-dependence:" + name,
                        "%s child: after the argument objects%s were overwritten in place with new contents the routine "
                        "returned %s, on freshly built objects with the same contents %s (first call, old contents: %s); "
                        "params %s; new contents %s" % (lab, " (files at the same paths)" if c["kind"] == "file" else "",
                                                        w.get("ow_same_obj"), w.get("ow_fresh"), w.get("base"),
                                                        json.dumps(c["params"])[:300], json.dumps(c["params_b"])[:300])))
        if w.get("ow_applied") and w.get("ow_args_kept") is False:
            out.append(("argument-mutated:" + name, "%s child: an argument array changed during the call on the overwritten "
                        "objects; params %s" % (lab, json.dumps(c["params_b"])[:400])))
        if "err" in w:
            out.append(("crash:" + name, "%s child: %s (params %s)" % (lab, w, json.dumps(c["params"])[:300])))
    if out:
        return out
    ref = r["t1"]["base"]
    for lab in ("t1", "t8", "young"):
        w = r[lab]
        for cond in CONDS:
            if w[cond] != ref:
                if w[cond] != w["base"]:
                    kind = "heap" if cond in ("heap_nan", "heap_ff") else "history"
                else:
                    kind = "threads" if lab == "t8" else "history"
                out.append(("%s-dependence:%s" % (kind, name),
                            "%s/%s gave %s, reference (1 thread, first call) %s; params %s; reference value %s"
                            % (lab, cond, w[cond], ref, json.dumps(c["params"])[:400], str(r["t1"].get("preview"))[:200])))
                break
        if not (w["args_after_base"] and w["args_after_all"]):
            out.append(("argument-mutated:" + name, "%s child: an argument array changed during the call; params %s"
                        % (lab, json.dumps(c["params"])[:400])))
    if name == "libdist.out_vs_noout" and r["t1"].get("preview") is not None:
        if not all(t[2] for t in r["t1"]["preview"]):
            out.append(("out-buffer-not-zeroed:" + name, "kernel result with a NaN-filled out= differs from the result without out=: %s"
                        % json.dumps(c["params"])[:300]))
    if name.startswith("libdist.") and name != "libdist.out_vs_noout" and c["params"]["out"] != "none":
        pv = r["t1"].get("preview")
        if pv is not None and not (pv[2] is True and pv[0] == pv[1]):
            out.append(("out-not-returned:" + name, "out= buffer is not what is returned: %s" % str(pv)[:200]))
    return out


# ============================================================================ Coq side
def _q(v):
    return "(%d # 1)" % int(v)


def _ql(l):
    return "(@nil Q)" if len(l) == 0 else "[" + "; ".join(_q(v) for v in l) + "]"


def _bl(l):
    return "(@nil bool)" if len(l) == 0 else "[" + "; ".join("true" if b else "false" for b in l) + "]"


def coq_check(c, r):
    if c["kind"] == "sites":
        if "err" in r:
            return None
        lines = [s["line"] for s in r["sites"] if s["kind"] == "masked"]
        others = sum(1 for s in r["sites"] if s["kind"] != "masked")
        nl = "(@nil nat)" if not lines else "[" + "; ".join("%d%%nat" % l for l in lines) + "]"
        alines = [a["line"] for a in r["allocs"]]
        anl = "(@nil nat)" if not alines else "[" + "; ".join("%d%%nat" % l for l in alines) + "]"
        return ("Nat.eqb n_masked_sites %d%%nat && Nat.eqb n_other_where_calls %d%%nat && Nat.eqb n_scanned_files %d%%nat "
                "&& CaseLib.nl_eqb masked_site_lines %s && Nat.eqb n_alloc_sites %d%%nat && CaseLib.nl_eqb alloc_site_lines %s "
                "&& Nat.eqb n_pool_globals %d%%nat && Nat.eqb n_cache_idioms 0 && Nat.eqb n_alloc_scanned_files %d%%nat"
                % (len(lines), others, r["files"], nl, len(alines), anl, len(r["pool_globals"]), r["files"]))
    if c["kind"] == "wbr":
        if "err" in r:
            return None
        return ("CaseLib.ql_eqb (run %s %s) %s && Bool.eqb (all_written %s %d%%nat) %s"
                % (_wbr_term(c), _ql(c["junk"]), _ql(r["val"]), _wbr_term(c), c["n"], "true" if r["indep"] else "false"))
    if c["kind"] == "ufunc":
        if "err" in r:
            init = c["init"] if c["init"] is not None else c["x"]
            return "CaseLib.opt_eqb CaseLib.ql_eqb (%s) (@None (list Q))" % _model_term(c, init)
        if c["init"] is not None:
            return "CaseLib.opt_eqb CaseLib.ql_eqb (%s) (Some %s)" % (_model_term(c, c["init"]), _ql(r["val"]))
        # no out=: exists junk (the cells NumPy returned), result = masked f x m junk; only masked-in cells are known
        junk = [0 if v is None else v for v in r["val"]]
        return "CaseLib.opt_eqb CaseLib.ql_eqb (%s) (Some %s)" % (_model_term(c, junk), _ql(junk))
    return None


def _wbr_term(c):
    if c["shape"] == "tile":
        return "(tile_prog 0 %s)" % ("(@nil (list Q))" if not c["segs"] else "[" + "; ".join(_ql(sg) for sg in c["segs"]) + "]")
    if c["shape"] == "enum":
        return "(enum_prog %s)" % _ql(c["vals"])
    ops = []
    for op in _wbr_prog(c):
        if op[0] == "fill":
            ops.append("WFill %s" % _q(op[1]))
        elif op[0] == "idx":
            ops.append("WIdx %d%%nat %s" % (op[1], _q(op[2])))
        else:
            ops.append("WSlice %d%%nat %s" % (op[1], _ql(op[2])))
    return "(@nil (wr Q))" if not ops else "[" + "; ".join(ops) + "]"


def _model_term(c, init):
    f, ar = UFUNCS[c["uf"]]
    if ar == 1:
        return "masked_np %s %s %s %s" % (f, _ql(c["x"]), _bl(c["m"]), _ql(init))
    return ("(if Nat.eqb (length %s) (length %s) then masked_np (fun p => %s (fst p) (snd p)) (combine %s %s) %s %s else None)"
            % (_ql(c["x"]), _ql(c["y"]), f, _ql(c["x"]), _ql(c["y"]), _bl(c["m"]), _ql(init)))


def coq_show(c):
    if c["kind"] == "sites":
        return "(n_masked_sites, n_other_where_calls, n_scanned_files, masked_site_lines)"
    if c["kind"] == "ufunc":
        return _model_term(c, c["init"] if c["init"] is not None else [0] * len(c["x"]))
    if c["kind"] == "wbr":
        return "(run %s %s, all_written %s %d%%nat)" % (_wbr_term(c), _ql(c["junk"]), _wbr_term(c), c["n"])
    return "tt"


def _ok_everywhere(r):
    try:
        return all("digest" in r[lab][cond] for lab in ("t1", "t8", "young") for cond in CONDS)
    except (KeyError, TypeError):
        return False


def nontrivial(c, r):
    if c["kind"] == "sites":
        return "err" not in r and any(s["kind"] == "masked" for s in r["sites"])
    if c["kind"] == "ufunc":
        return "err" not in r and any(c["m"]) and not all(c["m"])
    if c["kind"] == "wbr":
        return "err" not in r and c["n"] > 0 and len(_wbr_prog(c)) > 0
    if c["kind"] == "bgrid":
        return "err" not in r and r.get("values", 0) > 0
    if c["kind"] == "rahist":
        return "err" not in r and r.get("obs_after_append", 0) + r.get("obs_after_set", 0) > 0
    if c["kind"] == "thr":
        return all("runs" in r.get(lab, {}) and all("err" not in x for x in r[lab]["runs"]) for lab, _n in THR_CHILDREN)
    if c["kind"] == "nproc":
        return "err" not in r and len({k for k, _rep, how in r.get("runs", []) if how == "value"}) >= 2
    if c["kind"] == "kcti":
        return "err" not in r and r.get("partial", 0) > 0 and sum(1 for _f, how in r["runs"] if how == "value") >= 2
    if c["kind"] == "seeded":
        return "err" not in r and len(r.get("runs", [])) >= 4 and not any(str(d).startswith("err:") for _s, _h, d in r["runs"])
    return _ok_everywhere(r)


def _probe_state(r):
    """'changed' when the overwrite probe ran in all three children and the new contents changed the result,
    'same' when it ran but the result happened to be the same, 'skipped' otherwise"""
    try:
        ws = [r[lab] for lab in ("t1", "t8", "young")]
    except (KeyError, TypeError):
        return "skipped"
    if not all(isinstance(w, dict) and w.get("ow_applied") for w in ws):
        return "skipped"
    return "changed" if all(w.get("ow_changed") for w in ws) else "same"


def _has_masked_out(c):
    p = c["params"]
    n = c["routine"]
    if n == "shannon_entropy":
        return any(v == 0 for v in p["counts"])
    if n == "mutual_information":
        return any(sum(sum(row) for row in blk) == 0 for fr in p["jc"] for blk in fr)
    if n == "weighted_mi":
        # cells of the product-of-marginals table are zero (masked out) when some feature never visits, with positive
        # weight, one of the max_n_fstates states
        feats, w = p["features"], p["w"]
        nmax = p["n"] if p["given_states"] else max(max(r) for r in feats) + 1
        for k in range(len(feats[0])):
            seen = {r[k] for r, wi in zip(feats, w) if wi > 0}
            if any(u not in seen for u in range(nmax)):
                return True
        return False
    return False


def tags(c, r):
    if c["kind"] == "sites":
        if "err" in r:
            return ["sites-scan-rejected"]
        t = ["sites-scan"]
        t += ["masked-site-guarded" if s["guarded"] else "masked-site-UNGUARDED" for s in r["sites"] if s["kind"] == "masked"]
        t += ["where-call-not-a-mask" for s in r["sites"] if s["kind"] != "masked"]
        t += ["alloc-site-" + a["pattern"] for a in r.get("allocs", [])]
        t += ["pool-initialiser-global" for _ in r.get("pool_globals", [])]
        t.append("cache-scan-clean")
        return t
    if c["kind"] == "wbr":
        if "err" in r:
            return ["wbr-" + c["shape"] + "-rejected"]
        return ["wbr-" + c["shape"], "wbr-all-written" if r["indep"] else "wbr-cell-left-unwritten"]
    if c["kind"] == "ufunc":
        return ["ufunc-" + c["mode"] + ("-rejected" if "err" in r else "")]
    if c["kind"] == "bgrid":
        if "err" in r:
            return ["exception-or-crash"]
        t = ["bgrid:" + c["builder"]]
        if r["values"] == len(BG_CONTAINERS) * len(BG_DTYPES) * 2:
            t.append("bgrid-every-combination-returned-a-value")
        pv = r.get("prior_values", {})
        if any(pv.get(l) for l in BG_PRIORS if l.startswith("zero")):
            t.append("bgrid-prior-present-but-zero")
        if any(pv.get(l) for l in ("matrix", "matrix-int", "row")):
            t.append("bgrid-prior-array-valued")
        return t
    if c["kind"] == "nproc":
        if "err" in r:
            return ["exception-or-crash"]
        if "skipped" in r:
            return ["nproc", "nproc-pool-unavailable"]
        t = ["nproc", "nproc:" + c["routine"]]
        t += ["nproc-compared-1-2-4-processes:" + c["routine"]] if nontrivial(c, r) else []
        if c.get("odd") and nontrivial(c, r):
            ok = {k for k, _rep, how in r["runs"] if how == "value"}
            L = c["odd"]
            more = [k for k in ok if k > 1 and _bace_blocks(L, k) > min(L, k)]
            if more:
                t.append("nproc-more-blocks-than-processes:" + c["routine"])
            if {5, 6} & ok:
                t.append("nproc-5-or-6-processes:" + c["routine"])
            if 16 in ok:
                t.append("nproc-16-processes")
        t += ["nproc-call-raises"] if any(how != "value" for _k, _rep, how in r["runs"]) else []
        return t
    if c["kind"] == "seeded":
        if "err" in r:
            return ["exception-or-crash"]
        t = ["seeded", "seeded:" + c["routine"], "seeded-type-" + c["seed_type"]]
        if nontrivial(c, r):
            t.append("seeded-all-histories-returned:" + c["routine"])
            by = {}
            for sd, _h, d in r["runs"]:
                by.setdefault(sd, set()).add(d)
            if 0 in by:
                t.append("seeded-seed-0:" + c["routine"])
            if len(set.union(*by.values())) > 1 and all(len(v) == 1 for v in by.values()):
                t.append("seeded-result-depends-on-seed:" + c["routine"])     # the random choices matter on this input
        return t
    if c["kind"] == "kcti":
        if "err" in r:
            return ["exception-or-crash"]
        t = ["kcti"]
        if nontrivial(c, r):
            t.append("kcti-frames-skipped-by-the-shortcut")
        if all(how == "value" for _f, how in r["runs"]):
            t.append("kcti-all-heap-histories-returned")
        return t
    if c["kind"] == "rahist":
        if "err" in r:
            return ["exception-or-crash"]
        t = ["rahist"]
        t += ["rahist-observed-after-append"] if r["obs_after_append"] else []
        t += ["rahist-observed-after-setitem"] if r["obs_after_set"] else []
        t += ["rahist-offsets-read-then-append-then-2d-lookup"] if r["stale_pattern"] else []
        t += ["rahist-compared-with-fresh"] if r["fresh_compared"] else []
        t += ["rahist-compared-with-twin"] if r["twin_compared"] else []
        t += ["rahist-agrees-with-other-constructor-form-only"] if r.get("fresh_other_form") else []
        t += ["rahist-rectangular-built-flat"] if c["build"] == "flat" and len({len(x) for x in c["rows"]}) == 1 else []
        t += ["rahist-step-raises"] if any(x not in ("value", "done") for x in r["steps"]) else []
        return t
    if c["kind"] == "thr":
        ok = nontrivial(c, r)
        t = ["thr:%s-%s" % (c["routine"], c["form"])] if ok else ["exception-or-crash"]
        t += ["threads-%d" % n for lab, n in THR_CHILDREN if isinstance(r.get(lab), dict) and r[lab].get("omp") == str(n)]
        return t
    t = ["run:" + c["routine"]]
    ps = _probe_state(r)
    t.append("overwrite-probe-" + ps)
    if ps != "skipped":
        t.append("overwrite-probe:" + c["routine"])
    if c["kind"] == "file":
        t.append("file-rewritten-at-same-path" if ps == "changed" else "file-probe-" + ps)
    if _ok_everywhere(r):
        t.append("value:" + c["routine"])
    else:
        t.append("exception-or-crash")
    if c["routine"] in MASKED_ROUTINES and _has_masked_out(c):
        t.append("masked-out-cells:" + c["routine"])
    if c["routine"].startswith("libdist.") and c["params"].get("out") in ("nan", "ff", "big"):
        t.append("poisoned-out-buffer")
    if isinstance(r.get("t1"), dict) and r["t1"].get("n_sizes", 0) > 0:
        t.append("heap-perturbed")
    if isinstance(r.get("t8"), dict) and r["t8"].get("omp") == "8":
        t.append("threads-8")
    return t


ESSENTIAL_TAGS = (["sites-scan", "masked-site-guarded", "ufunc-out", "ufunc-noout", "ufunc-badmask-rejected", "ufunc-badout-rejected",
                   "poisoned-out-buffer", "heap-perturbed", "threads-8"]
                  + ["value:" + n for n in ROUTINES] + ["masked-out-cells:" + n for n in sorted(MASKED_ROUTINES)]
                  + ["cache-scan-clean", "wbr-random", "wbr-tile", "wbr-enum", "wbr-gap", "wbr-oob-rejected", "wbr-all-written",
                     "wbr-cell-left-unwritten", "overwrite-probe-changed", "file-rewritten-at-same-path"]
                  + ["overwrite-probe:" + n for n in ROUTINES] + ["value:" + n for n in ("ra.load", "load_as_concatenated")]
                  + ["bgrid:" + b for b in BG_BUILDERS] + ["bgrid-every-combination-returned-a-value", "bgrid-prior-present-but-zero",
                     "bgrid-prior-array-valued", "nproc", "nproc-more-blocks-than-processes:bace.baysean_prune",
                     "nproc-more-blocks-than-processes:bace.calcDMat", "nproc-more-blocks-than-processes:bace.bace",
                     "nproc-5-or-6-processes:bace.baysean_prune", "nproc-5-or-6-processes:bace.calcDMat",
                     "nproc-5-or-6-processes:bace.bace", "nproc-16-processes", "kcti-frames-skipped-by-the-shortcut",
                     "kcti-all-heap-histories-returned", "rahist-rectangular-built-flat", "rahist-observed-after-append",
                     "rahist-observed-after-setitem", "rahist-offsets-read-then-append-then-2d-lookup", "rahist-compared-with-fresh",
                     "rahist-compared-with-twin", "thr:joint_counts-1d", "thr:joint_counts-col", "thr:joint_counts-self",
                     "thr:mi_matrix-col", "threads-4", "threads-16"]
                  + ["seeded-seed-0:" + n for n in sorted(set(SEEDED_ROUTINES))]
                  + ["seeded-result-depends-on-seed:" + n for n in ("kmedoids", "hybrid", "KHybrid")])


def search(rng, tier):
    """Proof or translator broke: name the unguarded site(s) and look for an input on which the routine containing it
    gives different results under heap perturbation."""
    found = []
    r = _run_sites()
    for key, msg in oracle({"kind": "sites"}, r):
        found.append((key, msg, {"kind": "sites"}, r))
    for name in sorted(MASKED_ROUTINES):
        for _ in range(60):
            c = {"kind": "run", "routine": name, "params": ROUTINES[name][0](rng)}
            res = run_impl(c)
            o = oracle(c, res)
            if o:
                found.insert(0, (o[0][0], o[0][1], c, res))
                break
    return found


if __name__ == "__main__":
    if "--worker" in sys.argv:
        _worker_main()
