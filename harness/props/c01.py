"""C01: clustering results are self-consistent for every algorithm and input."""
import cluster_common as cc
from cluster_common import CASE_HEADER, MODEL_TARGETS, GEN_FILES
import os, sys
from core import VERIF
sys.path.insert(0, os.path.join(VERIF, "translator"))
import tr_kcguard


def translate(repo):
    return cc.translate_all(repo)


PID = "C01"
PROPS_FILE = "Props/C01.v"
TRUSTED = cc.TRUSTED
ASSUMPTIONS = ["data points are pairwise distinct; initial centres are frames of the data; 1 <= k <= n; >= 1 sweep for kmedoids"]
RULE = ("2..12 distinct points with small integer coordinates (dim 1..3, float32/64, int32/64) under euclidean/manhattan, or an "
        "arbitrary symmetric integer matrix realised by a callable metric; kcenters (function/estimator, cold/warm, radius and/or "
        "count, triangle shortcut), kmedoids (cold, from centre indices, from (trajectory,frame) pairs, from a consistent state; "
        "random proposals recorded, or explicit proposals incl. outside the cluster / current medoid / another medoid), hybrid "
        "(function/estimator). The model runs on the implementation's own distance matrix (exact rationals) and recorded proposals; "
        "compared exactly: centre indices, labels, distances. Oracle: the invariant of the property on the implementation's output. "
        "non-trivial := n >= 4 and k >= 2"
        " Input-class axes, each forced in every run for every entry point (cluster_common.gen_axis_streams): memory layout of the data (column subset / strided rows / Fortran / transposed / negative stride / strided columns / read-only; same values, the metric is evaluated on a fresh contiguous copy); container of the warm-start centres (2-D array or md.Trajectory slice, Python list of frames, the .centers list of an earlier result) with argument-unchanged checks on the list and the earlier result; a metric that returns its result in one reused float64 buffer; estimator-reuse histories (constructed with other parameters, optional earlier fit on the same or other data, parameters changed through set_params / attribute assignment, second fit) compared with the function form called with the current parameters; tiny length scales (x 2^-14..2^-20) incl. k-medoids started from labels+distances without centre indices. Every run of the real code is bounded by a watchdog (10 s; key does-not-terminate)."
        " Estimator form: labels_ / distances_ / center_indices_ / centers_ are read after EVERY fit of a history (earlier fit read through "
        "the attributes, fit_predict or predict; fit under test; second fit; warm start from est.centers_ of an earlier fit of the same "
        "estimator) and must be those of that fit's result_; after the fit under test the clustering they describe is judged by the "
        "property's clauses on its own. Wide feature vectors (48..100 features, float32/float64 with 12 fractional bits, euclidean) "
        "through every entry point; k-medoids / k-hybrid there by the oracle only (irrational distances). The triangle-inequality "
        "shortcut on data obeying the triangle inequality (integer points under euclidean / manhattan, shortest-path closures of tables on "
        "an index column or md.Trajectory), 7..14 frames, >= 3 centres, count or attained radius, cold or continued from 1..2 frames, "
        "built so that a new centre takes frames away from a neighbouring cluster (cluster_common.gen_ti_steal).")
SHARD = 60


def generate(rng, tier):
    N = 150 if tier == "quick" else 1500
    cases = []
    for _ in range(N):
        r = rng.random()
        if rng.random() < 0.08:
            cases.append(cc.gen_ti_boundary(rng))
            continue
        if rng.random() < 0.06:
            cases.append(cc.gen_traj_kcenters(rng))
            continue
        cases.append(cc.gen_kcenters(rng) if r < 0.4 else cc.gen_kmedoids(rng) if r < 0.8 else cc.gen_hybrid(rng))
    cases += cc.gen_axis_streams(rng, ["kcenters", "kmedoids", "hybrid", "traj"], reps=1 if tier == "quick" else 6)
    cases += cc.gen_wide_stream(rng, reps=1 if tier == "quick" else 6)
    # the shortcut on metric data with >= 3 centres where a new centre takes frames away from a neighbouring cluster
    for _ in range(16 if tier == "quick" else 160):
        cases.append(cc.gen_ti_steal(rng))
    return cases


run_impl = cc.run_case


def oracle(c, out):
    if "err" in out:
        if c["kind"] == "kcenters" and c["nclu"] is None and c["cutoff"] is None and out["err"] == "ImproperlyConfigured":
            return []      # no stopping criterion at all: rejection is the documented behaviour
        return [cc.err_failure(out)]
    if c.get("ti") and not cc.is_metric_space([[cc.F(v) for v in row] for row in out["D"]]):
        return []   # the shortcut is only claimed for metrics obeying the triangle inequality; correspondence still runs
    f = cc.inv_failures(out)
    if out.get("attrs_ok") is False:
        f.append(("estimator-attrs", "estimator attributes differ from result_"))
    f += cc.attr_failures(out)
    f += cc.explicit_failures(c, out)
    if out.get("chain_equal") is False:
        f.append(("not-reproducible", "public kmedoids result differs from the chained per-sweep run with the same seed"))
    return f


coq_check = cc.coq_check


def coq_show(c):
    return cc.coq_show(c)


def nontrivial(c, out):
    return "res" in out and c["n"] >= 4 and len(out["res"]["ctrs"]) >= 2


tags = cc.common_tags
ESSENTIAL_TAGS = ["ti-new-centre-takes-frames-of-neighbouring-cluster", "wide-features-kcenters-float32", "wide-features-kcenters-float64", "wide-features-kmedoids-float32", "wide-features-kmedoids-float64",
                  "wide-features-hybrid-float32", "wide-features-hybrid-float64", "init-estimator",
                  "estimator-read-attrs-then-refit", "estimator-read-fit_predict-then-refit", "estimator-read-predict-then-refit",
                  "tiny-scale-start-without-centres", "init-array", "init-list", "init-result", "warm-init-md-trajectory", "non-contiguous-data", "buffer-reusing-metric",
                  "estimator-history-kcenters", "estimator-history-kmedoids", "estimator-history-hybrid",
                  "md-trajectory-input", "more-clusters-than-frames", "kcenters", "kmedoids", "hybrid", "warm-init", "ti", "estimator-form", "start-cold", "start-centers",
                  "start-state", "start-pairs", "explicit-proposals", "random-proposals", "matrix", "euclidean", "manhattan"]
