"""C14: MPI-striped clustering and reductions equal their serial counterparts.

There is no MPI runtime in the sandbox: the real enspara code runs on the thread-simulated mpi4py of
harness/mpisim.py (one thread per rank, bulk-synchronous collectives).  Each case fixes a world size
P and a vector of trajectory lengths; trajectory t is handed to rank t mod P exactly as the loaders do."""
import os, shutil, sys, tempfile
from fractions import Fraction as F
import numpy as np
import cluster_common as cc
from core import cn, cz, cq, cb, clist, copt, VERIF
import mpisim
sys.path.insert(0, os.path.join(VERIF, "translator"))
import tr_mpi

PID = "C14"
PROPS_FILE = "Props/C14.v"
WORLD_SIZE = 2            # makes bootstrap install the simulator; the world size is set per case (run_ranks(P, ...))
MODEL_TARGETS = ["Model/Cluster.vo", "Model/Mpi.vo", "Base/MpiGenBase.vo", "Gen/MpiGen.vo"]
GEN_FILES = ["Gen/MpiGen.v"]
CASE_HEADER = ("From Coq Require Import List ZArith QArith.\nFrom EV Require Import Cluster Mpi MpiGenBase MpiGen.\n"
               "Import ListNotations.\n")


def translate(repo):
    """round 3: the index arithmetic and decision logic of enspara/mpi/ops.py, _kcenters_iteration_mpi, the MPI branches
    of kcenters, ctr_ids_mpi and the MPI branches of the PAM update are regenerated from the source (Gen/MpiGen.v);
    Proof/MpiGenProofs.v proves the generated definitions equal to Model/Mpi.v"""
    return tr_mpi.translate(repo)


SHARD = 40
CASE_TIMEOUT = 20.0     # seconds per case for all ranks together (a hang is reported, not waited out)
RULE = ("world size P in 1..6, 1..12 trajectories of length 1..5 (P <= number of trajectories; dedicated streams: every rank owns "
        "exactly ONE trajectory for P = 2..6, and every rank owns >= 2 trajectories of one length while the lengths differ between "
        "ranks -- equal local lengths under unequal global lengths -- for P = 2..6), dealt round-robin; every case runs under a "
        "list of arrival-order schedules (jitter seeds: per-rank random sleeps before and after EACH collective, seed-chosen "
        "straggler ranks, shuffled thread start; 40% of the cases under three schedules) and all schedules must return identical "
        "per-rank results; kinds: kc = kcenters(mpi_mode=True) on every rank "
        "(count and/or radius stop, triangle shortcut) then assemble_striped_ragged_array + convert_local_indices, compared with "
        "the serial run on the concatenated data; kcw = the same from init_centers = 1..4 distinct frames of the data (MPI warm "
        "start); hybrid = hybrid(mpi_mode=True) with rank 0's random draws recorded and replayed "
        "in the model; ops = striped_array_max/mean, randind for EVERY draw, convert_local_indices for every (rank, index), "
        "ctr_ids_mpi for every global index and every (trajectory, frame), assemble_striped_array, assemble_striped_ragged_array; "
        "io = load_h5_as_striped / load_npy_as_striped with strides 1..3.  Data: small integer coordinates (ties frequent) and "
        "random floats (tie-free).  The model runs on the implementation's own distance matrix; per-rank centre pairs, labels, "
        "distances, every index map and every reduction are compared exactly (means to 1e-12); the definitions regenerated "
        "from the source (Gen/MpiGen.v: gen_convert_local_indices, gen_assemble_striped_(ragged_)array, gen_striped_array_max/mean, "
        "gen_randind, gen_ctr_ids_mpi_flat, gen_cim_pair, gen_kcenters_mpi) are evaluated on the same inputs next to the hand "
        "model.  Round 3s streams: (neartie) kc cases, P = 2..6, whose distances are b(1 + j 2^-k), k = 30..40, b from a small "
        "set, j pairwise different (a float table, or frames on coordinate axes around frame 0 under the euclidean metric): tie-free "
        "in exact arithmetic, the largest distances of different ranks agree to float32 precision, the true maximum often on "
        "the higher rank; (rand) randind called 1..4 times with REAL generators per rank -- one seed everywhere / rank-dependent "
        "seeds / one seed unevenly consumed / random_state=None (the process-global generator) -- on element-wise striped "
        "arrays of 1..40 elements and on arbitrary local lengths: all ranks must return the same picks, namely those a serial "
        "replica of rank 0's generator selects (model: randind / gen_randind on the replica's draws); hybrid cases run under "
        "the same four generator modes; (asa) assemble_striped_array on float64/float32/float16 eighths (non-integral, "
        "some below 1), int64/int32/uint8, bool, 1-D and 2-D/3-D rows, P = 1..6: values, shape and dtype must come back on "
        "every rank, an entry <= 0 must be refused (model: assemble_flat / gen_assemble_striped_array on row identities).  "
        "Round 3s, second wave: (ctrs) every ops case also hands ctr_ids_mpi two lists of 1..6 DISTINCT flat global frame "
        "numbers in a given order -- descending / rotated / one adjacent swap / shuffled / ascending in turn, plus a random "
        "one -- and the same lists as (trajectory, frame) pairs: the (rank, local) pairs must be the serial definition's LABEL "
        "BY LABEL and convert_local_indices must give the list back in order (model: map ctr_ids_mpi / gen_ctr_ids_mpi_flat / "
        "gen_cim_pair over the list); (kmw) kmedoids(...) warm-started on every rank of P = 1..6 from one global state -- "
        ">= 3 centres as flat global frame numbers in such an order, or in the order serial k-centers found them, labels and "
        "distances of the nearest centre, X_lengths -- with fixed proposals (a member of each cluster, or any frame) for 1..2 "
        "sweeps, exact metrics (integer table, manhattan, 1-D euclidean): after reassembly centres, labels and distances must "
        "equal the serial kmedoids sweep from the same state with the same proposals (model: pam_steps_mpi from "
        "mkds (map ctr_ids_mpi c) c (scatter ...)); (io zero-row) .h5 files written with PyTables EArrays under ra.save's node "
        "names in which one or two tables (first / middle / last) have ZERO rows, P = 1..4 <= number of tables, strides 1..3: "
        "global lengths and every rank's stripe must be what ra.load of the same file reports (one length per table, zeros "
        "included; model: loaded / strided_len on the lengths with zeros).  "
        "non-trivial := P >= 2 and at "
        "least 2 trajectories and (for clustering) >= 2 centres")
TRUSTED = cc.TRUSTED + [
    "harness/mpisim.py: collectives are functions of the vector of per-rank contributions (MPI semantics, trusted); "
    "no real MPI library, no deadlock/buffer-typing behaviour of one",
    "rank 0's RandomState.randint draws are recorded and replayed in the model (k-medoids proposals)",
    "translator/tr_mpi.py + Base/MpiGenBase.v (round 3): the reading of NumPy / RaggedArray / mpi4py calls as the vocabulary "
    "np_arange, nslice (Base/PySlice.v), nput_slice, ra_make, ra_where_first, bcast, allgather, allreduce_*, ...; statements "
    "that are array glue (buffer allocation, dtype casts, asserts, logging, the md.Trajectory wrapping) are pinned as text"]
ASSUMPTIONS = ["world size <= number of trajectories, every trajectory has >= 1 frame (clustering, reductions and the npy loader "
               "require it; the h5 loader is also fed tables with zero rows: stream io zero-row)",
               "k-medoids warm start (kmw): centres are distinct frames, the supplied labels/distances are those of the nearest "
               "supplied centre, distances exact in double arithmetic (integer-valued metrics), so that the accept test "
               "new_cost < old_cost cannot depend on the summation order",
               "MPI warm start: init_centers is a non-empty list of distinct frames of the data (every rank passes the same list)",
               "owner ranks handed to convert_local_indices are < world size",
               "equality with the serial run is claimed for tie-free data only (unique farthest frame at every iteration); "
               "with ties the distributed run is still compared with its own model and must satisfy the clustering invariant"]
EXHAUSTIVE = {"thorough": False}


# ----------------------------------------------------------------------------- helpers
def _starts(lens):
    s = [0]
    for L in lens:
        s.append(s[-1] + L)
    return s


def owned(lens, r, P):
    return list(range(r, len(lens), P))


def local_rows(arr, lens, r, P, stride=1):
    st = _starts(lens)
    parts = [arr[st[t]:st[t + 1]][::stride] for t in owned(lens, r, P)]
    return np.concatenate(parts) if parts else arr[:0]


def local_ids(lens, r, P):
    st = _starts(lens)
    return [g for t in owned(lens, r, P) for g in range(st[t], st[t + 1])]


class RecRS(np.random.RandomState):
    """RandomState whose randint results are logged (rank 0's draws drive the proposals)"""

    def __init__(self, seed):
        super().__init__(seed)
        self.log = []

    def randint(self, *a, **k):
        v = super().randint(*a, **k)
        self.log.append(int(v))
        return v


class FixedDraw(np.random.RandomState):
    def __init__(self, g):
        super().__init__(0)
        self.g = g

    def randint(self, *a, **k):
        return self.g


RS_MODES = ["same", "seeds", "consumed", "none"]


def gen_rs(rng, P):
    """how the ranks' random generators relate (only rank 0's may matter: randind draws on rank 0 and broadcasts):
    same = one seed everywhere; seeds = rank-dependent seeds; consumed = one seed, rank r has already used rs_k[r]
    draws; none = random_state=None on every rank (the process-global generator)"""
    return {"rs": rng.choice(RS_MODES), "rs_k": [rng.randint(0, 3) for _ in range(P)]}


def make_gens(c, P):
    """[generator handed to rank r], the generator whose draws are THE draws (rank 0's), and a restore callback"""
    mode, seed, ks = c.get("rs", "same"), c.get("seed", 0), c.get("rs_k") or [0] * P
    if mode == "none":
        glob = RecRS(seed)
        saved = np.random.mtrand._rand
        np.random.mtrand._rand = glob          # what check_random_state(None) hands out

        def restore():
            np.random.mtrand._rand = saved
        return [None] * P, glob, restore
    if mode == "seeds":
        gens = [RecRS(seed + 7919 * r) for r in range(P)]
    else:
        gens = [RecRS(seed) for r in range(P)]
        if mode == "consumed":
            for r in range(P):
                gens[r].random_sample(ks[r])
    return gens, gens[0], (lambda: None)


def replica_rs(c):
    """a fresh copy of rank 0's generator in the state it has before the first call"""
    g = np.random.RandomState(c.get("seed", 0))
    if c.get("rs") == "consumed":
        g.random_sample((c.get("rs_k") or [0])[0])
    return g


def _err(ex):
    if isinstance(ex, mpisim.RankFailure):
        ex = ex.first
    return {"err": type(ex).__name__, "msg": str(ex)[:300]}


def _q(v):
    return str(F(float(v)))


# ----------------------------------------------------------------------------- generators
def gen_lens(rng, P=None):
    style = rng.random()
    if P is None:
        P = rng.choice([1, 2, 2, 3, 3, 4, 5, 6])
    if style < 0.15 and P >= 2:
        # every rank owns exactly one trajectory (world size = number of trajectories), P up to 6
        return P, [rng.randint(1, 5) for _ in range(P)]
    if style < 0.35 and P >= 2:
        # equal local lengths under unequal global lengths (the D4 trigger), every world size up to 6: rank r owns
        # 2 or 3 trajectories, all of length per_rank[r]; at least two ranks differ
        per_rank = [rng.randint(1, 3) for _ in range(P)]
        if len(set(per_rank)) == 1:
            per_rank[rng.randrange(P)] = per_rank[0] % 3 + 1
        ntr = min(12, 2 * P + rng.choice([0, 0, 1, P]))
        return P, [per_rank[t % P] for t in range(ntr)]
    style = rng.random()
    ntr = rng.randint(P, max(P, min(7, P + rng.choice([0, 0, 1, 2, 3]))))
    if style < 0.2:
        lens = [rng.randint(1, 4)] * ntr                      # square
    elif style < 0.4 and ntr >= 2 * P:
        # equal local lengths under unequal global lengths (the D4 trigger)
        per_rank = [rng.randint(1, 4) for _ in range(P)]
        lens = [per_rank[t % P] for t in range(ntr)]
    else:
        lens = [rng.randint(1, 5) for _ in range(ntr)]
    return P, lens


def gen_jitter(rng):
    """the arrival-order schedules a case is run under (None = no artificial delays)"""
    r = rng.random()
    if r < 0.15:
        return [None]
    if r < 0.6:
        return [rng.randrange(10 ** 6)]
    return [rng.choice([None, rng.randrange(10 ** 6)]), rng.randrange(10 ** 6), rng.randrange(10 ** 6)]


def gen_cluster(rng, kind):
    P, lens = gen_lens(rng)
    n = sum(lens)
    while n < 2:
        P, lens = gen_lens(rng)
        n = sum(lens)
    c = {"kind": kind, "P": P, "lens": lens, "n": n}
    r = rng.random()
    pam = kind == "hybrid"
    if r < 0.25:
        M, tri = cc.gen_matrix(rng, n, rng.choice([3, 6, 12, 40]))
        c.update(metric="matrix", M=M, tri=tri)
    elif r < 0.5 and not pam:
        # tie-free float data
        dim = rng.randint(1, 3)
        c.update(metric="euclidean", dtype="float64",
                 X=[[round(rng.random() * 10, 6) for _ in range(dim)] for _ in range(n)])
    elif r < 0.75 or pam:
        if rng.random() < 0.5 or not pam:
            c.update(metric="manhattan", X=cc.gen_points(rng, n, rng.randint(1, 3), rng.choice([4, 6, 10, 30])))
        else:
            c.update(metric="euclidean", X=cc.gen_points(rng, n, 1, rng.choice([n + 2, 20, 60])))
    else:
        c.update(metric="euclidean", X=cc.gen_points(rng, n, rng.randint(1, 3), rng.choice([4, 6, 10])))
    if c["metric"] != "matrix" and "dtype" not in c:
        c["dtype"] = rng.choice(["float64", "float64", "float32", "int32", "int64"])
    mode = rng.choice(["k", "k", "r", "both"])
    kmax = min(n, 6)
    c["nclu"] = rng.randint(1, kmax) if mode in ("k", "both") else None
    c["cutoff"] = rng.choice([1, 2, 3, 1.5, 5]) if mode in ("r", "both") else None
    c["ti"] = bool(kind in ("kc", "kcw") and rng.random() < 0.4 and (c["metric"] != "matrix" or c.get("tri")))
    if kind == "hybrid":
        c["n_iters"] = rng.randint(1, 3)
        c["seed"] = rng.randrange(10 ** 6)
        c.update(gen_rs(rng, P))
    if kind == "kcw":
        c["init"] = rng.sample(range(n), rng.randint(1, min(4, n)))
        if c["nclu"] is not None and rng.random() < 0.7:
            c["nclu"] = min(n, len(c["init"]) + rng.randint(0, 3))
    c["jitter"] = gen_jitter(rng)
    return c


def gen_ops(rng):
    P, lens = gen_lens(rng)
    n = sum(lens)
    c = {"kind": "ops", "P": P, "lens": lens, "n": n,
         "vals": ([rng.randint(-9, -1) for _ in range(n)] if rng.random() < 0.2      # all negative: the true maximum is < 0
                  else [rng.randint(-9, 9) if rng.random() < 0.5 else rng.randint(0, 9) for _ in range(n)]),
         "ns": [rng.choice([0, 1, 1, 2, 3, 4]) for _ in range(P)],
         "dtype": rng.choice(["float64", "int64"]), "jitter": gen_jitter(rng)}
    if sum(c["ns"]) == 0:
        c["ns"][rng.randrange(P)] = rng.randint(1, 3)
    return c


def gen_neartie(rng):
    """round 3s: k-centers on data whose largest frame-to-centre distances on DIFFERENT ranks differ by a relative 2^-30..2^-40
    (far below float32 resolution, far above float64 resolution) and are pairwise different in exact arithmetic: every
    distance is b * (1 + j * 2^-k), b in a small set (so the leading digits tie all the time), j pairwise different.
    The serial run is tie-free and is the reference; a run that compares the gathered per-rank maxima in reduced
    precision picks another frame."""
    P, lens = gen_lens(rng, rng.choice([2, 2, 3, 3, 4, 5, 6]))
    n = sum(lens)
    while n < 3 or n > 12:
        P, lens = gen_lens(rng, rng.choice([2, 2, 3, 3, 4, 5, 6]))
        n = sum(lens)
    npairs = n * (n - 1) // 2
    kmin = 30
    while (npairs + 1) * 2.0 ** -kmin > 2.0 ** -25:
        kmin += 1
    k = rng.randint(kmin, 40)
    scale = rng.choice([1.0, 1.0, 0.5, 4.0, 0.001953125, 1024.0])      # powers of two: products stay exact
    c = {"kind": "kc", "P": P, "lens": lens, "n": n, "neartie": k}
    js = list(range(1, npairs + 1))
    rng.shuffle(js)
    if rng.random() < 0.6:
        bases = rng.choice([[1], [1, 2], [1, 2, 3], [2, 3]])
        M = [[0.0] * n for _ in range(n)]
        for i in range(n):
            for j in range(i + 1, n):
                M[i][j] = M[j][i] = scale * rng.choice(bases) * (1.0 + js.pop() * 2.0 ** -k)
        c.update(metric="matrix", M=M, tri=False)
    else:
        # frame 0 at the origin, every other frame on a coordinate axis at distance b * (1 + j 2^-k) from it: the choice
        # of the second centre is a near-tie between ranks (later choices are whatever the metric gives)
        dim = rng.randint(1, 3)
        bases = rng.choice([[1], [1], [1, 2], [1, 2, 3]])
        X = [[0.0] * dim]
        for _ in range(n - 1):
            row = [0.0] * dim
            row[rng.randrange(dim)] = rng.choice([-1, 1]) * scale * rng.choice(bases) * (1.0 + js.pop() * 2.0 ** -k)
            X.append(row)
        c.update(metric="euclidean", dtype="float64", X=X)
    mode = rng.choice(["k", "k", "k", "r", "both"])
    c["nclu"] = rng.randint(2, min(n, 6)) if mode in ("k", "both") else None
    c["cutoff"] = scale * rng.choice([1, 1, 2, 1.5]) if mode in ("r", "both") else None
    c["ti"] = bool(c["metric"] == "euclidean" and rng.random() < 0.3)
    c["jitter"] = gen_jitter(rng)
    return c


def gen_rand(rng, mode=None):
    """round 3s: randind with REAL generators per rank (not a fixed draw): several successive draws; the ranks'
    generators are in step / seeded differently / unevenly consumed / the process-global one (random_state=None)"""
    P = rng.choice([1, 2, 2, 3, 3, 4, 5, 6])
    if rng.random() < 0.6:
        n = rng.randint(max(1, P), 40)
        ns = [len(range(r, n, P)) for r in range(P)]            # an array of n elements striped element-wise
        packed = True
    else:
        ns = [rng.choice([0, 1, 1, 2, 3, 4, 7]) for _ in range(P)]
        if sum(ns) == 0:
            ns[rng.randrange(P)] = rng.randint(1, 3)
        packed = ns == [len(range(r, sum(ns), P)) for r in range(P)]
    c = {"kind": "rand", "P": P, "lens": [1] * P, "n": sum(ns), "ns": ns, "packed": packed, "ndraws": rng.randint(1, 4),
         "seed": rng.randrange(10 ** 6), "jitter": gen_jitter(rng)}
    c.update(gen_rs(rng, P))
    if mode is not None:
        c["rs"] = mode
    return c


ASA_DTYPES = ["float64", "float64", "float32", "float32", "float16", "int64", "int32", "uint8", "bool"]


def gen_asa(rng, dt=None, below1=None, cls=None):
    """round 3s: assemble_striped_array on arrays that are not trajectory lengths: non-integral floats (values below 1
    too), 1-D and 2-D rows, small ints, bool; a nonpositive entry somewhere = the rejected class"""
    P = rng.choice([1, 2, 2, 3, 3, 4, 5, 6])
    n = rng.randint(P, min(14, P + rng.choice([0, 1, 2, 3, 5, 8])))
    dt = dt or rng.choice(ASA_DTYPES)
    tail = rng.choice([[], [], [2], [3], [2, 2]])
    k = 1
    for t in tail:
        k *= t
    cls = cls or rng.choice(["pos", "pos", "pos", "pos", "nonpos"])
    if dt == "bool":
        rows = [[1] * k for _ in range(n)]
    elif dt.startswith("float"):
        # eighths: exact in float16 too; mostly non-integral, some below 1
        nums = rng.choice([[9, 13, 20, 33, 50, 61, 99, 100, 8, 16], [9, 11, 13, 21, 35, 61, 99],      # all >= 1
                           [1, 3, 4, 5, 7, 9, 13, 20, 33, 50, 61, 99, 100, 8, 16]])                  # some below 1
        if below1 is not None:
            nums = [1, 3, 5, 7, 9, 13, 20, 33, 61, 99] if below1 else [9, 11, 13, 21, 35, 61, 99, 16]
        rows = [[str(F(rng.choice(nums), 8) * rng.choice([1, 1, 1, 2])) for _ in range(k)] for _ in range(n)]
        if below1 and not any(F(v) < 1 for row in rows for v in row):
            rows[rng.randrange(n)][rng.randrange(k)] = str(F(rng.choice([1, 3, 5, 7]), 8))
    else:
        rows = [[rng.randint(1, 9) for _ in range(k)] for _ in range(n)]
    if cls == "nonpos":
        i, j = rng.randrange(n), rng.randrange(k)
        if dt == "bool" or dt == "uint8":
            rows[i][j] = 0
        elif dt.startswith("float"):
            rows[i][j] = str(F(rng.choice([0, -1, -5, -20]), 8))
        else:
            rows[i][j] = rng.choice([0, -1, -3])
    return {"kind": "asa", "P": P, "lens": [1] * n, "n": n, "dtype": dt, "tail": tail, "rows": rows,
            "jitter": gen_jitter(rng)}


def gen_io(rng):
    P, lens = gen_lens(rng)
    return {"kind": "io", "P": P, "lens": lens, "n": sum(lens), "stride": rng.choice([1, 1, 2, 3]),
            "width": rng.randint(1, 3), "jitter": [rng.choice([None, rng.randrange(10 ** 6)])]}


CTR_ORDERS = ["desc", "rot", "swap", "shuffle", "asc"]


def gen_ctrs(rng, n, order=None, k=None):
    """round 3s (second wave): k distinct global frame numbers in a given ORDER -- position in the list is the cluster
    label, so every consumer must keep it.  desc = descending, rot = an ascending list rotated, swap = ascending with one
    adjacent pair exchanged, shuffle = any non-ascending permutation, asc = ascending (the control)"""
    if k is None:
        k = rng.randint(min(3, n), min(n, 6))
    c = sorted(rng.sample(range(n), k))
    order = order or rng.choice(CTR_ORDERS)
    if k >= 2:
        if order == "desc":
            c.reverse()
        elif order == "rot":
            j = rng.randrange(1, k)
            c = c[j:] + c[:j]
        elif order == "swap":
            i = rng.randrange(k - 1)
            c[i], c[i + 1] = c[i + 1], c[i]
        elif order == "shuffle":
            while c == sorted(c):
                rng.shuffle(c)
    return c


def gen_kmw(rng, order, start):
    """round 3s (second wave): one global k-medoids state (>= 3 centres as FLAT GLOBAL frame numbers, labels and
    distances of the nearest centre) handed to kmedoids(...) on every rank of a world (warm start: cluster_center_inds,
    assignments, distances, X_lengths) with fixed proposals, and to the serial kmedoids: same sweep, same result.
    start = given: the centre list of the case (order as in gen_ctrs); kcenters: the centres of a serial k-centers run in
    the order it found them (not ascending as a rule for k >= 3).  Exact metrics only (integer table, manhattan and 1-D
    euclidean on small integer points): the accept test compares sums that are exact in doubles"""
    P, lens = gen_lens(rng, rng.choice([1, 2, 2, 3, 3, 4, 4, 5, 6]))
    n = sum(lens)
    while n < 4 or n > 24:
        P, lens = gen_lens(rng, rng.choice([1, 2, 2, 3, 3, 4, 4, 5, 6]))
        n = sum(lens)
    c = {"kind": "kmw", "P": P, "lens": lens, "n": n, "start": start}
    r = rng.random()
    if r < 0.3:
        M, tri = cc.gen_matrix(rng, n, rng.choice([3, 6, 12, 40]))
        c.update(metric="matrix", M=M, tri=tri)
    elif r < 0.7:
        c.update(metric="manhattan", X=cc.gen_points(rng, n, rng.randint(1, 3), rng.choice([4, 6, 10, 30])))
    else:
        c.update(metric="euclidean", X=cc.gen_points(rng, n, 1, rng.choice([n + 2, 20, 60])))
    if c["metric"] != "matrix":
        c["dtype"] = rng.choice(["float64", "float64", "float32", "int32", "int64"])
    k = rng.randint(3, min(n, 5))
    c["k"] = k
    c["ctrs"] = gen_ctrs(rng, n, order, k) if start == "given" else None
    # proposals: frame numbers; "member" = proposal j is the (props[j] mod size)-th member of cluster j in the start state
    c["props"] = [rng.randrange(n) for _ in range(k)]
    c["props_mode"] = rng.choice(["member", "member", "any"])
    c["n_iters"] = rng.choice([1, 1, 2])
    c["jitter"] = gen_jitter(rng)
    return c


IOZ_WHERE = ["first", "middle", "last", "two", "random"]


def gen_ioz(rng, where):
    """round 3s (second wave): an .h5 file in which some TABLE HAS ZERO ROWS (an EArray nobody appended to yet; ra.save
    never writes one, PyTables does), node names as ra.save gives them; only the h5 loader is run on it"""
    P = rng.choice([1, 2, 2, 3, 3, 4])
    ntr = max(P, 3 if where in ("middle", "two") else 2) + rng.choice([0, 0, 1, 2, 3])
    lens = [rng.randint(1, 5) for _ in range(ntr)]
    if where == "first":
        z = [0]
    elif where == "last":
        z = [ntr - 1]
    elif where == "middle":
        z = [rng.randint(1, ntr - 2)]
    elif where == "two":
        z = rng.sample(range(ntr), 2)
    else:
        z = rng.sample(range(ntr), rng.randint(1, ntr - 1))
    for i in z:
        lens[i] = 0
    return {"kind": "io", "zrows": True, "P": P, "lens": lens, "n": sum(lens), "stride": rng.choice([1, 2, 3]),
            "width": rng.randint(1, 3), "jitter": [rng.choice([None, rng.randrange(10 ** 6)])]}


def generate(rng, tier):
    mult = 1 if tier == "quick" else 10
    cases = []
    for _ in range(130 * mult):
        cases.append(gen_cluster(rng, "kc"))
    for i in range(70 * mult):
        cases.append(gen_cluster(rng, "hybrid"))
        cases[-1]["rs"] = RS_MODES[i % 4]          # every generator mode, in turn
    for _ in range(60 * mult):
        cases.append(gen_cluster(rng, "kcw"))
    for _ in range(60 * mult):
        cases.append(gen_ops(rng))
    for _ in range(16 * mult):
        cases.append(gen_io(rng))
    # round 3s streams
    for _ in range(40 * mult):
        cases.append(gen_neartie(rng))
    for i in range(50 * mult):
        cases.append(gen_rand(rng, RS_MODES[i % 4]))
    for i in range(60 * mult):
        # element types in turn; every third round of float cases holds values below 1; every fifth case the rejected class
        cases.append(gen_asa(rng, ASA_DTYPES[i % len(ASA_DTYPES)], (i // len(ASA_DTYPES)) % 3 == 0,
                             "nonpos" if i % 5 == 4 else "pos"))
    if tier == "thorough":
        # small exhaustive scope for the index maps: every P <= 4, every length vector over {1,2,3} with <= 4 trajectories
        import itertools
        for P in (1, 2, 3, 4):
            for ntr in range(P, 5):
                for lens in itertools.product((1, 2, 3), repeat=ntr):
                    n = sum(lens)
                    cases.append({"kind": "ops", "P": P, "lens": list(lens), "n": n, "vals": [(7 * i) % 10 for i in range(n)],
                                  "ns": [(lens[r] + r) % 4 for r in range(P)] if sum((lens[r] + r) % 4 for r in range(P)) else [1] * P,
                                  "dtype": "float64", "jitter": None})
    # round 3s, second wave (drawn after everything else, so that the earlier streams are what they were)
    j = 0
    for c in cases:
        if c["kind"] == "ops":
            # centre lists in a given order (position = label): one order in turn, one at random
            c["ctrs"] = [gen_ctrs(rng, c["n"], CTR_ORDERS[j % len(CTR_ORDERS)]), gen_ctrs(rng, c["n"])]
            j += 1
    for i in range(40 * mult):
        cases.append(gen_kmw(rng, CTR_ORDERS[i % len(CTR_ORDERS)], "kcenters" if i % 3 == 2 else "given"))
    for i in range(15 * mult):
        cases.append(gen_ioz(rng, IOZ_WHERE[i % len(IOZ_WHERE)]))
    return cases


# ----------------------------------------------------------------------------- real code
def _kc_kwargs(c):
    kw = {}
    if c["nclu"] is not None:
        kw["n_clusters"] = c["nclu"]
    if c["cutoff"] is not None:
        kw["dist_cutoff"] = c["cutoff"]
    return kw


def _jitters(c):
    j = c.get("jitter")
    return list(j) if isinstance(j, list) else [j]


def _run_schedules(c, once):
    """once(seed, stats) -> the result of one whole run of all ranks (a dict; exceptions already mapped).
    The run under the first schedule is THE result; under every other schedule the ranks must return exactly
    the same values (rerun_diff says which schedule did not).  sched = what was really exercised."""
    seeds = _jitters(c)
    st = {}
    out = once(seeds[0], st)
    orders = set(st.get("orders", ()))
    colls = st.get("n_collectives", 0)
    for s_ in seeds[1:]:
        st2 = {}
        o2 = once(s_, st2)
        orders |= set(st2.get("orders", ()))
        if o2 != out:
            diff = sorted(k for k in set(out) | set(o2) if out.get(k) != o2.get(k))
            out["rerun_diff"] = "schedule %r differs from schedule %r in %s" % (s_, seeds[0], diff)
            break
    out["sched"] = {"seeds": len(seeds), "collectives": colls, "arrival_orders": len(orders),
                    "last_arrivers": sorted({o[-1] for o in orders})}
    return out


def run_cluster(c):
    from enspara.cluster import kcenters as KC, hybrid as KH
    from enspara.mpi import ops
    X = cc.make_X(c)
    metric = cc.make_metric(c)
    P, lens = c["P"], c["lens"]
    out = {"D": [[str(v) for v in row] for row in cc.dist_matrix(X, metric)]}
    kw = _kc_kwargs(c)
    if c["kind"] == "kcw":
        kw["init_centers"] = X[c["init"]].copy()
    try:
        ser = KC.kcenters(X.copy(), metric, use_triangle_inequality=bool(c.get("ti")), **kw)
        out["serial"] = cc.canon(ser, X)
    except Exception as ex:
        out["serial"] = _err(ex)
    gl = np.array(lens)
    recs = []

    def fn(r):
        loc = local_rows(X, lens, r, P).copy()
        if c["kind"] in ("kc", "kcw"):
            res = KC.kcenters(loc, metric, use_triangle_inequality=bool(c.get("ti")), mpi_mode=True, **kw)
        else:
            res = KH.hybrid(loc, metric, n_iters=c["n_iters"], mpi_mode=True, random_state=recs[r], **kw)
        o = {"ctr": [[int(a), int(b)] for a, b in res.center_indices],
             "asg": [int(a) for a in res.assignments], "dst": [_q(d) for d in res.distances]}
        ci = [int(i) for i in ops.convert_local_indices(res.center_indices, gl)]
        o["ci"] = ci
        o["A"] = [int(a) for a in ops.assemble_striped_ragged_array(res.assignments, gl)]
        o["Dd"] = [_q(d) for d in ops.assemble_striped_ragged_array(res.distances, gl)]
        o["cen_ok"] = bool(len(res.centers) == len(ci) and all(
            np.array_equal(np.asarray(cen), np.asarray(X[i])) for cen, i in zip(res.centers, ci)))
        o["smax"] = _q(ops.striped_array_max(res.distances))
        return o

    def once(seed, stats):
        o = dict(out)
        gens, drawer, restore = make_gens(c, P)
        recs[:] = gens
        try:
            o["ranks"] = mpisim.run_ranks(P, fn, jitter=seed, timeout=CASE_TIMEOUT, stats=stats)
            o["draws"] = list(drawer.log)
        except Exception as ex:
            o.update(_err(ex))
        finally:
            restore()
        return o
    return _run_schedules(c, once)


def run_ops(c):
    from enspara.mpi import ops
    from enspara.cluster import kmedoids as KM
    P, lens, n = c["P"], c["lens"], c["n"]
    vals = np.array(c["vals"], dtype=c["dtype"])
    gl = np.array(lens)
    total = sum(c["ns"])
    pairs = [(r, i) for r in range(P) for i in range(len(local_ids(lens, r, P)))]
    tf = [(t, f) for t in range(len(lens)) for f in range(lens[t])]

    def fn(r):
        loc = local_rows(vals, lens, r, P).copy()
        o = {"smax": _q(ops.striped_array_max(loc)), "smean": _q(ops.striped_array_mean(loc))}
        o["randind"] = [[int(v) for v in ops.randind(np.zeros(c["ns"][r]), FixedDraw(g))] for g in range(total)]
        o["convert"] = [int(v) for v in ops.convert_local_indices(pairs, gl)]
        o["ids_flat"] = [[int(a), int(b)] for a, b in KM.ctr_ids_mpi(list(range(n)), list(lens))]
        o["ids_pair"] = [[int(a), int(b)] for a, b in KM.ctr_ids_mpi([list(p) for p in tf], list(lens))]
        if c.get("ctrs"):
            # round 3s (second wave): centre lists in the caller's order -- flat, and the same frames as (trajectory, frame)
            o["ctrs_flat"], o["ctrs_pair"], o["ctrs_back"] = [], [], []
            for cl in c["ctrs"]:
                ids = KM.ctr_ids_mpi([int(g) for g in cl], list(lens))
                o["ctrs_flat"].append([[int(a), int(b)] for a, b in ids])
                o["ctrs_back"].append([int(v) for v in ops.convert_local_indices(ids, gl)])
                o["ctrs_pair"].append([[int(a), int(b)] for a, b in KM.ctr_ids_mpi([list(tf[g]) for g in cl], list(lens))])
        o["lens"] = [int(v) for v in ops.assemble_striped_array(gl[r::P])]
        asm = ops.assemble_striped_ragged_array(loc, gl)
        o["asm"] = [int(v) for v in asm]
        o["asm_dtype_ok"] = bool(asm.dtype == loc.dtype)
        return o

    def once(seed, stats):
        try:
            return {"ranks": mpisim.run_ranks(P, fn, jitter=seed, timeout=CASE_TIMEOUT, stats=stats)}
        except Exception as ex:
            return _err(ex)
    return _run_schedules(c, once)


def ref_pairs(lens, P):
    """the serial definition of the index map: global frame -> [owner rank, index in the owner's local array]"""
    return {g: [r, i] for r in range(P) for i, g in enumerate(local_ids(lens, r, P))}


def run_kmw(c):
    from enspara.cluster import kcenters as KC, kmedoids as KM, util as KU
    from enspara.mpi import ops
    X = cc.make_X(c)
    metric = cc.make_metric(c)
    P, lens, k = c["P"], c["lens"], c["k"]
    out = {"D": [[str(v) for v in row] for row in cc.dist_matrix(X, metric)]}
    try:
        if c["start"] == "kcenters":
            st = KC.kcenters(X.copy(), metric, n_clusters=k)
            c0 = [int(i) for i in st.center_indices]
            A0, D0 = np.array(st.assignments), np.array(st.distances)
        else:
            c0 = [int(g) for g in c["ctrs"]]
            A0, D0 = KU.assign_to_nearest_center(X, X[c0], KU._get_distance_method(metric))
        # snapshot (plain Python values) before anything else sees the arrays
        out["start"] = {"ctrs": list(c0), "asg": [int(a) for a in A0], "dst": [_q(d) for d in D0]}
        props = []
        for j in range(len(c0)):
            mem = [f for f in range(len(A0)) if int(A0[f]) == j]
            pj = c["props"][j % len(c["props"])]
            props.append(int(mem[pj % len(mem)]) if (c["props_mode"] == "member" and mem) else int(pj))
        out["props"] = props
    except Exception as ex:
        out.update(_err(ex))
        out["err"] = "Start" + out["err"]
        return out
    try:
        ser = KM.kmedoids(X.copy(), metric, cluster_center_inds=list(c0), assignments=A0.copy(), distances=D0.copy(),
                          proposals=list(props), n_iters=c["n_iters"])
        out["serial"] = cc.canon(ser, X)
    except Exception as ex:
        out["serial"] = _err(ex)
    gl = np.array(lens)
    inv = ref_pairs(lens, P)

    def fn(r):
        ids = local_ids(lens, r, P)
        loc = local_rows(X, lens, r, P).copy()
        res = KM.kmedoids(loc, metric, cluster_center_inds=list(c0), assignments=A0[ids].copy(), distances=D0[ids].copy(),
                          X_lengths=[int(v) for v in lens], n_iters=c["n_iters"],
                          proposals=[tuple(inv[g]) for g in props] if P > 1 else list(props))
        # world size 1 is the serial code path: flat indices, (0, g) as pairs
        ctr = [[int(a[0]), int(a[1])] if hasattr(a, "__len__") else [0, int(a)] for a in res.center_indices]
        o = {"ctr": ctr, "asg": [int(a) for a in res.assignments], "dst": [_q(d) for d in res.distances]}
        ci = [int(i) for i in ops.convert_local_indices(ctr, gl)]
        o["ci"] = ci
        o["A"] = [int(a) for a in ops.assemble_striped_ragged_array(np.asarray(res.assignments), gl)]
        o["Dd"] = [_q(d) for d in ops.assemble_striped_ragged_array(np.asarray(res.distances), gl)]
        o["cen_ok"] = bool(len(res.centers) == len(ci) and all(
            np.array_equal(np.asarray(cen), np.asarray(X[i])) for cen, i in zip(res.centers, ci)))
        pairs = KM.ctr_ids_mpi(list(c0), [int(v) for v in lens])
        o["ids"] = [[int(a), int(b)] for a, b in pairs]
        o["back"] = [int(v) for v in ops.convert_local_indices(pairs, gl)]
        return o

    def once(seed, stats):
        o = dict(out)
        try:
            o["ranks"] = mpisim.run_ranks(P, fn, jitter=seed, timeout=CASE_TIMEOUT, stats=stats)
        except Exception as ex:
            o.update(_err(ex))
        return o
    return _run_schedules(c, once)


def run_rand(c):
    from enspara.mpi import ops
    P, ns = c["P"], c["ns"]
    gens = []

    def fn(r):
        loc = np.zeros(ns[r])
        return {"picks": [[int(v) for v in ops.randind(loc, random_state=gens[r])] for _ in range(c["ndraws"])]}

    def once(seed, stats):
        g, drawer, restore = make_gens(c, P)
        gens[:] = g
        try:
            return {"ranks": mpisim.run_ranks(P, fn, jitter=seed, timeout=CASE_TIMEOUT, stats=stats),
                    "n_drawn": len(drawer.log)}
        except Exception as ex:
            return _err(ex)
        finally:
            restore()
    return _run_schedules(c, once)


def asa_array(c):
    rows = c["rows"]
    if c["dtype"] == "bool":
        a = np.array(rows, dtype=bool)
    else:
        a = np.array([[float(F(v)) for v in row] for row in rows]).astype(c["dtype"])
    return a.reshape([len(rows)] + c["tail"])


def _exact_rows(a):
    a = np.asarray(a)
    return [[str(F(float(v))) for v in row] for row in a.reshape(len(a), -1)]


def run_asa(c):
    from enspara.mpi import ops
    P = c["P"]
    g = asa_array(c)

    def fn(r):
        res = ops.assemble_striped_array(g[r::P].copy())
        res = np.asarray(res)
        return {"dtype": str(res.dtype), "shape": [int(v) for v in res.shape], "rows": _exact_rows(res)}

    def once(seed, stats):
        try:
            return {"ranks": mpisim.run_ranks(P, fn, jitter=seed, timeout=CASE_TIMEOUT, stats=stats)}
        except Exception as ex:
            return _err(ex)
    return _run_schedules(c, once)


def run_io(c):
    from enspara.mpi import io as mio
    from enspara import ra
    P, lens, n, stride, w = c["P"], c["lens"], c["n"], c["stride"], c["width"]
    data = np.zeros((n, w))
    data[:, 0] = np.arange(n)
    for j in range(1, w):
        data[:, j] = (np.arange(n) * (j + 2)) % 7
    st = _starts(lens)
    rows = [data[st[t]:st[t + 1]] for t in range(len(lens))]
    d = tempfile.mkdtemp(prefix="c14io")
    try:
        h5 = os.path.join(d, "f.h5")
        zrows = bool(c.get("zrows"))
        serial = None
        if zrows:
            # round 3s (second wave): tables without rows cannot be written by ra.save; PyTables EArrays under the node
            # names ra.save would use.  The serial loader's report of the same file is the reference.
            import tables
            nz = len(str(len(lens))) + 1
            with tables.open_file(h5, "w") as h:
                for t, row in enumerate(rows):
                    e = h.create_earray("/", "arr_" + str(t).zfill(nz), atom=tables.Float64Atom(), shape=(0, w))
                    if len(row):
                        e.append(row)
            try:
                sa = ra.load(h5, stride=stride)
                serial = {"lens": [int(v) for v in sa.lengths],
                          "ids": [int(v) for v in np.asarray(sa._data).reshape(len(sa._data), -1)[:, 0]],
                          "rows_equal": bool(len(sa.lengths) == len(rows) and all(
                              np.array_equal(np.asarray(sa[t]).reshape(-1, w), rows[t][::stride]) for t in range(len(rows))))}
            except Exception as ex:
                serial = _err(ex)
        else:
            ra.save(h5, ra.RaggedArray(np.concatenate(rows), lengths=lens) if len(lens) > 1 else rows[0])
        files = []
        for t, row in enumerate(rows if not zrows else []):
            # names whose lexicographic order differs from the caller's order (a loader that sorts
            # or globs the list itself would attribute stripes to the wrong files)
            fn_ = os.path.join(d, "x%d_%02d.npy" % ((7 * t + 3) % 10, t))
            np.save(fn_, row)
            files.append(fn_)

        def fn(r):
            o = {}
            exp = local_rows(data, lens, r, P, stride)
            for name, call in (("h5", lambda: mio.load_h5_as_striped(h5, stride=stride)),
                               ("npy", lambda: mio.load_npy_as_striped(files, stride=stride))):
                if zrows and name == "npy":
                    continue
                gl_, loc = call()
                loc = np.asarray(loc)
                o[name] = {"lens": [int(v) for v in gl_], "ids": [int(v) for v in loc.reshape(len(loc), -1)[:, 0]] if len(loc) else [],
                           "equal": bool(loc.shape == exp.shape and np.array_equal(loc, exp))}
            return o

        def once(seed, stats):
            try:
                o = {"ranks": mpisim.run_ranks(P, fn, jitter=seed, timeout=CASE_TIMEOUT, stats=stats)}
            except Exception as ex:
                o = _err(ex)
            if serial is not None:
                o["serial"] = serial
            return o
        return _run_schedules(c, once)
    except Exception as ex:
        return _err(ex)
    finally:
        shutil.rmtree(d, ignore_errors=True)


_hangs = {}


def run_impl(c):
    kind = c["kind"]
    if _hangs.get(kind, 0) >= 3:     # circuit breaker: do not wait out a tree that hangs on every case
        return {"err": "RanksTimeout", "msg": "not run: three earlier %s cases already hung" % kind}
    out = (run_cluster(c) if kind in ("kc", "kcw", "hybrid") else run_ops(c) if kind == "ops" else
           run_rand(c) if kind == "rand" else run_asa(c) if kind == "asa" else run_kmw(c) if kind == "kmw" else run_io(c))
    if out.get("err") == "RanksTimeout":
        _hangs[kind] = _hangs.get(kind, 0) + 1
    return out


# ----------------------------------------------------------------------------- model terms
def _pairs(ps):
    return clist(ps, lambda p: "(%s, %s)" % (cn(p[0]), cn(p[1])), "(nat * nat)")


def _nl(xs):
    return clist(xs, cn, "nat")


def _ql(xs):
    return clist(xs, lambda s: cq(F(s)), "Q")


def _split_sweeps(draws, k, n_iters):
    return [draws[i * k:(i + 1) * k] for i in range(n_iters)]


def _model_cluster(c, out):
    P, lens = cn(c["P"]), _nl(c["lens"])
    nclu, cutoff = cc.nclu_term(c), cc.cutoff_term(c)
    if c["kind"] == "kc":
        return "(kcenters_mpi (Dm M) %s %s %s %s %s)" % (P, lens, nclu, cutoff, cb(bool(c.get("ti"))))
    if c["kind"] == "kcw":
        return "(kcenters_warm_mpi (Dm M) %s %s %s %s %s %s)" % (P, lens, _nl(c["init"]), nclu, cutoff, cb(bool(c.get("ti"))))
    k = len(out["ranks"][0]["ctr"])
    sweeps = _split_sweeps(out["draws"], k, c["n_iters"])
    return "(hybrid_mpi (Dm M) %s %s %s %s %s)" % (P, lens, nclu, cutoff,
                                                   clist(sweeps, _nl, "(list nat)"))


def rand_expected(c):
    """the draws of a serial replica of rank 0's generator and the (owner, index) each selects by randind's definition:
    element g of concatenate([arange(total)[r::P] for r]) cut into pieces of n_states"""
    P, ns = c["P"], c["ns"]
    total = sum(ns)
    rep = replica_rs(c)
    gs = [int(rep.randint(total)) for _ in range(c["ndraws"])]
    conc = [v for r in range(P) for v in range(total)[r::P]]
    owner_of = [r for r in range(P) for _ in range(ns[r])]
    first = [0]
    for r in range(P):
        first.append(first[-1] + ns[r])
    pairs = []
    for g in gs:
        p = conc.index(g)
        pairs.append([owner_of[p], p - first[owner_of[p]]])
    return gs, pairs


def asa_ids(c, rows):
    """rows (exact strings) -> ids against the case's input rows: 0 = holds a nonpositive entry, i+1 = equals input row i
    (the first such), 4999 = equals no input row"""
    inp = _exact_rows(asa_array(c))
    ids = []
    for row in rows:
        if any(F(v) <= 0 for v in row):
            ids.append(0)
        elif row in inp:
            ids.append(inp.index(row) + 1)
        else:
            ids.append(4999)
    return ids


def coq_check(c, out):
    if c["kind"] == "asa":
        P = cn(c["P"])
        inp = _nl(asa_ids(c, _exact_rows(asa_array(c))))
        if out.get("err") == "ImproperlyConfigured":
            exp = "None"
        elif "ranks" in out:
            exp = "(Some %s)" % _nl(asa_ids(c, out["ranks"][0]["rows"]))
        else:
            return None
        return ("(CaseLib.opt_eqb CaseLib.nl_eqb (assemble_flat %s (stripes %s %s)) %s) && "
                "(CaseLib.opt_eqb CaseLib.nl_eqb (gen_assemble_striped_array %s (stripes %s %s)) %s)" % (
                    P, P, inp, exp, P, P, inp, exp))
    if "ranks" not in out:
        return None
    if c["kind"] == "rand":
        gs, _ = rand_expected(c)
        got = _pairs(out["ranks"][0]["picks"])
        return ("(CaseLib.list_eqb opair_eqb (map (randind %s) %s) (map Some %s)) && "
                "(CaseLib.list_eqb opair_eqb (map (gen_randind %s %s) %s) (map Some %s))" % (
                    _nl(c["ns"]), _nl(gs), got, cn(c["P"]), _nl(c["ns"]), _nl(gs), got))
    rk = out["ranks"]
    P, lens = cn(c["P"]), _nl(c["lens"])
    if c["kind"] in ("kc", "kcw", "hybrid"):
        r0 = rk[0]
        exp = "(Some (%s, %s, %s))" % (_pairs(r0["ctr"]), clist([r["asg"] for r in rk], _nl, "(list nat)"),
                                       clist([r["dst"] for r in rk], _ql, "(list Q)"))
        parts = ["ds_eqb %s %s" % (_model_cluster(c, out), exp),
                 "CaseLib.list_eqb onat_eqb (map (convert_local %s %s) %s) (map Some %s)" % (P, lens, _pairs(r0["ctr"]), _nl(r0["ci"])),
                 "CaseLib.opt_eqb CaseLib.nl_eqb (assemble 0%%nat %s %s %s) (Some %s)" % (
                     P, lens, clist([r["asg"] for r in rk], _nl, "(list nat)"), _nl(r0["A"])),
                 "CaseLib.opt_eqb CaseLib.ql_eqb (assemble 0%%Q %s %s %s) (Some %s)" % (
                     P, lens, clist([r["dst"] for r in rk], _ql, "(list Q)"), _ql(r0["Dd"])),
                 "CaseLib.opt_eqb Qeq_bool (striped_max %s) (Some %s)" % (
                     clist([r["dst"] for r in rk], _ql, "(list Q)"), cq(F(r0["smax"])))]
        # round 3: the definitions regenerated from the source (Gen/MpiGen.v) next to the hand model
        parts += ["CaseLib.opt_eqb CaseLib.nl_eqb (gen_convert_local_indices %s %s %s) (Some %s)" % (P, lens, _pairs(r0["ctr"]), _nl(r0["ci"])),
                  "CaseLib.opt_eqb CaseLib.nl_eqb (gen_assemble_striped_ragged_array 0%%nat %s %s %s) (Some %s)" % (
                      P, lens, clist([r["asg"] for r in rk], _nl, "(list nat)"), _nl(r0["A"])),
                  "CaseLib.opt_eqb CaseLib.ql_eqb (gen_assemble_striped_ragged_array 0%%Q %s %s %s) (Some %s)" % (
                      P, lens, clist([r["dst"] for r in rk], _ql, "(list Q)"), _ql(r0["Dd"])),
                  "CaseLib.opt_eqb Qeq_bool (gen_striped_array_max %s) (Some %s)" % (
                      clist([r["dst"] for r in rk], _ql, "(list Q)"), cq(F(r0["smax"])))]
        if c["kind"] == "kc":
            parts.append("ds_eqb (gen_kcenters_mpi (Dm M) %s %s %s %s %s) %s" % (
                P, lens, cc.nclu_term(c), cc.cutoff_term(c), cb(bool(c.get("ti"))), exp))
        return "(let M := %s in %s)" % (cc.D_term(out), " && ".join("(%s)" % p for p in parts))
    if c["kind"] == "ops":
        r0 = rk[0]
        n = c["n"]
        vals = [str(v) for v in c["vals"]]
        glob = _ql(vals)
        sc = "(scatter %s %s %s)" % (P, lens, glob)
        total = sum(c["ns"])
        pairs = [(r, i) for r in range(c["P"]) for i in range(len(local_ids(c["lens"], r, c["P"])))]
        tf = [(t, f) for t in range(len(c["lens"])) for f in range(c["lens"][t])]
        parts = [
            "CaseLib.opt_eqb Qeq_bool (striped_max %s) (Some %s)" % (sc, cq(F(r0["smax"]))),
            "CaseLib.q_close (1 # 1000000000000) (striped_mean %s) %s" % (sc, cq(F(r0["smean"]))),
            "CaseLib.list_eqb opair_eqb (map (randind %s) (seq 0 %s)) (map Some %s)" % (_nl(c["ns"]), cn(total), _pairs(r0["randind"])),
            "CaseLib.list_eqb onat_eqb (map (convert_local %s %s) %s) (map Some %s)" % (P, lens, _pairs(pairs), _nl(r0["convert"])),
            "CaseLib.list_eqb opair_eqb (map (ctr_ids_mpi %s %s) (seq 0 %s)) (map Some %s)" % (P, lens, cn(n), _pairs(r0["ids_flat"])),
            "CaseLib.list_eqb opair_eqb (map (ctr_pair_mpi %s %s) %s) (map Some %s)" % (P, lens, _pairs(tf), _pairs(r0["ids_pair"])),
            "CaseLib.opt_eqb CaseLib.nl_eqb (assemble_flat %s (stripes %s %s)) (Some %s)" % (P, P, lens, _nl(r0["lens"])),
            "CaseLib.opt_eqb CaseLib.zl_eqb (assemble 0%%Z %s %s (scatter %s %s %s)) (Some %s)" % (
                P, lens, P, lens, clist(c["vals"], cz, "Z"), clist(r0["asm"], cz, "Z")),
            # round 3: the definitions regenerated from the source (Gen/MpiGen.v) next to the hand model
            "CaseLib.opt_eqb Qeq_bool (gen_striped_array_max %s) (Some %s)" % (sc, cq(F(r0["smax"]))),
            "match gen_striped_array_mean %s %s with Some v => CaseLib.q_close (1 # 1000000000000) v %s | None => false end" % (
                P, sc, cq(F(r0["smean"]))),
            "CaseLib.list_eqb opair_eqb (map (gen_randind %s %s) (seq 0 %s)) (map Some %s)" % (
                P, _nl(c["ns"]), cn(total), _pairs(r0["randind"])),
            "CaseLib.opt_eqb CaseLib.nl_eqb (gen_convert_local_indices %s %s %s) (Some %s)" % (P, lens, _pairs(pairs), _nl(r0["convert"])),
            "CaseLib.list_eqb opair_eqb (map (gen_ctr_ids_mpi_flat %s %s) (seq 0 %s)) (map Some %s)" % (P, lens, cn(n), _pairs(r0["ids_flat"])),
            "CaseLib.list_eqb opair_eqb (map (gen_cim_pair %s %s) %s) (map Some %s)" % (P, lens, _pairs(tf), _pairs(r0["ids_pair"])),
            "CaseLib.opt_eqb CaseLib.nl_eqb (gen_assemble_striped_array %s (stripes %s %s)) (Some %s)" % (P, P, lens, _nl(r0["lens"])),
            "CaseLib.opt_eqb CaseLib.zl_eqb (gen_assemble_striped_ragged_array 0%%Z %s %s (scatter %s %s %s)) (Some %s)" % (
                P, lens, P, lens, clist(c["vals"], cz, "Z"), clist(r0["asm"], cz, "Z")),
        ]
        for cl, fl, pr, bk in zip(c.get("ctrs") or [], r0.get("ctrs_flat", []), r0.get("ctrs_pair", []), r0.get("ctrs_back", [])):
            # round 3s (second wave): centre lists in the caller's order, label by label
            parts += [
                "CaseLib.list_eqb opair_eqb (map (ctr_ids_mpi %s %s) %s) (map Some %s)" % (P, lens, _nl(cl), _pairs(fl)),
                "CaseLib.list_eqb opair_eqb (map (gen_ctr_ids_mpi_flat %s %s) %s) (map Some %s)" % (P, lens, _nl(cl), _pairs(fl)),
                "CaseLib.list_eqb opair_eqb (map (ctr_pair_mpi %s %s) %s) (map Some %s)" % (P, lens, _pairs([tf[g] for g in cl]), _pairs(pr)),
                "CaseLib.list_eqb opair_eqb (map (gen_cim_pair %s %s) %s) (map Some %s)" % (P, lens, _pairs([tf[g] for g in cl]), _pairs(pr)),
                "CaseLib.list_eqb onat_eqb (map (convert_local %s %s) %s) (map Some %s)" % (P, lens, _pairs(fl), _nl(bk)),
                "CaseLib.opt_eqb CaseLib.nl_eqb (gen_convert_local_indices %s %s %s) (Some %s)" % (P, lens, _pairs(fl), _nl(bk))]
        return " && ".join("(%s)" % p for p in parts)
    if c["kind"] == "kmw":
        # the distributed sweep from the state the ranks were handed: centre pairs = map ctr_ids_mpi over the flat list (in its
        # order), frames scattered round-robin, then one PAM step per (sweep, label) with the proposal's (rank, local) pair
        r0, st = rk[0], out["start"]
        inv = ref_pairs(c["lens"], c["P"])
        frames = clist(list(zip(range(c["n"]), st["asg"], st["dst"])),
                       lambda t: "(mkfr %s %s %s)" % (cn(t[0]), cn(t[1]), cq(F(t[2]))), "fr")
        steps = clist([(j, inv[g]) for _ in range(c["n_iters"]) for j, g in enumerate(out["props"])],
                      lambda t: "(%s, (%s, %s))" % (cn(t[0]), cn(t[1][0]), cn(t[1][1])), "(nat * (nat * nat))")
        exp = "(Some (%s, %s, %s))" % (_pairs(r0["ctr"]), clist([r["asg"] for r in rk], _nl, "(list nat)"),
                                       clist([r["dst"] for r in rk], _ql, "(list Q)"))
        c0 = _nl(st["ctrs"])
        parts = ["match all_some (map (ctr_ids_mpi %s %s) %s) with Some cp => ds_eqb (pam_steps_mpi (Dm M) %s "
                 "(mkds cp %s (scatter %s %s %s))) %s | None => false end" % (P, lens, c0, steps, c0, P, lens, frames, exp),
                 "CaseLib.list_eqb opair_eqb (map (ctr_ids_mpi %s %s) %s) (map Some %s)" % (P, lens, c0, _pairs(r0["ids"])),
                 "CaseLib.list_eqb opair_eqb (map (gen_ctr_ids_mpi_flat %s %s) %s) (map Some %s)" % (P, lens, c0, _pairs(r0["ids"])),
                 "CaseLib.opt_eqb CaseLib.nl_eqb (gen_convert_local_indices %s %s %s) (Some %s)" % (P, lens, _pairs(r0["ids"]), _nl(r0["back"])),
                 "CaseLib.opt_eqb CaseLib.nl_eqb (gen_convert_local_indices %s %s %s) (Some %s)" % (P, lens, _pairs(r0["ctr"]), _nl(r0["ci"])),
                 "CaseLib.opt_eqb CaseLib.nl_eqb (gen_assemble_striped_ragged_array 0%%nat %s %s %s) (Some %s)" % (
                     P, lens, clist([r["asg"] for r in rk], _nl, "(list nat)"), _nl(r0["A"])),
                 "CaseLib.opt_eqb CaseLib.ql_eqb (gen_assemble_striped_ragged_array 0%%Q %s %s %s) (Some %s)" % (
                     P, lens, clist([r["dst"] for r in rk], _ql, "(list Q)"), _ql(r0["Dd"]))]
        return "(let M := %s in %s)" % (cc.D_term(out), " && ".join("(%s)" % p for p in parts))
    # io
    parts = []
    for r, o in enumerate(rk):
        for name in ("h5", "npy"):
            if name not in o:
                continue
            parts.append("CaseLib.nl_eqb (loaded %s %s %s %s) %s" % (P, cn(r), cn(c["stride"]), lens, _nl(o[name]["ids"])))
    parts.append("CaseLib.nl_eqb (map (strided_len %s) %s) %s" % (cn(c["stride"]), lens, _nl(rk[0]["h5"]["lens"])))
    return " && ".join("(%s)" % p for p in parts)


def coq_show(c, out=None):
    if out is None:
        out = run_impl(c)
    P, lens = cn(c["P"]), _nl(c["lens"])
    if c["kind"] in ("kc", "kcw", "hybrid") and "ranks" in out:
        return "(let M := %s in ds_show %s)" % (cc.D_term(out), _model_cluster(c, out))
    if c["kind"] == "kmw":
        return "(map (ctr_ids_mpi %s %s) %s)" % (P, lens, _nl(out["start"]["ctrs"])) if "start" in out else "tt"
    if c["kind"] == "ops":
        return "(map (randind %s) (seq 0 %s), map (ctr_ids_mpi %s %s) (seq 0 %s), striped_mean (scatter %s %s %s))" % (
            _nl(c["ns"]), cn(sum(c["ns"])), P, lens, cn(c["n"]), P, lens, _ql([str(v) for v in c["vals"]]))
    if c["kind"] == "io":
        return "(map (fun r => loaded %s r %s %s) (seq 0 %s))" % (P, cn(c["stride"]), lens, P)
    if c["kind"] == "rand":
        return "(map (randind %s) %s)" % (_nl(c["ns"]), _nl(rand_expected(c)[0]))
    if c["kind"] == "asa":
        return "(assemble_flat %s (stripes %s %s))" % (P, P, _nl(asa_ids(c, _exact_rows(asa_array(c)))))
    return "tt"


# ----------------------------------------------------------------------------- oracle
def serial_tie_free(c, out):
    """exact replay of the serial k-centers run on the implementation's distance matrix: is the farthest
    frame unique at every iteration that is executed?"""
    D = [[F(v) for v in row] for row in out["D"]]
    n = len(D)
    nclu = c["nclu"] if c["nclu"] is not None else float("inf")
    cutoff = F(c["cutoff"]) if c["cutoff"] is not None else F(0)
    init = c["init"] if c["kind"] == "kcw" else [0]
    dist = [min(D[ci][f] for ci in init) for f in range(n)]
    k = len(init)
    while k < nclu and max(dist) > cutoff:
        m = max(dist)
        if sum(1 for v in dist if v == m) > 1:
            return False
        cidx = dist.index(m)
        dist = [min(dist[f], D[cidx][f]) for f in range(n)]
        k += 1
    return True


def oracle_asa(c, out):
    g = asa_array(c)
    inp = _exact_rows(g)
    what = "%s%s array of %d rows on %d ranks, rows %s" % (c["dtype"], c["tail"] or "", c["n"], c["P"], inp)
    bad = any(F(v) <= 0 for row in inp for v in row)
    if bad and c["P"] > 1:
        if out.get("err") != "ImproperlyConfigured":
            return [("assemble-array-guard", "%s: an entry <= 0 must be refused with ImproperlyConfigured, got %s" % (
                what, {k: v for k, v in out.items() if k in ("err", "msg")} or "a value"))]
        return []
    if "err" in out:
        return [("impl-error", "%s: %s: %s" % (what, out["err"], out.get("msg")))]
    fails = []
    if out.get("rerun_diff"):
        fails.append(("arrival-order", "the ranks' results depend on the order of arrival at the collectives: " + out["rerun_diff"]))
    for r, o in enumerate(out["ranks"]):
        if o["rows"] != inp or o["shape"] != list(g.shape):
            fails.append(("assemble-array", "%s: rank %d assembled %s (shape %s)" % (what, r, o["rows"], o["shape"])))
            break
        if o["dtype"] != c["dtype"]:
            fails.append(("assemble-array-dtype", "%s: rank %d returned dtype %s" % (what, r, o["dtype"])))
            break
    return fails


def oracle_rand(c, out):
    if "err" in out:
        return [("impl-error", "%s: %s" % (out["err"], out.get("msg")))]
    fails = []
    if out.get("rerun_diff"):
        fails.append(("arrival-order", "the ranks' results depend on the order of arrival at the collectives: " + out["rerun_diff"]))
    rk = out["ranks"]
    what = "randind x%d on local lengths %s, generators '%s' (seed %d, used draws %s)" % (
        c["ndraws"], c["ns"], c["rs"], c["seed"], c["rs_k"] if c["rs"] == "consumed" else "-")
    picks = [o["picks"] for o in rk]
    if any(p != picks[0] for p in picks):
        fails.append(("randind-ranks-agree", "%s: the ranks chose different elements: %s" % (what, picks)))
    gs, exp = rand_expected(c)
    for r, p in enumerate(picks):
        if p != exp:
            fails.append(("randind-serial", "%s: rank %d returned %s; a serial draw of %s by rank 0's generator selects %s" % (
                what, r, p, gs, exp)))
            break
    if c["packed"]:
        for p, g in zip(picks[0], gs):
            if p[0] + c["P"] * p[1] != g:      # element (owner, i) of a[owner::P] is a[owner + P*i]
                fails.append(("randind-element", "%s: pick %s is element %d of the striped array, the draw was %d" % (
                    what, p, p[0] + c["P"] * p[1], g)))
                break
    return fails


def _ctr_order_fails(what, P, lens, cl, flat, back, pair=None):
    """position in a centre list is the cluster label: the (rank, local) pairs must be the serial definition's label by
    label, and convert_local_indices must give the caller's list back, in order"""
    inv = ref_pairs(lens, P)
    exp = [inv[g] for g in cl]
    fails = []
    if flat != exp:
        fails.append(("ctr-ids-order", "%s: ctr_ids_mpi gave (rank, local) pairs %s; label by label the serial definition "
                      "gives %s%s" % (what, flat, exp, " (the same pairs in another order)" if sorted(flat) == sorted(exp) else "")))
    if back != list(cl):
        fails.append(("ctr-ids-roundtrip", "%s: convert_local_indices(ctr_ids_mpi(c)) = %s, not the centres in the order given" % (what, back)))
    if pair is not None and pair != exp:
        fails.append(("ctr-ids-pair-order", "%s: given as (trajectory, frame) pairs, ctr_ids_mpi gave %s; label by label "
                      "the serial definition gives %s" % (what, pair, exp)))
    return fails


def oracle_kmw(c, out):
    if "err" in out:
        return [("impl-error", "%s: %s" % (out["err"], out.get("msg")))]
    P, lens, st = c["P"], c["lens"], out["start"]
    what = ("k-medoids, %d sweep(s), warm-started from centres %s (flat global frame numbers%s), trajectory lengths %s, "
            "%d rank(s), proposals %s" % (c["n_iters"], st["ctrs"], ", as serial k-centers found them" if c["start"] == "kcenters" else "",
                                           lens, P, out["props"]))
    fails = []
    if out.get("rerun_diff"):
        fails.append(("arrival-order", "the ranks' results depend on the order of arrival at the collectives: " + out["rerun_diff"]))
    rk = out["ranks"]
    r0 = rk[0]
    for r, o in enumerate(rk):
        f = _ctr_order_fails("centres %s, trajectory lengths %s, %d rank(s), rank %d" % (st["ctrs"], lens, P, r),
                             P, lens, st["ctrs"], o["ids"], o["back"])
        if f:
            fails += f
            break
    for r, o in enumerate(rk):
        if (o["ci"], o["A"], o["Dd"], o["ctr"]) != (r0["ci"], r0["A"], r0["Dd"], r0["ctr"]):
            fails.append(("ranks-disagree", "%s: rank %d reassembled a different result than rank 0" % (what, r)))
            break
        if not o["cen_ok"]:
            fails.append(("center-not-frame", "%s: rank %d: a reported centre is not the frame at its global index" % (what, r)))
            break
        ids = local_ids(lens, r, P)
        if o["asg"] != [r0["A"][g] for g in ids] or o["dst"] != [r0["Dd"][g] for g in ids]:
            fails.append(("assemble", "%s: rank %d: its local labels/distances are not at their global positions" % (what, r)))
            break
    ser = out["serial"]
    if "err" in ser:
        fails.append(("serial-error", "%s: the serial sweep raised %s" % (what, ser)))
        return fails
    if (ser["ctrs"], ser["asg"], ser["dst"]) != (r0["ci"], r0["A"], r0["Dd"]):
        diff = [nm for nm, a, b in (("centres", ser["ctrs"], r0["ci"]), ("labels", ser["asg"], r0["A"]),
                                    ("distances", ser["dst"], r0["Dd"])) if a != b]
        fails.append(("kmedoids-mpi-vs-serial", "%s: the distributed sweep returns centres %s labels %s; the serial sweep from the "
                      "same state with the same proposals returns centres %s labels %s (%s differ)" % (
                          what, r0["ci"], r0["A"], ser["ctrs"], ser["asg"], ", ".join(diff))))
    # the invariants of the serial result must hold for the distributed one too (never more than the serial run satisfies)
    ser_inv = {k_ for k_, _ in cc.inv_failures({"res": ser, "D": out["D"]})}
    glob = {"res": {"ctrs": r0["ci"], "asg": r0["A"], "dst": r0["Dd"], "centers_are_frames": True}, "D": out["D"]}
    for key, msg in cc.inv_failures(glob):
        if key not in ser_inv:
            fails.append(("mpi-" + key, "%s: %s" % (what, msg)))
    return fails


def oracle(c, out):
    if c["kind"] == "asa":
        return oracle_asa(c, out)
    if c["kind"] == "kmw":
        return oracle_kmw(c, out)
    if c["kind"] == "rand":
        return oracle_rand(c, out)
    if "err" in out:
        return [("impl-error", "%s: %s" % (out["err"], out.get("msg")))]
    rk = out["ranks"]
    fails = []
    if out.get("rerun_diff"):
        fails.append(("arrival-order", "the ranks' results depend on the order of arrival at the collectives: " + out["rerun_diff"]))
    P, lens = c["P"], c["lens"]
    if c["kind"] in ("kc", "kcw", "hybrid"):
        r0 = rk[0]
        for r, o in enumerate(rk):
            if (o["ci"], o["A"], o["Dd"], o["ctr"], o["smax"]) != (r0["ci"], r0["A"], r0["Dd"], r0["ctr"], r0["smax"]):
                fails.append(("ranks-disagree", "rank %d reassembled a different result than rank 0" % r))
                break
            if not o["cen_ok"]:
                fails.append(("center-not-frame", "rank %d: a reported centre is not the frame at its global index" % r))
                break
            ids = local_ids(lens, r, P)
            if o["asg"] != [r0["A"][g] for g in ids] or o["dst"] != [r0["Dd"][g] for g in ids]:
                fails.append(("assemble", "rank %d: its local labels/distances are not at their global positions" % r))
                break
        glob = {"res": {"ctrs": r0["ci"], "asg": r0["A"], "dst": r0["Dd"], "centers_are_frames": True}, "D": out["D"]}
        for key, msg in cc.inv_failures(glob):
            fails.append(("mpi-" + key, msg))
        if F(r0["smax"]) != max(F(v) for v in r0["Dd"]):
            fails.append(("striped-max", "striped_array_max %s != max of all distances" % r0["smax"]))
        if c["kind"] == "kcw" and r0["ci"][:len(c["init"])] != c["init"]:
            fails.append(("warm-centres", "the supplied initial centres %s are not the first reported centres %s" % (c["init"], r0["ci"])))
        if c["kind"] in ("kc", "kcw"):
            ser = out["serial"]
            if "err" in ser:
                fails.append(("serial-error", str(ser)))
            elif serial_tie_free(c, out):
                if (ser["ctrs"], ser["asg"], ser["dst"]) != (r0["ci"], r0["A"], r0["Dd"]):
                    fails.append(("mpi-vs-serial", "tie-free data: distributed (%s, %s) != serial (%s, %s)" % (
                        r0["ci"], r0["A"], ser["ctrs"], ser["asg"])))
            elif len(ser["ctrs"]) != len(r0["ci"]) and c["cutoff"] is None:
                fails.append(("mpi-vs-serial-k", "different number of centres under a count-only stop"))
        return fails
    if c["kind"] == "ops":
        r0 = rk[0]
        for r, o in enumerate(rk):
            if o != r0:
                fails.append(("ranks-disagree", "rank %d returned different values than rank 0" % r))
                break
        vals = c["vals"]
        if F(r0["smax"]) != max(vals):
            fails.append(("striped-max", "%s != %s" % (r0["smax"], max(vals))))
        if float(F(r0["smean"])) != sum(vals) / len(vals):
            fails.append(("striped-mean", "%s != %s" % (r0["smean"], F(sum(vals), len(vals)))))
        valid = sorted([r, i] for r in range(P) for i in range(c["ns"][r]))
        if sorted(r0["randind"]) != valid:
            fails.append(("randind-bijection", "draws 0..%d map to %s, valid pairs are %s" % (sum(c["ns"]) - 1, r0["randind"], valid)))
        exp_conv = [g for r in range(P) for g in local_ids(lens, r, P)]
        if r0["convert"] != exp_conv:
            fails.append(("convert-local", "%s != %s" % (r0["convert"], exp_conv)))
        pairs = [[r, i] for r in range(P) for i in range(len(local_ids(lens, r, P)))]
        inv = {g: p for g, p in zip(exp_conv, pairs)}
        if r0["ids_flat"] != [inv[g] for g in range(c["n"])]:
            fails.append(("ctr-ids-flat", "%s is not the inverse of convert_local_indices" % (r0["ids_flat"],)))
        if r0["ids_pair"] != r0["ids_flat"]:
            fails.append(("ctr-ids-pair", "(trajectory, frame) form differs from the flat form"))
        if r0["lens"] != lens:
            fails.append(("assemble-array", "%s != %s" % (r0["lens"], lens)))
        if r0["asm"] != vals or not r0["asm_dtype_ok"]:
            fails.append(("assemble-ragged", "%s != %s" % (r0["asm"], vals)))
        for i, cl in enumerate(c.get("ctrs") or []):
            fails += _ctr_order_fails("centres %s (global frame numbers), trajectory lengths %s, %d rank(s)" % (cl, lens, P),
                                      P, lens, cl, r0["ctrs_flat"][i], r0["ctrs_back"][i], r0["ctrs_pair"][i])
        return fails
    # io
    exp_lens = [len(range(0, L, c["stride"])) for L in lens]
    seen = []
    if c.get("zrows"):
        # the serial loader's report of the same file is the reference: one length per table, zeros included
        ser = out.get("serial") or {"err": "missing"}
        what = "file with tables of %s rows (EArrays arr_0.., written with PyTables), stride %d, %d rank(s)" % (lens, c["stride"], P)
        if "err" in ser:
            return [("serial-loader", "%s: ra.load raised %s" % (what, ser))]
        if ser["lens"] != exp_lens or not ser["rows_equal"]:
            fails.append(("serial-loader", "%s: ra.load reports lengths %s, the tables strided have %s" % (what, ser["lens"], exp_lens)))
        for r, o in enumerate(rk):
            if o["h5"]["lens"] != ser["lens"]:
                fails.append(("loader-lengths-h5", "%s, rank %d: global lengths %s, but the serial loader (ra.load) reports %s" % (
                    what, r, o["h5"]["lens"], ser["lens"])))
            if not o["h5"]["equal"]:
                fails.append(("loader-data-h5", "%s, rank %d: the local array holds frames %s, tables %s (strided) are frames %s" % (
                    what, r, o["h5"]["ids"], owned(lens, r, P), [int(v) for v in local_rows(np.arange(c["n"]), lens, r, P, c["stride"])])))
            seen += o["h5"]["ids"]
        if sorted(seen) != sorted(ser["ids"]):
            fails.append(("keys-partition", "%s: ranks together loaded frames %s, the serial loader %s" % (what, sorted(seen), ser["ids"])))
        return fails[:4]
    for r, o in enumerate(rk):
        for name in ("h5", "npy"):
            if not o[name]["equal"]:
                fails.append(("loader-data-" + name, "rank %d loaded %s" % (r, o[name]["ids"])))
            if o[name]["lens"] != exp_lens:
                fails.append(("loader-lengths-" + name, "rank %d: %s != %s" % (r, o[name]["lens"], exp_lens)))
        seen += o["npy"]["ids"]
    st = _starts(lens)
    allrows = [g for t in range(len(lens)) for g in range(st[t], st[t + 1])[::c["stride"]]]
    if sorted(seen) != allrows:
        fails.append(("keys-partition", "ranks together loaded %s" % sorted(seen)))
    return fails[:4]


def neartie_events(c, out):
    """exact replay of the serial run: at how many iterations do the local maxima of two ranks agree after rounding to
    float32 while the true (float64-exact) maximum is NOT on the lowest such rank?"""
    D = [[F(v) for v in row] for row in out["D"]]
    n, P, lens = len(D), c["P"], c["lens"]
    owner = {}
    for r in range(P):
        for g in local_ids(lens, r, P):
            owner[g] = r
    nclu = c["nclu"] if c["nclu"] is not None else float("inf")
    cutoff = F(c["cutoff"]) if c["cutoff"] is not None else F(0)
    dist = [D[0][f] for f in range(n)]
    k, ev = 1, 0
    while k < nclu and max(dist) > cutoff:
        m = max(dist)
        cidx = dist.index(m)
        lmax = {}
        for f in range(n):
            lmax[owner[f]] = max(lmax.get(owner[f], F(-1)), dist[f])
        top32 = max(np.float32(float(v)) for v in lmax.values())
        tied = sorted(r for r, v in lmax.items() if np.float32(float(v)) == top32)
        if len(tied) >= 2 and owner[cidx] != tied[0]:
            ev += 1
        dist = [min(dist[f], D[cidx][f]) for f in range(n)]
        k += 1
    return ev


def nontrivial(c, out):
    if c["kind"] == "asa":
        return c["P"] >= 2 and ("ranks" in out or out.get("err") == "ImproperlyConfigured")
    if c["kind"] == "rand":
        return "ranks" in out and c["P"] >= 2 and c["n"] >= 2
    if "ranks" not in out or c["P"] < 2 or len(c["lens"]) < 2:
        return False
    if c["kind"] in ("kc", "kcw", "hybrid"):
        return len(out["ranks"][0]["ctr"]) >= 2
    if c["kind"] == "kmw":
        return len(out["start"]["ctrs"]) >= 3
    return True


def tags(c, out):
    t = [c["kind"], "P=%d" % c["P"]]
    if c["kind"] == "ops" and max(c["vals"]) < 0:
        t.append("ops-all-negative")
    lens, P = c["lens"], c["P"]
    if c["kind"] in ("asa", "rand"):
        sch = out.get("sched") or {}
        if c["kind"] == "rand":
            if "ranks" in out:
                t.append("rand-generators-" + c["rs"])
                if P >= 2 and c["rs"] != "same":
                    t.append("rand-generators-out-of-step")
                t.append("rand-packed" if c["packed"] else "rand-uneven-local-lengths")
                if c["ndraws"] >= 2:
                    t.append("rand-successive-draws")
        else:
            if out.get("err") == "ImproperlyConfigured":
                t.append("asa-nonpositive-rejected")
            elif "ranks" in out and P >= 2:
                kind_ = np.dtype(c["dtype"]).kind
                t.append("asa-dtype-" + ("float" if kind_ == "f" else "bool" if kind_ == "b" else "int"))
                if kind_ == "f":
                    t.append("asa-" + c["dtype"])
                    vals = [F(v) for row in c["rows"] for v in row]
                    if any(v.denominator != 1 for v in vals):
                        t.append("asa-non-integral")
                    if any(0 < v < 1 for v in vals):
                        t.append("asa-values-below-1")
                t.append("asa-2d-rows" if c["tail"] else "asa-1d")
        if "err" in out and out.get("err") != "ImproperlyConfigured":
            t.append("impl-error")
        return t
    if any(len(owned(lens, r, P)) == 1 for r in range(P)):
        t.append("rank-owns-one-trajectory")
    if P >= 2 and len(lens) == P:
        t.append("every-rank-owns-one-trajectory")
        if P >= 5:
            t.append("P>=5-every-rank-owns-one-trajectory")
    sch = out.get("sched") or {}
    if sch.get("seeds", 0) >= 3:
        t.append("three-schedules")
    if sch.get("arrival_orders", 0) >= 2:
        t.append("arrival-orders-varied")
    if len(sch.get("last_arrivers", [])) >= 2:
        t.append("last-arriver-varied")
    if len(set(lens)) > 1 and any(len(owned(lens, r, P)) > 1 and len({lens[i] for i in owned(lens, r, P)}) == 1 for r in range(P)):
        t.append("equal-local-lengths-unequal-global")
        if P >= 4:
            t.append("P>=4-equal-local-lengths-unequal-global")
    if "err" in out:
        t.append("impl-error")
        return t
    if c["kind"] in ("kc", "kcw", "hybrid"):
        t.append(c["metric"])
        if c.get("ti"):
            t.append("ti")
        tf = serial_tie_free(c, out)
        t.append("tie-free" if tf else "ties")
        if c.get("neartie"):
            t.append("neartie")
            if tf:
                t.append("neartie-tie-free")
                if neartie_events(c, out) >= 1:
                    t.append("neartie-true-max-on-higher-rank")
        if c["kind"] == "hybrid":
            t.append("hybrid-generators-" + c.get("rs", "same"))
        owners = {p[0] for p in out["ranks"][0]["ctr"]}
        if len(owners) >= 2:
            t.append("centres-on-several-ranks")
        if c["kind"] == "hybrid" and out["ranks"][0]["ctr"] is not None:
            t.append("pam-draws" if out.get("draws") else "pam-no-draws")
    if c["kind"] == "ops" and c.get("ctrs") and "ctrs_flat" in out["ranks"][0]:
        for cl in c["ctrs"]:
            if len(cl) >= 3 and cl != sorted(cl):
                t.append("ctrs-not-ascending")
                if cl == sorted(cl, reverse=True):
                    t.append("ctrs-descending")
                if len({g_ for g_, p_ in ref_pairs(lens, P).items() if g_ in cl and p_[0] != ref_pairs(lens, P)[cl[0]][0]}) >= 1:
                    t.append("ctrs-not-ascending-on-several-ranks")
            elif len(cl) >= 3:
                t.append("ctrs-ascending")
    if c["kind"] == "kmw":
        st = out["start"]
        t.append("kmw-start-" + c["start"])
        t.append(c["metric"])
        if st["ctrs"] != sorted(st["ctrs"]):
            t.append("kmw-centres-not-ascending")
            if c["start"] == "kcenters":
                t.append("kmw-kcenters-order-not-ascending")
            if P >= 2:
                t.append("kmw-centres-not-ascending-P>=2")
        else:
            t.append("kmw-centres-ascending")
        if "err" not in out.get("serial", {"err": 1}):
            if out["serial"]["ctrs"] != st["ctrs"]:
                t.append("kmw-proposal-accepted")
            else:
                t.append("kmw-no-proposal-accepted")
        if c["n_iters"] >= 2:
            t.append("kmw-two-sweeps")
        if len({p[0] for p in out["ranks"][0]["ctr"]}) >= 2:
            t.append("centres-on-several-ranks")
    if c["kind"] == "io":
        t.append("stride=%d" % c["stride"])
        if c.get("zrows"):
            z = [i for i, L in enumerate(lens) if L == 0]
            t.append("io-zero-row-table")
            if 0 in z:
                t.append("io-zero-row-table-first")
            if len(lens) - 1 in z:
                t.append("io-zero-row-table-last")
            if any(0 < i < len(lens) - 1 for i in z):
                t.append("io-zero-row-table-middle")
            if len(z) >= 2:
                t.append("io-two-zero-row-tables")
            if any(sum(lens[i] for i in owned(lens, r, P)) == 0 for r in range(P)):
                t.append("io-zero-row-rank-holds-no-frame")
            if P >= 2:
                t.append("io-zero-row-P>=2")
            return t
        names = ["x%d_%02d" % ((7 * k + 3) % 10, k) for k in range(len(c["lens"]))]
        if names != sorted(names):
            t.append("io-file-names-not-sorted")
    return t


ESSENTIAL_TAGS = ["ops-all-negative", "kc", "kcw", "hybrid", "ops", "io", "P=1", "P=2", "P=3", "P=4", "P=5", "P=6", "rank-owns-one-trajectory",
                  "every-rank-owns-one-trajectory", "P>=5-every-rank-owns-one-trajectory",
                  "equal-local-lengths-unequal-global", "P>=4-equal-local-lengths-unequal-global",
                  "three-schedules", "arrival-orders-varied", "last-arriver-varied",
                  "tie-free", "ties", "ti", "centres-on-several-ranks", "pam-draws", "io-file-names-not-sorted",
                  # round 3s
                  "rand", "asa", "neartie", "neartie-tie-free", "neartie-true-max-on-higher-rank",
                  "rand-generators-same", "rand-generators-seeds", "rand-generators-consumed", "rand-generators-none",
                  "rand-generators-out-of-step", "rand-packed", "rand-uneven-local-lengths", "rand-successive-draws",
                  "hybrid-generators-same", "hybrid-generators-seeds", "hybrid-generators-consumed", "hybrid-generators-none",
                  "asa-nonpositive-rejected", "asa-dtype-float", "asa-dtype-int", "asa-dtype-bool", "asa-float64", "asa-float32",
                  "asa-float16", "asa-non-integral", "asa-values-below-1", "asa-2d-rows", "asa-1d",
                  # round 3s, second wave
                  "ctrs-not-ascending", "ctrs-descending", "ctrs-not-ascending-on-several-ranks", "ctrs-ascending",
                  "kmw", "kmw-start-given", "kmw-start-kcenters", "kmw-centres-not-ascending", "kmw-kcenters-order-not-ascending",
                  "kmw-centres-not-ascending-P>=2", "kmw-centres-ascending", "kmw-proposal-accepted", "kmw-two-sweeps",
                  "io-zero-row-table", "io-zero-row-table-first", "io-zero-row-table-middle", "io-zero-row-table-last",
                  "io-two-zero-row-tables", "io-zero-row-rank-holds-no-frame", "io-zero-row-P>=2"]


def search(rng, tier):
    found = []
    for c in generate(rng, "quick"):
        out = run_impl(c)
        for key, msg in oracle(c, out):
            found.append((key, msg, c, out))
            return found
    return found
