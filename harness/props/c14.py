"""C14: MPI-striped clustering and reductions equal their serial counterparts.

There is no MPI runtime in the sandbox: the real enspara code runs on the thread-simulated mpi4py of
harness/mpisim.py (one thread per rank, bulk-synchronous collectives).  Each case fixes a world size
P and a vector of trajectory lengths; trajectory t is handed to rank t mod P exactly as the loaders do."""
import os, shutil, sys, tempfile
from fractions import Fraction as F
import numpy as np
import cluster_common as cc
from core import cn, cz, cq, cb, clist, copt, VERIF
import mpisim
sys.path.insert(0, os.path.join(VERIF, "translator"))
import tr_mpi

PID = "C14"
PROPS_FILE = "Props/C14.v"
WORLD_SIZE = 2            # makes bootstrap install the simulator; the world size is set per case (run_ranks(P, ...))
MODEL_TARGETS = ["Model/Cluster.vo", "Model/Mpi.vo", "Base/MpiGenBase.vo", "Gen/MpiGen.vo"]
GEN_FILES = ["Gen/MpiGen.v"]
CASE_HEADER = ("From Coq Require Import List ZArith QArith.\nFrom EV Require Import Cluster Mpi MpiGenBase MpiGen.\n"
               "Import ListNotations.\n")


def translate(repo):
    """round 3: the index arithmetic and decision logic of enspara/mpi/ops.py, _kcenters_iteration_mpi, the MPI branches
    of kcenters, ctr_ids_mpi and the MPI branches of the PAM update are regenerated from the source (Gen/MpiGen.v);
    Proof/MpiGenProofs.v proves the generated definitions equal to Model/Mpi.v"""
    return tr_mpi.translate(repo)


SHARD = 40
CASE_TIMEOUT = 20.0     # seconds per case for all ranks together (a hang is reported, not waited out)
RULE = ("world size P in 1..6, 1..12 trajectories of length 1..5 (P <= number of trajectories; dedicated streams: every rank owns "
        "exactly ONE trajectory for P = 2..6, and every rank owns >= 2 trajectories of one length while the lengths differ between "
        "ranks -- equal local lengths under unequal global lengths -- for P = 2..6), dealt round-robin; every case runs under a "
        "list of arrival-order schedules (jitter seeds: per-rank random sleeps before and after EACH collective, seed-chosen "
        "straggler ranks, shuffled thread start; 40% of the cases under three schedules) and all schedules must return identical "
        "per-rank results; kinds: kc = kcenters(mpi_mode=True) on every rank "
        "(count and/or radius stop, triangle shortcut) then assemble_striped_ragged_array + convert_local_indices, compared with "
        "the serial run on the concatenated data; kcw = the same from init_centers = 1..4 distinct frames of the data (MPI warm "
        "start); hybrid = hybrid(mpi_mode=True) with rank 0's random draws recorded and replayed "
        "in the model; ops = striped_array_max/mean, randind for EVERY draw, convert_local_indices for every (rank, index), "
        "ctr_ids_mpi for every global index and every (trajectory, frame), assemble_striped_array, assemble_striped_ragged_array; "
        "io = load_h5_as_striped / load_npy_as_striped with strides 1..3.  Data: small integer coordinates (ties frequent) and "
        "random floats (tie-free).  The model runs on the implementation's own distance matrix; per-rank centre pairs, labels, "
        "distances, every index map and every reduction are compared exactly (means to 1e-12); the definitions regenerated "
        "from the source (Gen/MpiGen.v: gen_convert_local_indices, gen_assemble_striped_(ragged_)array, gen_striped_array_max/mean, "
        "gen_randind, gen_ctr_ids_mpi_flat, gen_cim_pair, gen_kcenters_mpi) are evaluated on the same inputs next to the hand "
        "model.  non-trivial := P >= 2 and at "
        "least 2 trajectories and (for clustering) >= 2 centres")
TRUSTED = cc.TRUSTED + [
    "harness/mpisim.py: collectives are functions of the vector of per-rank contributions (MPI semantics, trusted); "
    "no real MPI library, no deadlock/buffer-typing behaviour of one",
    "rank 0's RandomState.randint draws are recorded and replayed in the model (k-medoids proposals)",
    "translator/tr_mpi.py + Base/MpiGenBase.v (round 3): the reading of NumPy / RaggedArray / mpi4py calls as the vocabulary "
    "np_arange, nslice (Base/PySlice.v), nput_slice, ra_make, ra_where_first, bcast, allgather, allreduce_*, ...; statements "
    "that are array glue (buffer allocation, dtype casts, asserts, logging, the md.Trajectory wrapping) are pinned as text"]
ASSUMPTIONS = ["world size <= number of trajectories, every trajectory has >= 1 frame (the loaders require it)",
               "MPI warm start: init_centers is a non-empty list of distinct frames of the data (every rank passes the same list)",
               "owner ranks handed to convert_local_indices are < world size",
               "equality with the serial run is claimed for tie-free data only (unique farthest frame at every iteration); "
               "with ties the distributed run is still compared with its own model and must satisfy the clustering invariant"]
EXHAUSTIVE = {"thorough": False}


# ----------------------------------------------------------------------------- helpers
def _starts(lens):
    s = [0]
    for L in lens:
        s.append(s[-1] + L)
    return s


def owned(lens, r, P):
    return list(range(r, len(lens), P))


def local_rows(arr, lens, r, P, stride=1):
    st = _starts(lens)
    parts = [arr[st[t]:st[t + 1]][::stride] for t in owned(lens, r, P)]
    return np.concatenate(parts) if parts else arr[:0]


def local_ids(lens, r, P):
    st = _starts(lens)
    return [g for t in owned(lens, r, P) for g in range(st[t], st[t + 1])]


class RecRS(np.random.RandomState):
    """RandomState whose randint results are logged (rank 0's draws drive the proposals)"""

    def __init__(self, seed):
        super().__init__(seed)
        self.log = []

    def randint(self, *a, **k):
        v = super().randint(*a, **k)
        self.log.append(int(v))
        return v


class FixedDraw(np.random.RandomState):
    def __init__(self, g):
        super().__init__(0)
        self.g = g

    def randint(self, *a, **k):
        return self.g


def _err(ex):
    if isinstance(ex, mpisim.RankFailure):
        ex = ex.first
    return {"err": type(ex).__name__, "msg": str(ex)[:300]}


def _q(v):
    return str(F(float(v)))


# ----------------------------------------------------------------------------- generators
def gen_lens(rng, P=None):
    style = rng.random()
    if P is None:
        P = rng.choice([1, 2, 2, 3, 3, 4, 5, 6])
    if style < 0.15 and P >= 2:
        # every rank owns exactly one trajectory (world size = number of trajectories), P up to 6
        return P, [rng.randint(1, 5) for _ in range(P)]
    if style < 0.35 and P >= 2:
        # equal local lengths under unequal global lengths (the D4 trigger), every world size up to 6: rank r owns
        # 2 or 3 trajectories, all of length per_rank[r]; at least two ranks differ
        per_rank = [rng.randint(1, 3) for _ in range(P)]
        if len(set(per_rank)) == 1:
            per_rank[rng.randrange(P)] = per_rank[0] % 3 + 1
        ntr = min(12, 2 * P + rng.choice([0, 0, 1, P]))
        return P, [per_rank[t % P] for t in range(ntr)]
    style = rng.random()
    ntr = rng.randint(P, max(P, min(7, P + rng.choice([0, 0, 1, 2, 3]))))
    if style < 0.2:
        lens = [rng.randint(1, 4)] * ntr                      # square
    elif style < 0.4 and ntr >= 2 * P:
        # equal local lengths under unequal global lengths (the D4 trigger)
        per_rank = [rng.randint(1, 4) for _ in range(P)]
        lens = [per_rank[t % P] for t in range(ntr)]
    else:
        lens = [rng.randint(1, 5) for _ in range(ntr)]
    return P, lens


def gen_jitter(rng):
    """the arrival-order schedules a case is run under (None = no artificial delays)"""
    r = rng.random()
    if r < 0.15:
        return [None]
    if r < 0.6:
        return [rng.randrange(10 ** 6)]
    return [rng.choice([None, rng.randrange(10 ** 6)]), rng.randrange(10 ** 6), rng.randrange(10 ** 6)]


def gen_cluster(rng, kind):
    P, lens = gen_lens(rng)
    n = sum(lens)
    while n < 2:
        P, lens = gen_lens(rng)
        n = sum(lens)
    c = {"kind": kind, "P": P, "lens": lens, "n": n}
    r = rng.random()
    pam = kind == "hybrid"
    if r < 0.25:
        M, tri = cc.gen_matrix(rng, n, rng.choice([3, 6, 12, 40]))
        c.update(metric="matrix", M=M, tri=tri)
    elif r < 0.5 and not pam:
        # tie-free float data
        dim = rng.randint(1, 3)
        c.update(metric="euclidean", dtype="float64",
                 X=[[round(rng.random() * 10, 6) for _ in range(dim)] for _ in range(n)])
    elif r < 0.75 or pam:
        if rng.random() < 0.5 or not pam:
            c.update(metric="manhattan", X=cc.gen_points(rng, n, rng.randint(1, 3), rng.choice([4, 6, 10, 30])))
        else:
            c.update(metric="euclidean", X=cc.gen_points(rng, n, 1, rng.choice([n + 2, 20, 60])))
    else:
        c.update(metric="euclidean", X=cc.gen_points(rng, n, rng.randint(1, 3), rng.choice([4, 6, 10])))
    if c["metric"] != "matrix" and "dtype" not in c:
        c["dtype"] = rng.choice(["float64", "float64", "float32", "int32", "int64"])
    mode = rng.choice(["k", "k", "r", "both"])
    kmax = min(n, 6)
    c["nclu"] = rng.randint(1, kmax) if mode in ("k", "both") else None
    c["cutoff"] = rng.choice([1, 2, 3, 1.5, 5]) if mode in ("r", "both") else None
    c["ti"] = bool(kind in ("kc", "kcw") and rng.random() < 0.4 and (c["metric"] != "matrix" or c.get("tri")))
    if kind == "hybrid":
        c["n_iters"] = rng.randint(1, 3)
        c["seed"] = rng.randrange(10 ** 6)
    if kind == "kcw":
        c["init"] = rng.sample(range(n), rng.randint(1, min(4, n)))
        if c["nclu"] is not None and rng.random() < 0.7:
            c["nclu"] = min(n, len(c["init"]) + rng.randint(0, 3))
    c["jitter"] = gen_jitter(rng)
    return c


def gen_ops(rng):
    P, lens = gen_lens(rng)
    n = sum(lens)
    c = {"kind": "ops", "P": P, "lens": lens, "n": n,
         "vals": ([rng.randint(-9, -1) for _ in range(n)] if rng.random() < 0.2      # all negative: the true maximum is < 0
                  else [rng.randint(-9, 9) if rng.random() < 0.5 else rng.randint(0, 9) for _ in range(n)]),
         "ns": [rng.choice([0, 1, 1, 2, 3, 4]) for _ in range(P)],
         "dtype": rng.choice(["float64", "int64"]), "jitter": gen_jitter(rng)}
    if sum(c["ns"]) == 0:
        c["ns"][rng.randrange(P)] = rng.randint(1, 3)
    return c


def gen_io(rng):
    P, lens = gen_lens(rng)
    return {"kind": "io", "P": P, "lens": lens, "n": sum(lens), "stride": rng.choice([1, 1, 2, 3]),
            "width": rng.randint(1, 3), "jitter": [rng.choice([None, rng.randrange(10 ** 6)])]}


def generate(rng, tier):
    mult = 1 if tier == "quick" else 10
    cases = []
    for _ in range(130 * mult):
        cases.append(gen_cluster(rng, "kc"))
    for _ in range(70 * mult):
        cases.append(gen_cluster(rng, "hybrid"))
    for _ in range(60 * mult):
        cases.append(gen_cluster(rng, "kcw"))
    for _ in range(60 * mult):
        cases.append(gen_ops(rng))
    for _ in range(16 * mult):
        cases.append(gen_io(rng))
    if tier == "thorough":
        # small exhaustive scope for the index maps: every P <= 4, every length vector over {1,2,3} with <= 4 trajectories
        import itertools
        for P in (1, 2, 3, 4):
            for ntr in range(P, 5):
                for lens in itertools.product((1, 2, 3), repeat=ntr):
                    n = sum(lens)
                    cases.append({"kind": "ops", "P": P, "lens": list(lens), "n": n, "vals": [(7 * i) % 10 for i in range(n)],
                                  "ns": [(lens[r] + r) % 4 for r in range(P)] if sum((lens[r] + r) % 4 for r in range(P)) else [1] * P,
                                  "dtype": "float64", "jitter": None})
    return cases


# ----------------------------------------------------------------------------- real code
def _kc_kwargs(c):
    kw = {}
    if c["nclu"] is not None:
        kw["n_clusters"] = c["nclu"]
    if c["cutoff"] is not None:
        kw["dist_cutoff"] = c["cutoff"]
    return kw


def _jitters(c):
    j = c.get("jitter")
    return list(j) if isinstance(j, list) else [j]


def _run_schedules(c, once):
    """once(seed, stats) -> the result of one whole run of all ranks (a dict; exceptions already mapped).
    The run under the first schedule is THE result; under every other schedule the ranks must return exactly
    the same values (rerun_diff says which schedule did not).  sched = what was really exercised."""
    seeds = _jitters(c)
    st = {}
    out = once(seeds[0], st)
    orders = set(st.get("orders", ()))
    colls = st.get("n_collectives", 0)
    for s_ in seeds[1:]:
        st2 = {}
        o2 = once(s_, st2)
        orders |= set(st2.get("orders", ()))
        if o2 != out:
            diff = sorted(k for k in set(out) | set(o2) if out.get(k) != o2.get(k))
            out["rerun_diff"] = "schedule %r differs from schedule %r in %s" % (s_, seeds[0], diff)
            break
    out["sched"] = {"seeds": len(seeds), "collectives": colls, "arrival_orders": len(orders),
                    "last_arrivers": sorted({o[-1] for o in orders})}
    return out


def run_cluster(c):
    from enspara.cluster import kcenters as KC, hybrid as KH
    from enspara.mpi import ops
    X = cc.make_X(c)
    metric = cc.make_metric(c)
    P, lens = c["P"], c["lens"]
    out = {"D": [[str(v) for v in row] for row in cc.dist_matrix(X, metric)]}
    kw = _kc_kwargs(c)
    if c["kind"] == "kcw":
        kw["init_centers"] = X[c["init"]].copy()
    try:
        ser = KC.kcenters(X.copy(), metric, use_triangle_inequality=bool(c.get("ti")), **kw)
        out["serial"] = cc.canon(ser, X)
    except Exception as ex:
        out["serial"] = _err(ex)
    gl = np.array(lens)
    recs = []

    def fn(r):
        loc = local_rows(X, lens, r, P).copy()
        if c["kind"] in ("kc", "kcw"):
            res = KC.kcenters(loc, metric, use_triangle_inequality=bool(c.get("ti")), mpi_mode=True, **kw)
        else:
            res = KH.hybrid(loc, metric, n_iters=c["n_iters"], mpi_mode=True, random_state=recs[r], **kw)
        o = {"ctr": [[int(a), int(b)] for a, b in res.center_indices],
             "asg": [int(a) for a in res.assignments], "dst": [_q(d) for d in res.distances]}
        ci = [int(i) for i in ops.convert_local_indices(res.center_indices, gl)]
        o["ci"] = ci
        o["A"] = [int(a) for a in ops.assemble_striped_ragged_array(res.assignments, gl)]
        o["Dd"] = [_q(d) for d in ops.assemble_striped_ragged_array(res.distances, gl)]
        o["cen_ok"] = bool(len(res.centers) == len(ci) and all(
            np.array_equal(np.asarray(cen), np.asarray(X[i])) for cen, i in zip(res.centers, ci)))
        o["smax"] = _q(ops.striped_array_max(res.distances))
        return o

    def once(seed, stats):
        o = dict(out)
        recs[:] = [RecRS(c.get("seed", 0)) for _ in range(P)]
        try:
            o["ranks"] = mpisim.run_ranks(P, fn, jitter=seed, timeout=CASE_TIMEOUT, stats=stats)
            o["draws"] = list(recs[0].log)
        except Exception as ex:
            o.update(_err(ex))
        return o
    return _run_schedules(c, once)


def run_ops(c):
    from enspara.mpi import ops
    from enspara.cluster import kmedoids as KM
    P, lens, n = c["P"], c["lens"], c["n"]
    vals = np.array(c["vals"], dtype=c["dtype"])
    gl = np.array(lens)
    total = sum(c["ns"])
    pairs = [(r, i) for r in range(P) for i in range(len(local_ids(lens, r, P)))]
    tf = [(t, f) for t in range(len(lens)) for f in range(lens[t])]

    def fn(r):
        loc = local_rows(vals, lens, r, P).copy()
        o = {"smax": _q(ops.striped_array_max(loc)), "smean": _q(ops.striped_array_mean(loc))}
        o["randind"] = [[int(v) for v in ops.randind(np.zeros(c["ns"][r]), FixedDraw(g))] for g in range(total)]
        o["convert"] = [int(v) for v in ops.convert_local_indices(pairs, gl)]
        o["ids_flat"] = [[int(a), int(b)] for a, b in KM.ctr_ids_mpi(list(range(n)), list(lens))]
        o["ids_pair"] = [[int(a), int(b)] for a, b in KM.ctr_ids_mpi([list(p) for p in tf], list(lens))]
        o["lens"] = [int(v) for v in ops.assemble_striped_array(gl[r::P])]
        asm = ops.assemble_striped_ragged_array(loc, gl)
        o["asm"] = [int(v) for v in asm]
        o["asm_dtype_ok"] = bool(asm.dtype == loc.dtype)
        return o

    def once(seed, stats):
        try:
            return {"ranks": mpisim.run_ranks(P, fn, jitter=seed, timeout=CASE_TIMEOUT, stats=stats)}
        except Exception as ex:
            return _err(ex)
    return _run_schedules(c, once)


def run_io(c):
    from enspara.mpi import io as mio
    from enspara import ra
    P, lens, n, stride, w = c["P"], c["lens"], c["n"], c["stride"], c["width"]
    data = np.zeros((n, w))
    data[:, 0] = np.arange(n)
    for j in range(1, w):
        data[:, j] = (np.arange(n) * (j + 2)) % 7
    st = _starts(lens)
    rows = [data[st[t]:st[t + 1]] for t in range(len(lens))]
    d = tempfile.mkdtemp(prefix="c14io")
    try:
        h5 = os.path.join(d, "f.h5")
        ra.save(h5, ra.RaggedArray(np.concatenate(rows), lengths=lens) if len(lens) > 1 else rows[0])
        files = []
        for t, row in enumerate(rows):
            # names whose lexicographic order differs from the caller's order (a loader that sorts
            # or globs the list itself would attribute stripes to the wrong files)
            fn_ = os.path.join(d, "x%d_%02d.npy" % ((7 * t + 3) % 10, t))
            np.save(fn_, row)
            files.append(fn_)

        def fn(r):
            o = {}
            exp = local_rows(data, lens, r, P, stride)
            for name, call in (("h5", lambda: mio.load_h5_as_striped(h5, stride=stride)),
                               ("npy", lambda: mio.load_npy_as_striped(files, stride=stride))):
                gl_, loc = call()
                loc = np.asarray(loc)
                o[name] = {"lens": [int(v) for v in gl_], "ids": [int(v) for v in loc.reshape(len(loc), -1)[:, 0]],
                           "equal": bool(loc.shape == exp.shape and np.array_equal(loc, exp))}
            return o

        def once(seed, stats):
            try:
                return {"ranks": mpisim.run_ranks(P, fn, jitter=seed, timeout=CASE_TIMEOUT, stats=stats)}
            except Exception as ex:
                return _err(ex)
        return _run_schedules(c, once)
    except Exception as ex:
        return _err(ex)
    finally:
        shutil.rmtree(d, ignore_errors=True)


_hangs = {}


def run_impl(c):
    kind = c["kind"]
    if _hangs.get(kind, 0) >= 3:     # circuit breaker: do not wait out a tree that hangs on every case
        return {"err": "RanksTimeout", "msg": "not run: three earlier %s cases already hung" % kind}
    out = run_cluster(c) if kind in ("kc", "kcw", "hybrid") else run_ops(c) if kind == "ops" else run_io(c)
    if out.get("err") == "RanksTimeout":
        _hangs[kind] = _hangs.get(kind, 0) + 1
    return out


# ----------------------------------------------------------------------------- model terms
def _pairs(ps):
    return clist(ps, lambda p: "(%s, %s)" % (cn(p[0]), cn(p[1])), "(nat * nat)")


def _nl(xs):
    return clist(xs, cn, "nat")


def _ql(xs):
    return clist(xs, lambda s: cq(F(s)), "Q")


def _split_sweeps(draws, k, n_iters):
    return [draws[i * k:(i + 1) * k] for i in range(n_iters)]


def _model_cluster(c, out):
    P, lens = cn(c["P"]), _nl(c["lens"])
    nclu, cutoff = cc.nclu_term(c), cc.cutoff_term(c)
    if c["kind"] == "kc":
        return "(kcenters_mpi (Dm M) %s %s %s %s %s)" % (P, lens, nclu, cutoff, cb(bool(c.get("ti"))))
    if c["kind"] == "kcw":
        return "(kcenters_warm_mpi (Dm M) %s %s %s %s %s %s)" % (P, lens, _nl(c["init"]), nclu, cutoff, cb(bool(c.get("ti"))))
    k = len(out["ranks"][0]["ctr"])
    sweeps = _split_sweeps(out["draws"], k, c["n_iters"])
    return "(hybrid_mpi (Dm M) %s %s %s %s %s)" % (P, lens, nclu, cutoff,
                                                   clist(sweeps, _nl, "(list nat)"))


def coq_check(c, out):
    if "ranks" not in out:
        return None
    rk = out["ranks"]
    P, lens = cn(c["P"]), _nl(c["lens"])
    if c["kind"] in ("kc", "kcw", "hybrid"):
        r0 = rk[0]
        exp = "(Some (%s, %s, %s))" % (_pairs(r0["ctr"]), clist([r["asg"] for r in rk], _nl, "(list nat)"),
                                       clist([r["dst"] for r in rk], _ql, "(list Q)"))
        parts = ["ds_eqb %s %s" % (_model_cluster(c, out), exp),
                 "CaseLib.list_eqb onat_eqb (map (convert_local %s %s) %s) (map Some %s)" % (P, lens, _pairs(r0["ctr"]), _nl(r0["ci"])),
                 "CaseLib.opt_eqb CaseLib.nl_eqb (assemble 0%%nat %s %s %s) (Some %s)" % (
                     P, lens, clist([r["asg"] for r in rk], _nl, "(list nat)"), _nl(r0["A"])),
                 "CaseLib.opt_eqb CaseLib.ql_eqb (assemble 0%%Q %s %s %s) (Some %s)" % (
                     P, lens, clist([r["dst"] for r in rk], _ql, "(list Q)"), _ql(r0["Dd"])),
                 "CaseLib.opt_eqb Qeq_bool (striped_max %s) (Some %s)" % (
                     clist([r["dst"] for r in rk], _ql, "(list Q)"), cq(F(r0["smax"])))]
        # round 3: the definitions regenerated from the source (Gen/MpiGen.v) next to the hand model
        parts += ["CaseLib.opt_eqb CaseLib.nl_eqb (gen_convert_local_indices %s %s %s) (Some %s)" % (P, lens, _pairs(r0["ctr"]), _nl(r0["ci"])),
                  "CaseLib.opt_eqb CaseLib.nl_eqb (gen_assemble_striped_ragged_array 0%%nat %s %s %s) (Some %s)" % (
                      P, lens, clist([r["asg"] for r in rk], _nl, "(list nat)"), _nl(r0["A"])),
                  "CaseLib.opt_eqb CaseLib.ql_eqb (gen_assemble_striped_ragged_array 0%%Q %s %s %s) (Some %s)" % (
                      P, lens, clist([r["dst"] for r in rk], _ql, "(list Q)"), _ql(r0["Dd"])),
                  "CaseLib.opt_eqb Qeq_bool (gen_striped_array_max %s) (Some %s)" % (
                      clist([r["dst"] for r in rk], _ql, "(list Q)"), cq(F(r0["smax"])))]
        if c["kind"] == "kc":
            parts.append("ds_eqb (gen_kcenters_mpi (Dm M) %s %s %s %s %s) %s" % (
                P, lens, cc.nclu_term(c), cc.cutoff_term(c), cb(bool(c.get("ti"))), exp))
        return "(let M := %s in %s)" % (cc.D_term(out), " && ".join("(%s)" % p for p in parts))
    if c["kind"] == "ops":
        r0 = rk[0]
        n = c["n"]
        vals = [str(v) for v in c["vals"]]
        glob = _ql(vals)
        sc = "(scatter %s %s %s)" % (P, lens, glob)
        total = sum(c["ns"])
        pairs = [(r, i) for r in range(c["P"]) for i in range(len(local_ids(c["lens"], r, c["P"])))]
        tf = [(t, f) for t in range(len(c["lens"])) for f in range(c["lens"][t])]
        parts = [
            "CaseLib.opt_eqb Qeq_bool (striped_max %s) (Some %s)" % (sc, cq(F(r0["smax"]))),
            "CaseLib.q_close (1 # 1000000000000) (striped_mean %s) %s" % (sc, cq(F(r0["smean"]))),
            "CaseLib.list_eqb opair_eqb (map (randind %s) (seq 0 %s)) (map Some %s)" % (_nl(c["ns"]), cn(total), _pairs(r0["randind"])),
            "CaseLib.list_eqb onat_eqb (map (convert_local %s %s) %s) (map Some %s)" % (P, lens, _pairs(pairs), _nl(r0["convert"])),
            "CaseLib.list_eqb opair_eqb (map (ctr_ids_mpi %s %s) (seq 0 %s)) (map Some %s)" % (P, lens, cn(n), _pairs(r0["ids_flat"])),
            "CaseLib.list_eqb opair_eqb (map (ctr_pair_mpi %s %s) %s) (map Some %s)" % (P, lens, _pairs(tf), _pairs(r0["ids_pair"])),
            "CaseLib.opt_eqb CaseLib.nl_eqb (assemble_flat %s (stripes %s %s)) (Some %s)" % (P, P, lens, _nl(r0["lens"])),
            "CaseLib.opt_eqb CaseLib.zl_eqb (assemble 0%%Z %s %s (scatter %s %s %s)) (Some %s)" % (
                P, lens, P, lens, clist(c["vals"], cz, "Z"), clist(r0["asm"], cz, "Z")),
            # round 3: the definitions regenerated from the source (Gen/MpiGen.v) next to the hand model
            "CaseLib.opt_eqb Qeq_bool (gen_striped_array_max %s) (Some %s)" % (sc, cq(F(r0["smax"]))),
            "match gen_striped_array_mean %s %s with Some v => CaseLib.q_close (1 # 1000000000000) v %s | None => false end" % (
                P, sc, cq(F(r0["smean"]))),
            "CaseLib.list_eqb opair_eqb (map (gen_randind %s %s) (seq 0 %s)) (map Some %s)" % (
                P, _nl(c["ns"]), cn(total), _pairs(r0["randind"])),
            "CaseLib.opt_eqb CaseLib.nl_eqb (gen_convert_local_indices %s %s %s) (Some %s)" % (P, lens, _pairs(pairs), _nl(r0["convert"])),
            "CaseLib.list_eqb opair_eqb (map (gen_ctr_ids_mpi_flat %s %s) (seq 0 %s)) (map Some %s)" % (P, lens, cn(n), _pairs(r0["ids_flat"])),
            "CaseLib.list_eqb opair_eqb (map (gen_cim_pair %s %s) %s) (map Some %s)" % (P, lens, _pairs(tf), _pairs(r0["ids_pair"])),
            "CaseLib.opt_eqb CaseLib.nl_eqb (gen_assemble_striped_array %s (stripes %s %s)) (Some %s)" % (P, P, lens, _nl(r0["lens"])),
            "CaseLib.opt_eqb CaseLib.zl_eqb (gen_assemble_striped_ragged_array 0%%Z %s %s (scatter %s %s %s)) (Some %s)" % (
                P, lens, P, lens, clist(c["vals"], cz, "Z"), clist(r0["asm"], cz, "Z")),
        ]
        return " && ".join("(%s)" % p for p in parts)
    # io
    parts = []
    for r, o in enumerate(rk):
        for name in ("h5", "npy"):
            parts.append("CaseLib.nl_eqb (loaded %s %s %s %s) %s" % (P, cn(r), cn(c["stride"]), lens, _nl(o[name]["ids"])))
    parts.append("CaseLib.nl_eqb (map (strided_len %s) %s) %s" % (cn(c["stride"]), lens, _nl(rk[0]["h5"]["lens"])))
    return " && ".join("(%s)" % p for p in parts)


def coq_show(c, out=None):
    if out is None:
        out = run_impl(c)
    P, lens = cn(c["P"]), _nl(c["lens"])
    if c["kind"] in ("kc", "kcw", "hybrid") and "ranks" in out:
        return "(let M := %s in ds_show %s)" % (cc.D_term(out), _model_cluster(c, out))
    if c["kind"] == "ops":
        return "(map (randind %s) (seq 0 %s), map (ctr_ids_mpi %s %s) (seq 0 %s), striped_mean (scatter %s %s %s))" % (
            _nl(c["ns"]), cn(sum(c["ns"])), P, lens, cn(c["n"]), P, lens, _ql([str(v) for v in c["vals"]]))
    if c["kind"] == "io":
        return "(map (fun r => loaded %s r %s %s) (seq 0 %s))" % (P, cn(c["stride"]), lens, P)
    return "tt"


# ----------------------------------------------------------------------------- oracle
def serial_tie_free(c, out):
    """exact replay of the serial k-centers run on the implementation's distance matrix: is the farthest
    frame unique at every iteration that is executed?"""
    D = [[F(v) for v in row] for row in out["D"]]
    n = len(D)
    nclu = c["nclu"] if c["nclu"] is not None else float("inf")
    cutoff = F(c["cutoff"]) if c["cutoff"] is not None else F(0)
    init = c["init"] if c["kind"] == "kcw" else [0]
    dist = [min(D[ci][f] for ci in init) for f in range(n)]
    k = len(init)
    while k < nclu and max(dist) > cutoff:
        m = max(dist)
        if sum(1 for v in dist if v == m) > 1:
            return False
        cidx = dist.index(m)
        dist = [min(dist[f], D[cidx][f]) for f in range(n)]
        k += 1
    return True


def oracle(c, out):
    if "err" in out:
        return [("impl-error", "%s: %s" % (out["err"], out.get("msg")))]
    rk = out["ranks"]
    fails = []
    if out.get("rerun_diff"):
        fails.append(("arrival-order", "the ranks' results depend on the order of arrival at the collectives: " + out["rerun_diff"]))
    P, lens = c["P"], c["lens"]
    if c["kind"] in ("kc", "kcw", "hybrid"):
        r0 = rk[0]
        for r, o in enumerate(rk):
            if (o["ci"], o["A"], o["Dd"], o["ctr"], o["smax"]) != (r0["ci"], r0["A"], r0["Dd"], r0["ctr"], r0["smax"]):
                fails.append(("ranks-disagree", "rank %d reassembled a different result than rank 0" % r))
                break
            if not o["cen_ok"]:
                fails.append(("center-not-frame", "rank %d: a reported centre is not the frame at its global index" % r))
                break
            ids = local_ids(lens, r, P)
            if o["asg"] != [r0["A"][g] for g in ids] or o["dst"] != [r0["Dd"][g] for g in ids]:
                fails.append(("assemble", "rank %d: its local labels/distances are not at their global positions" % r))
                break
        glob = {"res": {"ctrs": r0["ci"], "asg": r0["A"], "dst": r0["Dd"], "centers_are_frames": True}, "D": out["D"]}
        for key, msg in cc.inv_failures(glob):
            fails.append(("mpi-" + key, msg))
        if F(r0["smax"]) != max(F(v) for v in r0["Dd"]):
            fails.append(("striped-max", "striped_array_max %s != max of all distances" % r0["smax"]))
        if c["kind"] == "kcw" and r0["ci"][:len(c["init"])] != c["init"]:
            fails.append(("warm-centres", "the supplied initial centres %s are not the first reported centres %s" % (c["init"], r0["ci"])))
        if c["kind"] in ("kc", "kcw"):
            ser = out["serial"]
            if "err" in ser:
                fails.append(("serial-error", str(ser)))
            elif serial_tie_free(c, out):
                if (ser["ctrs"], ser["asg"], ser["dst"]) != (r0["ci"], r0["A"], r0["Dd"]):
                    fails.append(("mpi-vs-serial", "tie-free data: distributed (%s, %s) != serial (%s, %s)" % (
                        r0["ci"], r0["A"], ser["ctrs"], ser["asg"])))
            elif len(ser["ctrs"]) != len(r0["ci"]) and c["cutoff"] is None:
                fails.append(("mpi-vs-serial-k", "different number of centres under a count-only stop"))
        return fails
    if c["kind"] == "ops":
        r0 = rk[0]
        for r, o in enumerate(rk):
            if o != r0:
                fails.append(("ranks-disagree", "rank %d returned different values than rank 0" % r))
                break
        vals = c["vals"]
        if F(r0["smax"]) != max(vals):
            fails.append(("striped-max", "%s != %s" % (r0["smax"], max(vals))))
        if float(F(r0["smean"])) != sum(vals) / len(vals):
            fails.append(("striped-mean", "%s != %s" % (r0["smean"], F(sum(vals), len(vals)))))
        valid = sorted([r, i] for r in range(P) for i in range(c["ns"][r]))
        if sorted(r0["randind"]) != valid:
            fails.append(("randind-bijection", "draws 0..%d map to %s, valid pairs are %s" % (sum(c["ns"]) - 1, r0["randind"], valid)))
        exp_conv = [g for r in range(P) for g in local_ids(lens, r, P)]
        if r0["convert"] != exp_conv:
            fails.append(("convert-local", "%s != %s" % (r0["convert"], exp_conv)))
        pairs = [[r, i] for r in range(P) for i in range(len(local_ids(lens, r, P)))]
        inv = {g: p for g, p in zip(exp_conv, pairs)}
        if r0["ids_flat"] != [inv[g] for g in range(c["n"])]:
            fails.append(("ctr-ids-flat", "%s is not the inverse of convert_local_indices" % (r0["ids_flat"],)))
        if r0["ids_pair"] != r0["ids_flat"]:
            fails.append(("ctr-ids-pair", "(trajectory, frame) form differs from the flat form"))
        if r0["lens"] != lens:
            fails.append(("assemble-array", "%s != %s" % (r0["lens"], lens)))
        if r0["asm"] != vals or not r0["asm_dtype_ok"]:
            fails.append(("assemble-ragged", "%s != %s" % (r0["asm"], vals)))
        return fails
    # io
    exp_lens = [len(range(0, L, c["stride"])) for L in lens]
    seen = []
    for r, o in enumerate(rk):
        for name in ("h5", "npy"):
            if not o[name]["equal"]:
                fails.append(("loader-data-" + name, "rank %d loaded %s" % (r, o[name]["ids"])))
            if o[name]["lens"] != exp_lens:
                fails.append(("loader-lengths-" + name, "rank %d: %s != %s" % (r, o[name]["lens"], exp_lens)))
        seen += o["npy"]["ids"]
    st = _starts(lens)
    allrows = [g for t in range(len(lens)) for g in range(st[t], st[t + 1])[::c["stride"]]]
    if sorted(seen) != allrows:
        fails.append(("keys-partition", "ranks together loaded %s" % sorted(seen)))
    return fails[:4]


def nontrivial(c, out):
    if "ranks" not in out or c["P"] < 2 or len(c["lens"]) < 2:
        return False
    if c["kind"] in ("kc", "kcw", "hybrid"):
        return len(out["ranks"][0]["ctr"]) >= 2
    return True


def tags(c, out):
    t = [c["kind"], "P=%d" % c["P"]]
    if c["kind"] == "ops" and max(c["vals"]) < 0:
        t.append("ops-all-negative")
    lens, P = c["lens"], c["P"]
    if any(len(owned(lens, r, P)) == 1 for r in range(P)):
        t.append("rank-owns-one-trajectory")
    if P >= 2 and len(lens) == P:
        t.append("every-rank-owns-one-trajectory")
        if P >= 5:
            t.append("P>=5-every-rank-owns-one-trajectory")
    sch = out.get("sched") or {}
    if sch.get("seeds", 0) >= 3:
        t.append("three-schedules")
    if sch.get("arrival_orders", 0) >= 2:
        t.append("arrival-orders-varied")
    if len(sch.get("last_arrivers", [])) >= 2:
        t.append("last-arriver-varied")
    if len(set(lens)) > 1 and any(len(owned(lens, r, P)) > 1 and len({lens[i] for i in owned(lens, r, P)}) == 1 for r in range(P)):
        t.append("equal-local-lengths-unequal-global")
        if P >= 4:
            t.append("P>=4-equal-local-lengths-unequal-global")
    if "err" in out:
        t.append("impl-error")
        return t
    if c["kind"] in ("kc", "kcw", "hybrid"):
        t.append(c["metric"])
        if c.get("ti"):
            t.append("ti")
        tf = serial_tie_free(c, out)
        t.append("tie-free" if tf else "ties")
        owners = {p[0] for p in out["ranks"][0]["ctr"]}
        if len(owners) >= 2:
            t.append("centres-on-several-ranks")
        if c["kind"] == "hybrid" and out["ranks"][0]["ctr"] is not None:
            t.append("pam-draws" if out.get("draws") else "pam-no-draws")
    if c["kind"] == "io":
        t.append("stride=%d" % c["stride"])
        names = ["x%d_%02d" % ((7 * k + 3) % 10, k) for k in range(len(c["lens"]))]
        if names != sorted(names):
            t.append("io-file-names-not-sorted")
    return t


ESSENTIAL_TAGS = ["ops-all-negative", "kc", "kcw", "hybrid", "ops", "io", "P=1", "P=2", "P=3", "P=4", "P=5", "P=6", "rank-owns-one-trajectory",
                  "every-rank-owns-one-trajectory", "P>=5-every-rank-owns-one-trajectory",
                  "equal-local-lengths-unequal-global", "P>=4-equal-local-lengths-unequal-global",
                  "three-schedules", "arrival-orders-varied", "last-arriver-varied",
                  "tie-free", "ties", "ti", "centres-on-several-ranks", "pam-draws", "io-file-names-not-sorted"]


def search(rng, tier):
    found = []
    for c in generate(rng, "quick"):
        out = run_impl(c)
        for key, msg in oracle(c, out):
            found.append((key, msg, c, out))
            return found
    return found
