"""C13: distance kernels (libdist.euclidean / manhattan / hamming) are exact for every dtype,
memory layout and thread count; malformed input is rejected.

The kernels are run in subprocesses, one per OMP_NUM_THREADS value, each handling the whole batch
of cases generated for that thread count (this file is also the worker: `python c13.py --worker`).
"""
import json, math, os, subprocess, sys
from fractions import Fraction as F

if __name__ != "__main__":
    from core import cz, cn, cq, clist, copt, VERIF
    sys.path.insert(0, os.path.join(VERIF, "translator"))
    import tr_dist, tr_distkern

PID = "C13"
PROPS_FILE = "Props/C13.v"
MODEL_TARGETS = ["Model/Dist.vo", "Gen/DistValidGen.vo"]
GEN_FILES = ["Gen/DistValidGen.v", "Gen/DistKernGen.v"]
CASE_HEADER = ("From Coq Require Import List ZArith QArith.\n"
               "From EV Require Import PFor DistBase DistValidGen Dist.\nImport ListNotations.\n")
RULE = ("random n x m matrices (n 0..40, m 0..6) and targets over int8/16/32/64, float32/64 (uint8..64 and ints for "
        "hamming) with small values (ties, equal coordinates), per-dtype extremes (min/max, 2^24+1, 4097 for float32, "
        "2^53 neighbourhood) and dyadic fractions; layouts C, Fortran, transposed, every-other-element views, "
        "negative-stride views, column slices for X, contiguous/strided/reversed y; out absent, contiguous, strided "
        "(guard cells between), reversed; OMP_NUM_THREADS 1,2,3,4,8,16 (quick) / 1..16 (thorough), one subprocess per "
        "thread count; malformed stream: X of rank 1/3, y of rank 2, width mismatch both ways, mixed and unsupported "
        "dtypes, out of wrong dtype/length/rank (0-d, 2-d). Each case is evaluated on the real code and on the Coq "
        "model (translated validation + strided views + prange phases + exact-double arithmetic). "
        "Round-2 streams, each run under every thread count of the tier and compared BYTE-EXACTLY with the 1-thread run "
        "of the same data: (round) one or three rows of 1500-2048 features, one coordinate of magnitude 2^53 (2^27 for "
        "euclidean) followed by ones, float64/float32/int64 -- any change of the summation order changes the double; "
        "(ham-wide) int8/uint8/int16 rows differing from y in 0, 1, 127..129, 255..257, m coordinates, m up to 300; "
        "(remainder) n = 2T+1, 3T-1, 2T+T/2+1 rows for T threads, all distances non-zero; (outview) out= a column of a "
        "C-ordered (n,3) table, buf[::2], buf[::-1], garbage-filled, whose cells must hold the result afterwards and "
        "whose neighbours must be untouched. "
        "Round-3s streams: (byteorder) element types of non-native byte order (>i2 >i4 >i8 >u2 >u4 >u8 >f4 >f8 on this little-endian "
        "machine), every metric x every multi-byte supported type, both arguments swapped with the target a separate array or a "
        "row view y = X[k] of the matrix (what the clusterers pass), or only X / only y swapped; every X / y layout, with and "
        "without out: the unchanged code rejects them all (the model: unsupported buffer type); a call that is accepted "
        "is judged like a valid call (values exact, inputs and the cells around the views byte-identical afterwards); "
        "(alias) native types with the target a row view y = X[k] (strided in the Fortran / strided / negative-stride layouts), "
        "every metric, also with out given; (wide) 48, 49, 64, 100, 128, 200 features (and 1, 7, 31, 47 as control), every metric, "
        "float32 / float64 data with full mantissas (24 / 53-bit numerators, columns spread over 8 binades, |x| < 4) and 32/64-bit integers: the target is a row of X "
        "(a view, or a copy) whose distance must be exactly 0, another row is the target with 1..3 coordinates moved by 1..2 units in the "
        "last place, and a third of the cases are offset clouds (every row = target + perturbations of <= 3 units in the last place); "
        "exactness is judged ROW BY ROW (a row equal or close to the target is in the exact domain although the other rows are not). "
        "non-trivial := valid call with n >= 2, m >= 1 and a non-zero result")
TRUSTED = ["translator/tr_dist.py (validation functions of libdist.pyx -> Gen/DistValidGen.v)",
           "translator/tr_distkern.py (loop nests / statements of _euclidean, _manhattan, _hamming, fused types, wrappers; "
           "cluster/util.py:_get_distance_method -> Gen/DistKernGen.v); a statement `out[k] op= e` is one atomic "
           "read-modify-write of the model",
           "modelled not verified: Cython typed-buffer access (strided addressing, fused-type dispatch), OpenMP "
           "(a prange is a set of iterations executed in some interleaving, barrier at the end of each prange), "
           "IEEE-754 double arithmetic (an operation whose exact result is an integer of magnitude <= 2^53, times a "
           "power of two, returns it; sqrt and division are correctly rounded)",
           "harness applies sqrt (euclidean) and /n_features (hamming) checks as rational inequalities in Coq (Dist.sqrt_ok, Dist.qtol)"]
ASSUMPTIONS = ["exactness is claimed where every intermediate value is representable in a double (|v| <= 2^53 scaled); "
               "outside that range agreement to 1e-12 relative is checked",
               "data races and out-of-bounds accesses in the compiled code cannot be exhibited by the model; the "
               "thread/layout sweep is runtime evidence only",
               "hamming with zero features (0/0) is outside the property"]
SHARD = 120
EXHAUSTIVE = {"thorough": False}

NPDT = {"int8": "I8", "int16": "I16", "int32": "I32", "int64": "I64", "uint8": "U8", "uint16": "U16",
        "uint32": "U32", "uint64": "U64", "float32": "F32", "float64": "F64", "float16": "OtherT"}
INT_RANGE = {"int8": (-2**7, 2**7 - 1), "int16": (-2**15, 2**15 - 1), "int32": (-2**31, 2**31 - 1),
             "int64": (-2**63, 2**63 - 1), "uint8": (0, 2**8 - 1), "uint16": (0, 2**16 - 1),
             "uint32": (0, 2**32 - 1), "uint64": (0, 2**64 - 1)}
SUPPORT = {"euclidean": ["int8", "int16", "int32", "int64", "float32", "float64"],
           "manhattan": ["int8", "int16", "int32", "int64", "float32", "float64"],
           "hamming": ["uint8", "uint16", "uint32", "uint64", "int8", "int16", "int32", "int64"]}
COQ_METRIC = {"euclidean": "Euclid", "manhattan": "Manhattan", "hamming": "Hamming"}
XLAYOUTS = ["C", "F", "T", "strided", "neg", "negrows", "colslice"]
YLAYOUTS = ["C", "strided", "neg"]
OUTKINDS = [None, None, "ok", "ok", "strided", "neg", "col"]
BADOUT = ["f32", "int", "len+", "len-", "2d", "0d"]
BADIN = ["x1d", "x3d", "y2d", "wide-y", "narrow-y", "mixed", "unsupported"]


def translate(repo):
    files = dict(tr_dist.translate(repo))
    files.update(tr_distkern.translate(repo))
    return files


# ----------------------------------------------------------------------------- building arrays
def build(c):
    """-> dict with numpy arrays X, y, out (or None), guards, and the model's view descriptions.
    Values in the case are integers; the real value is v / 2**k (k = 0 for integer dtypes)."""
    import numpy as np
    dt = np.dtype(c["dtype"])
    swap = c.get("swap")
    ydt0 = dt
    if swap in ("both", "x"):
        dt = dt.newbyteorder("S")          # non-native byte order ('>' on a little-endian machine)
    if swap in ("both", "y"):
        ydt0 = ydt0.newbyteorder("S")
    k = c.get("k", 0)

    def conv(v, d=dt):
        if d.kind in "iu":
            return int(v)
        return float(F(int(v), 2 ** k))

    def filled(shape, d, seed):
        # owning C-contiguous base with recognisable garbage (small distinct-ish values)
        tot = 1
        for s in shape:
            tot *= s
        g = [((seed + 3 * i) % 5) + 1 for i in range(tot)]
        if d.kind in "iu":
            return np.array(g, dtype=d).reshape(shape)
        return np.array([float(x) for x in g], dtype=d).reshape(shape)

    n, m = c["n"], c["m"]
    vals = c["vals"]
    lay = c["xlayout"]
    bad = c.get("bad")
    if lay == "C":
        base = filled((n, m), dt, 1); X = base
    elif lay in ("F", "T"):
        base = filled((m, n), dt, 2); X = base.T
    elif lay == "strided":
        base = filled((2 * n + 1, 2 * m + 1), dt, 3); X = base[1:2 * n + 1:2, 1:2 * m + 1:2]
    elif lay == "neg":
        base = filled((n, m), dt, 4); X = base[::-1, ::-1]
    elif lay == "negrows":
        base = filled((n + 1, m), dt, 5); X = base[::-1][:n]
    elif lay == "colslice":
        base = filled((n, m + 2), dt, 6); X = base[:, 1:m + 1]
    else:
        raise ValueError(lay)
    assert X.shape == (n, m), (X.shape, n, m)
    for i in range(n):
        for j in range(m):
            X[i, j] = conv(vals[i][j])
    xbase = base
    if bad == "x1d":
        xbase = filled((max(m, 1),), dt, 7); X = xbase
    elif bad == "x3d":
        xbase = filled((n, m, 1), dt, 8); X = xbase
    # ---- y
    ydt = ydt0
    if bad == "mixed":
        ydt = np.dtype(c["ydtype"])
    yv = list(c["y"])
    my = len(yv)
    yl = c["ylayout"]
    if yl == "C":
        ybase = filled((my,), ydt, 9); y = ybase
    elif yl == "strided":
        ybase = filled((2 * my + 1,), ydt, 10); y = ybase[1:2 * my + 1:2]
    else:
        ybase = filled((my,), ydt, 11); y = ybase[::-1]
    for j in range(my):
        y[j] = conv(yv[j], ydt)
    if c.get("yrow") is not None:
        # the target is a row of the matrix itself (a view: same memory, the row's strides)
        y = X[c["yrow"]]
        ybase = xbase
        assert [conv(v) for v in yv] == [conv(v) for v in vals[c["yrow"]]]
    if bad == "y2d":
        y = y.reshape(1, my) if yl == "C" else ybase[:my].reshape(1, my)
        ybase = ybase
    # ---- out
    ok = c.get("out")
    init = c.get("init", 7)
    obase = out = None
    if ok is not None:
        f8 = np.dtype("float64")
        if ok == "ok":
            obase = np.full((n,), float(init), dtype=f8); out = obase
        elif ok == "strided":
            obase = np.full((2 * n,), float(init), dtype=f8); out = obase[::2]
        elif ok == "neg":
            obase = np.full((n,), float(init), dtype=f8); out = obase[::-1]
        elif ok == "col":      # a column of a C-ordered distance table
            obase = np.full((n, 3), float(init), dtype=f8); out = obase[:, 1]
        elif ok == "f32":
            obase = np.full((n,), float(init), dtype=np.float32); out = obase
        elif ok == "int":
            obase = np.full((n,), int(init), dtype=np.int64); out = obase
        elif ok == "len+":
            obase = np.full((n + 1,), float(init), dtype=f8); out = obase
        elif ok == "len-":
            obase = np.full((max(n - 1, 0),), float(init), dtype=f8); out = obase
        elif ok == "2d":
            obase = np.full((n, 1), float(init), dtype=f8); out = obase
        elif ok == "0d":
            obase = np.full((), float(init), dtype=f8); out = obase
        else:
            raise ValueError(ok)
    return {"X": X, "y": y, "out": out, "xbase": xbase, "ybase": ybase, "obase": obase}


def _view(a, base, k, scale_vals=True):
    """(buffer as scaled ints, shape, element offset, element strides) of array a inside base."""
    import numpy as np
    isz = base.dtype.itemsize
    offb = a.__array_interface__["data"][0] - base.__array_interface__["data"][0]
    assert offb % isz == 0 and all(s % isz == 0 for s in a.strides)
    flat = base.ravel()
    if base.dtype.kind in "iu":
        bufv = [int(v) for v in flat]
    else:
        bufv = []
        for v in flat:
            fr = F(float(v)) * (2 ** k)
            assert fr.denominator == 1, (v, k)
            bufv.append(int(fr))
    return bufv, [int(s) for s in a.shape], offb // isz, [int(s) // isz for s in a.strides]


# ----------------------------------------------------------------------------- worker (subprocess)
def _run_one(c):
    import numpy as np
    from enspara.geometry import libdist
    from enspara.cluster.util import _get_distance_method
    b = build(c)
    X, y, out = b["X"], b["y"], b["out"]
    name = c["metric"]
    if name == "hamming":
        fn = libdist.hamming
    else:
        fn = _get_distance_method(name if not c.get("alias") else c["alias"])
        if fn is not getattr(libdist, name):
            return {"err": "MetricMap", "msg": "name %s maps to %r" % (name, fn)}
    xb0, yb0 = b["xbase"].copy(), b["ybase"].copy()
    ob0 = None if b["obase"] is None else b["obase"].copy()
    try:
        r = fn(X, y) if out is None else fn(X, y, out=out)
    except Exception as ex:
        res = {"err": type(ex).__name__}
        if ob0 is not None and ob0.shape == b["obase"].shape and not np.array_equal(ob0, b["obase"], equal_nan=True):
            res["out_touched"] = True
        return res
    res = {"ndim": int(r.ndim), "dtype": str(r.dtype), "len": int(r.shape[0]) if r.ndim else -1}
    flat = [float(v) for v in np.asarray(r, dtype=np.float64).ravel()]
    if all(math.isfinite(v) for v in flat):
        res["val"] = [str(F(v)) for v in flat]
    else:
        res["val"] = None
        res["nonfinite"] = [repr(v) for v in flat]
    res["inputs_unchanged"] = bool(np.array_equal(xb0, b["xbase"]) and np.array_equal(yb0, b["ybase"]))
    if out is not None:
        res["ret_is_out"] = r is out
        res["out_holds"] = bool(np.array_equal(np.asarray(out), np.asarray(r), equal_nan=True))
        if c["out"] == "strided":
            res["guard_ok"] = bool(np.array_equal(b["obase"][1::2], ob0[1::2]))
        if c["out"] == "col":
            res["guard_ok"] = bool(np.array_equal(b["obase"][:, 0], ob0[:, 0]) and
                                   np.array_equal(b["obase"][:, 2], ob0[:, 2]))
        # what the CALLER finds in the cells of its buffer (read through the parent array)
        own = {"ok": lambda a: a, "strided": lambda a: a[::2], "neg": lambda a: a[::-1],
               "col": lambda a: a[:, 1]}.get(c["out"])
        if own is not None:
            cells = [float(v) for v in own(b["obase"])]
            res["out_val"] = [str(F(v)) if math.isfinite(v) else repr(v) for v in cells]
    return res


def _worker():
    sys.path.insert(0, os.path.dirname(os.path.dirname(os.path.abspath(__file__))))
    import bootstrap
    bootstrap.install()
    cases = json.load(sys.stdin)
    out = []
    for c in cases:
        try:
            out.append(_run_one(c))
        except Exception as ex:   # harness bug: reported, never hidden
            import traceback
            out.append({"err": "Unexpected:" + type(ex).__name__, "msg": str(ex)[:300],
                        "tb": traceback.format_exc()[-1200:]})
    sys.stdout.write("\n@@RESULTS@@" + json.dumps(out))


_PENDING = []
_CACHE = {}


def _key(c):
    return json.dumps(c, sort_keys=True)


def _run_batches(cases):
    by_t = {}
    for c in cases:
        by_t.setdefault(int(c["threads"]), []).append(c)
    procs = []
    for t, cs in sorted(by_t.items()):
        env = dict(os.environ)
        env["OMP_NUM_THREADS"] = str(t)
        env["OMP_DYNAMIC"] = "false"
        env["OMP_WAIT_POLICY"] = "passive"
        p = subprocess.Popen(["/venv/bin/python", os.path.abspath(__file__), "--worker"], stdin=subprocess.PIPE,
                             stdout=subprocess.PIPE, stderr=subprocess.PIPE, text=True, env=env)
        procs.append((t, cs, p))
        if len(procs) >= 4:
            _collect(procs)
            procs = []
    _collect(procs)


def _collect(procs):
    for t, cs, p in procs:
        try:
            so, se = p.communicate(json.dumps(cs), timeout=1500)
        except subprocess.TimeoutExpired:
            p.kill()
            so, se = "", "timeout"
        if "@@RESULTS@@" in so:
            rs = json.loads(so.split("@@RESULTS@@", 1)[1])
        else:
            # the worker died (e.g. a segfault in a kernel): rerun one by one to find the culprit
            rs = None
        if rs is None or len(rs) != len(cs):
            rs = []
            for c in cs:
                env = dict(os.environ)
                env["OMP_NUM_THREADS"] = str(t)
                q = subprocess.run(["/venv/bin/python", os.path.abspath(__file__), "--worker"], input=json.dumps([c]),
                                   stdout=subprocess.PIPE, stderr=subprocess.PIPE, text=True, env=env, timeout=600)
                if "@@RESULTS@@" in q.stdout:
                    rs.append(json.loads(q.stdout.split("@@RESULTS@@", 1)[1])[0])
                else:
                    rs.append({"err": "Crash", "rc": q.returncode, "msg": q.stderr[-300:]})
        for c, r in zip(cs, rs):
            _CACHE[_key(c)] = r


def run_impl(c):
    k = _key(c)
    if k not in _CACHE:
        todo = [x for x in _PENDING if _key(x) not in _CACHE]
        del _PENDING[:]
        if all(_key(x) != k for x in todo):
            todo.append(c)
        _run_batches(todo)
    r = _CACHE[k]
    ref = c.get("ref_threads")
    if ref is not None and ref != c["threads"]:
        rs = run_impl(dict(c, threads=ref))
        r = dict(r, ref_val=rs.get("val"), ref_err=rs.get("err"))
    return r


# ----------------------------------------------------------------------------- generation
def _values(rng, dtype, count, style):
    if dtype in INT_RANGE:
        lo, hi = INT_RANGE[dtype]
        small = [v for v in (-2, -1, 0, 1, 2, 3) if lo <= v <= hi]
        if style == "small":
            return [rng.choice(small) for _ in range(count)], 0
        if style == "extreme":
            pool = [lo, hi, lo + 1, hi - 1, 0, 1] + small[:2]
            return [rng.choice(pool) for _ in range(count)], 0
        if style == "medium":
            # differences whose squares no longer fit the element type but are exact in a double
            b = min(hi, 2 ** 20)
            return [rng.randint(max(lo, -b), b) for _ in range(count)], 0
        # "edge53": around the limit of exact doubles (int64 / uint64 only; otherwise medium)
        b = min(hi, 2 ** 53 + 2)
        pool = [b, b - 1, b - 2, max(lo, -b), 2 ** 31 if hi > 2 ** 31 else hi, 46341 if hi > 46341 else hi, 0]
        return [rng.choice(pool) for _ in range(count)], 0
    # floats: numerators over 2**k
    k = rng.choice([0, 0, 1, 2, 3])
    mant = 24 if dtype == "float32" else 53
    if style == "small":
        return [rng.randint(-6, 6) for _ in range(count)], k
    if style == "extreme":
        top = 2 ** mant
        pool = [top, -top, top - 1, 1 - top, 0, 1, -1, 4097 * 2 ** k, 2 ** (mant - 1) + 1]
        return [rng.choice(pool) for _ in range(count)], k
    if style == "medium":
        return [rng.randint(-5000, 5000) for _ in range(count)], k
    big = 2 ** (mant - 1)
    return [rng.choice([big, -big, big - 1, 3, 0, 4097]) * (2 ** rng.choice([0, 10, 30]) if dtype == "float64" else 1)
            for _ in range(count)], 0


def _case(rng, threads_pool):
    metric = rng.choice(["euclidean", "euclidean", "manhattan", "manhattan", "hamming"])
    dtype = rng.choice(SUPPORT[metric])
    n = rng.choice([0, 1, 2, 3, 4, 5, 7, 9, 16, 17, 33, 40])
    m = rng.choice([0, 1, 1, 2, 3, 4, 6])
    style = rng.choice(["small", "small", "small", "extreme", "medium", "edge53"])
    if metric == "hamming":
        style = rng.choice(["small", "small", "extreme"])
    vals, k = _values(rng, dtype, n * m + m, style)
    X = [vals[i * m:(i + 1) * m] for i in range(n)]
    y = vals[n * m:]
    if style == "small" and n and m and rng.random() < 0.3:
        X[rng.randrange(n)] = list(y)          # a row equal to the target: distance 0
    c = {"metric": metric, "dtype": dtype, "n": n, "m": m, "k": k, "vals": X, "y": y,
         "xlayout": rng.choice(XLAYOUTS), "ylayout": rng.choice(YLAYOUTS), "out": rng.choice(OUTKINDS),
         "init": rng.choice([7, -3, 0]), "threads": rng.choice(threads_pool), "style": style, "bad": None}
    if metric == "manhattan" and rng.random() < 0.3:
        c["alias"] = "cityblock"
    return c


def _bad_case(rng, threads_pool):
    c = _case(rng, threads_pool)
    c["n"] = max(c["n"], 1) if c["n"] > 5 else max(c["n"], 2)
    n = c["n"] = min(c["n"], 9)
    m = c["m"] = max(c["m"], 2)
    vals, k = _values(rng, c["dtype"], n * m + m, "small")
    c["k"] = k
    c["style"] = "small"
    c["vals"] = [vals[i * m:(i + 1) * m] for i in range(n)]
    c["y"] = vals[n * m:]
    if rng.random() < 0.45:
        c["out"] = rng.choice(BADOUT)
        c["bad"] = "out:" + c["out"]
        return c
    bad = rng.choice(BADIN)
    c["bad"] = bad
    if bad in ("x1d", "x3d"):
        c["xlayout"] = "C"
    if bad == "y2d":
        c["ylayout"] = "C"
    if bad == "wide-y":
        c["y"] = c["y"] + [1]
    if bad == "narrow-y":
        c["y"] = c["y"][:-1]
    if bad == "mixed":
        others = [d for d in SUPPORT[c["metric"]] if d != c["dtype"]]
        c["ydtype"] = rng.choice(others)
        if c["ydtype"] in INT_RANGE:
            lo, hi = INT_RANGE[c["ydtype"]]
            c["y"] = [min(max(v, lo), hi) for v in c["y"]]
            if c["dtype"] not in INT_RANGE:
                c["k"] = 0
                c["y"] = [abs(v) % 3 for v in c["y"]]
    if bad == "unsupported":
        c["dtype"] = rng.choice(["uint8", "uint32", "float16"] if c["metric"] != "hamming"
                                else ["float32", "float64", "float16"])
        c["k"] = 0
        c["vals"] = [[abs(v) % 3 for v in row] for row in c["vals"]]
        c["y"] = [abs(v) % 3 for v in c["y"]]
    return c


def _base(metric, dtype, X, y, threads, style, **kw):
    c = {"metric": metric, "dtype": dtype, "n": len(X), "m": len(y), "k": 0, "vals": X, "y": y, "xlayout": "C",
         "ylayout": "C", "out": None, "init": 7, "threads": threads, "style": style, "bad": None, "ref_threads": 1}
    c.update(kw)
    return c


def _round2(rng, pool, tier):
    """deterministic-shape streams of round 2; every data set is run under every thread count of the pool
    (including 1, the reference of the byte-exact comparison)"""
    cases = []
    pool = sorted(set(pool) | {1})
    # ---- (round) rounding-sensitive rows: a huge coordinate first, then ones
    for metric, dtype, n in (("manhattan", "float64", 1), ("euclidean", "float64", 1), ("manhattan", "int64", 1),
                             ("euclidean", "float32", 3), ("manhattan", "float32", 1), ("euclidean", "int64", 1)):
        m = rng.choice([1500, 2048, 1777])
        big = 2 ** 53 if metric == "manhattan" else 2 ** 27
        rows = []
        for i in range(n):
            row = [big] + [1] * (m - 1)
            if i == 1:
                row = [1] * (m - 1) + [big]          # the same multiset, huge coordinate last
            if i == 2:
                row = [1] * (m // 2) + [-big] + [1] * (m - m // 2 - 1)
            rows.append(row)
        lay = rng.choice(["C", "F", "strided"])
        for t in pool:
            cases.append(_base(metric, dtype, rows, [0] * m, t, "round", xlayout=lay))
    # ---- (ham-wide) narrow element types, more differing coordinates than the type can count
    for dtype, m in (("int8", 128), ("int8", 129), ("int8", 200), ("int8", 300), ("uint8", 256), ("uint8", 257),
                     ("uint8", 300), ("uint8", 255), ("int16", 300)):
        lo, hi = INT_RANGE[dtype]
        y = [rng.randint(max(lo, -3), 3) for _ in range(m)]
        rows = []
        for ndiff in (m, 0, 1, 127, 128, 129, 255, 256, 257, m - 1):
            if 0 <= ndiff <= m:
                idx = set(rng.sample(range(m), ndiff))
                rows.append([y[j] + 1 if j in idx else y[j] for j in range(m)])
        lay = rng.choice(["C", "F", "neg"])
        ok = rng.choice([None, "ok", "col"])
        for t in (pool if tier != "quick" else [1] + rng.sample(pool[1:], 2)):
            cases.append(_base("hamming", dtype, rows, y, t, "ham-wide", xlayout=lay, out=ok))
    # ---- (remainder) row counts that no thread count divides, at least two rows per thread
    for t in pool:
        if t < 2:
            continue
        for n in sorted({2 * t + 1, 3 * t - 1, 2 * t + t // 2 + 1}):
            if n % t == 0:
                continue
            for metric in ("euclidean", "manhattan", "hamming"):
                dtype = rng.choice(SUPPORT[metric])
                m = rng.choice([1, 3, 6])
                y = [rng.randint(0, 3) for _ in range(m)]
                rows = [[y[j] + 1 + (i + j) % 3 for j in range(m)] for i in range(n)]      # every distance > 0
                lay, ok = rng.choice(["C", "F"]), rng.choice([None, "ok", "strided"])
                for tt in (1, t):
                    cases.append(_base(metric, dtype, rows, y, tt, "remainder", xlayout=lay, out=ok, rem_of=t))
    # ---- (outview) non-contiguous caller buffers
    for metric in ("euclidean", "manhattan", "hamming"):
        for ok in ("col", "strided", "neg"):
            for n, m in ((2, 1), (5, 3), (33, 2)):
                dtype = rng.choice(SUPPORT[metric])
                y = [rng.randint(0, 3) for _ in range(m)]
                rows = [[y[j] + (i + 2 * j) % 4 for j in range(m)] for i in range(n)]
                init, lay = rng.choice([-777, 7]), rng.choice(["C", "F", "colslice"])
                for t in (1, rng.choice(pool[1:])):
                    cases.append(_base(metric, dtype, rows, y, t, "outview", out=ok, init=init, xlayout=lay))
    return cases


MULTIBYTE = {"euclidean": ["int16", "int32", "int64", "float32", "float64"],
             "manhattan": ["int16", "int32", "int64", "float32", "float64"],
             "hamming": ["uint16", "uint32", "uint64", "int16", "int32", "int64"]}


def _round3(rng, pool, tier):
    """round 3s: element types of non-native byte order (rejected by the unchanged code; whatever is accepted must be
    exact) with separate and aliased targets, and native types with the target a row view of the matrix"""
    cases = []
    reps = 1 if tier == "quick" else 5
    # ---- (byteorder)
    for rep in range(reps):
        for metric in ("euclidean", "manhattan", "hamming"):
            for dtype in MULTIBYTE[metric]:
                for how in ("alias", "separate", "alias", rng.choice(["x", "y"])):
                    n, m = rng.choice([2, 3, 5, 9, 17]), rng.choice([1, 2, 3, 6])
                    if dtype in INT_RANGE:
                        lo = max(INT_RANGE[dtype][0], -300)
                        vals, k = [rng.choice([lo, 1, 2, 255, 256, 257, 3, 0]) for _ in range(n * m + m)], 0
                    else:
                        vals, k = _values(rng, dtype, n * m + m, "small")
                    X = [vals[i * m:(i + 1) * m] for i in range(n)]
                    c = {"metric": metric, "dtype": dtype, "n": n, "m": m, "k": k, "vals": X, "y": vals[n * m:],
                         "xlayout": rng.choice(XLAYOUTS), "ylayout": rng.choice(YLAYOUTS), "out": rng.choice([None, None, "ok", "strided"]),
                         "init": 7, "threads": rng.choice(pool), "style": "byteorder", "bad": "byteorder",
                         "swap": "both" if how in ("alias", "separate") else how}
                    if how == "alias":
                        c["yrow"] = rng.randrange(n)
                        c["y"] = list(X[c["yrow"]])
                        c["ylayout"] = "rowview"
                    cases.append(c)
    # ---- (alias) native element types, target = a row of the matrix
    for rep in range(reps):
        for metric in ("euclidean", "manhattan", "hamming"):
            for lay in XLAYOUTS:
                dtype = rng.choice(SUPPORT[metric])
                n, m = rng.choice([2, 3, 5, 9, 17, 33]), rng.choice([1, 2, 3, 6])
                vals, k = _values(rng, dtype, n * m, "small")
                X = [vals[i * m:(i + 1) * m] for i in range(n)]
                yrow = rng.randrange(n)
                cases.append({"metric": metric, "dtype": dtype, "n": n, "m": m, "k": k, "vals": X, "y": list(X[yrow]),
                              "xlayout": lay, "ylayout": "rowview", "yrow": yrow, "out": rng.choice([None, "ok", "col"]),
                              "init": 7, "threads": rng.choice(pool), "style": "alias", "bad": None})
    return cases


WIDE_M = [48, 49, 64, 100, 128, 200]
NARROW_M = [1, 7, 31, 47]


def _round3_wide(rng, pool, tier):
    """round 3s: wide feature vectors (48..200 features, and 1..47 as control), every metric; floating-point data with
    full mantissas (24 / 53-bit numerators, columns spread over 8 binades, |x| < 4) or integer data; the target is a row of X (view or copy: that
    row's distance must be exactly 0), some rows are near-duplicates of the target (1..3 coordinates differ by a few
    units in the last place: these rows are in the exact domain, so is every row of an `offset` cloud, whose rows all
    are the target plus perturbations of a few units in the last place)"""
    cases = []
    reps = 1 if tier == "quick" else 4
    deal = ncase = 0
    for rep in range(reps):
        for metric in ("euclidean", "manhattan", "hamming"):
            for m in WIDE_M + NARROW_M:
                fl = [d for d in SUPPORT[metric] if d.startswith("float")]
                ints = [d for d in SUPPORT[metric] if d in ("int32", "int64", "uint32", "uint64")]
                deal += 1
                for dtype in ([fl[deal % 2], rng.choice(fl + ints)] if fl else [rng.choice(ints)]):
                    n = rng.choice([3, 4, 6, 9])
                    if dtype in INT_RANGE:
                        k, lo, hi, sh = 0, (0 if dtype.startswith("u") else -1000), 1000, [0] * m
                    else:
                        # full mantissas, binary exponents spread over 8 binades (column j holds multiples of
                        # 2^sh[j] / 2^k): sums of squares need far more than 53 bits
                        mant = 24 if dtype == "float32" else 53
                        k, lo, hi = mant + 6, 1 - 2 ** mant, 2 ** mant - 1
                        sh = [rng.choice([0, 0, 3, 6, 8]) for _ in range(m)]
                    y = [rng.randint(lo, hi) << sh[j] for j in range(m)]
                    ncase += 1
                    cloud = ncase % 3 == 0
                    yrow = rng.randrange(n)
                    rows = []
                    for i in range(n):
                        if i == yrow:
                            rows.append(list(y))
                        elif cloud or i == (yrow + 1) % n:
                            r = list(y)
                            for j in (range(m) if cloud else rng.sample(range(m), min(m, rng.choice([1, 2, 3])))):
                                u = (r[j] >> sh[j]) + rng.choice([-3, -2, -1, 1, 2, 3, 0] if cloud else [-2, -1, 1, 2])
                                r[j] = min(hi, max(lo, u)) << sh[j]
                            rows.append(r)
                        else:
                            rows.append([rng.randint(lo, hi) << sh[j] for j in range(m)])
                    how = rng.choice(["view", "view", "copy"])
                    c = {"metric": metric, "dtype": dtype, "n": n, "m": m, "k": k, "vals": rows, "y": list(y),
                         "xlayout": rng.choice(XLAYOUTS), "ylayout": rng.choice(YLAYOUTS) if how == "copy" else "rowview",
                         "out": rng.choice([None, None, "ok", "strided"]), "init": 7, "threads": rng.choice(pool),
                         "style": "wide", "bad": None, "cloud": cloud}
                    if how == "view":
                        c["yrow"] = yrow
                    cases.append(c)
    return cases


def generate(rng, tier):
    pool = [1, 2, 3, 4, 8, 16] if tier == "quick" else list(range(1, 17))
    nv, nb = (360, 120) if tier == "quick" else (3200, 800)
    cases = []
    # fixed regression inputs of defect D9 (and its float32 sibling), on several thread counts
    for t in pool[:3]:
        for metric in ("euclidean", "manhattan"):
            for dtype, xv, yv, k in (("int32", 2147483647, -2147483647, 0), ("int64", 4000000000, 0, 0),
                                     ("int32", -2147483648, 2147483647, 0), ("float32", 4097, 0, 0),
                                     ("float32", 16777216, -1, 0), ("int64", 2 ** 62, -2 ** 62, 0)):
                cases.append({"metric": metric, "dtype": dtype, "n": 2, "m": 1, "k": k, "vals": [[xv], [yv]],
                              "y": [yv], "xlayout": "C", "ylayout": "C", "out": None, "init": 7, "threads": t,
                              "style": "d9", "bad": None})
    for _ in range(nv):
        cases.append(_case(rng, pool))
    for _ in range(nb):
        cases.append(_bad_case(rng, pool))
    cases += _round2(rng, pool, tier)
    cases += _round3(rng, pool, tier)
    cases += _round3_wide(rng, pool, tier)
    _PENDING[:] = cases
    return cases


# ----------------------------------------------------------------------------- oracle
def _expected_valid(c):
    """None if the call is malformed, else True."""
    return c.get("bad") is None


def _exact_row(c, row):
    """all intermediate values of this row's distance are integers (scaled) of magnitude <= 2^53"""
    B = 2 ** 53
    acc = 0
    for a, b in zip(row, c["y"]):
        d = a - b
        if abs(a) > B or abs(b) > B or abs(d) > B:
            return False
        t = d * d if c["metric"] == "euclidean" else abs(d)
        acc += t
        if t > B or acc > B:
            return False
    return True


def _exact_domain(c):
    """... of every row"""
    return all(_exact_row(c, row) for row in c["vals"])


def oracle(c, r):
    out = []
    valid = _expected_valid(c)
    err = "err" in r
    if err and r["err"] == "MetricMap":
        return [("metric-name-map", "cluster.util._get_distance_method: %s" % r.get("msg", ""))]
    if err and str(r["err"]).startswith(("Unexpected", "Crash")):
        return [("harness-or-crash", "%s %s" % (r["err"], r.get("msg", "")))]
    if not valid and not (c["bad"] == "byteorder" and not err):
        # (an accepted call on arrays of non-native byte order is judged below like a valid call: it must be exact)
        if not err:
            out.append(("bad-input-accepted", "malformed call (%s) returned %s" % (c["bad"], str(r)[:200])))
        elif r.get("out_touched"):
            out.append(("bad-input-wrote-out", "rejected call modified the out buffer (%s)" % c["bad"]))
        return out
    if err:
        return [("valid-input-rejected", "valid call raised %s" % r["err"])]
    n, m, k = c["n"], c["m"], c["k"]
    if r["ndim"] != 1 or r["dtype"] != "float64" or r["len"] != n:
        out.append(("result-type", "result ndim %s dtype %s len %s (n=%d)" % (r["ndim"], r["dtype"], r["len"], n)))
    if not r["inputs_unchanged"]:
        out.append(("input-modified", "X or y (or their surrounding buffers) changed"))
    if c["out"] is not None:
        if not (r.get("ret_is_out") and r.get("out_holds")):
            out.append(("out-buffer", "caller's out buffer is not the result: %s" % {x: r.get(x) for x in ("ret_is_out", "out_holds")}))
        if c["out"] == "strided" and not r.get("guard_ok"):
            out.append(("out-buffer", "elements between the strided out cells were modified"))
    if c["out"] is not None and "out_val" in r and r["val"] is not None and r["out_val"] != r["val"]:
        bad = [i for i, (a, b) in enumerate(zip(r["out_val"], r["val"])) if a != b][:4]
        out.append(("out-buffer", "caller's %s buffer does not hold the result after the call: cells %s hold %s, "
                    "result %s" % (c["out"], bad, [r["out_val"][i] for i in bad], [r["val"][i] for i in bad])))
    if "ref_val" in r or "ref_err" in r:
        if r.get("ref_err") is not None or r["ref_val"] != r["val"]:
            diff = [] if not (r.get("ref_val") and r["val"]) else \
                [i for i, (a, b) in enumerate(zip(r["ref_val"], r["val"])) if a != b][:4]
            out.append(("thread-count-changes-result",
                        "%s %s n=%d m=%d: result with %d threads differs from the result with %s thread(s) at rows %s: "
                        "%s vs %s" % (c["metric"], c["dtype"], n, m, c["threads"], c.get("ref_threads"), diff,
                                      [float(F(r["val"][i])) for i in diff],
                                      [float(F(r["ref_val"][i])) for i in diff])))
    metric = c["metric"]
    if metric == "hamming" and m == 0:
        return out
    if r["val"] is None:
        out.append(("value-" + metric, "non-finite result %s" % r.get("nonfinite")))
        return out
    got = [F(v) for v in r["val"]]
    if len(got) != n:
        return out
    for i, row in enumerate(c["vals"]):
        # each row's distance is computed from that row and the target alone: exact where this row's intermediate
        # values are (e.g. a row equal or close to the target among rows far from it)
        exact = _exact_row(c, row)
        if list(row) == list(c["y"]) and got[i] != 0:
            out.append(("value-" + metric, "row %d is identical to the target but its distance is %r (dtype %s, %d features, layout %s, "
                        "threads %d%s)" % (i, float(got[i]), c["dtype"], m, c["xlayout"], c["threads"],
                                           ", target = row %d of X (a view)" % c["yrow"] if c.get("yrow") is not None else "")))
            break
        # outside the exact range: error bounded relative to the magnitude of the inputs
        T = F(1, 10 ** 12) * max(F(sum(abs(a) + abs(b) for a, b in zip(row, c["y"])), 2 ** k), 1)
        if metric == "hamming":
            cnt = sum(1 for a, b in zip(row, c["y"]) if a != b)
            ok = got[i] == F(cnt / m)
            exp = "%d/%d" % (cnt, m)
        elif metric == "manhattan":
            e = F(sum(abs(a - b) for a, b in zip(row, c["y"])), 2 ** k)
            ok = got[i] == e if exact else abs(got[i] - e) <= T
            exp = str(e)
        else:
            s = F(sum((a - b) ** 2 for a, b in zip(row, c["y"])), 4 ** k)
            if exact:
                ok = got[i] == F(math.sqrt(float(s))) and float(s) == s
            else:
                g = got[i]
                ok = g >= 0 and s <= (g + T) ** 2 and (g <= T or (g - T) ** 2 <= s)
            exp = "sqrt(%s)" % s
        if not ok:
            out.append(("value-" + metric, "row %d: got %s expected %s (dtype %s%s layout %s threads %d%s)" % (
                i, float(got[i]), exp, c["dtype"], " non-native byte order (%s)" % c["swap"] if c.get("swap") else "",
                c["xlayout"], c["threads"], ", target = row %d of X (a view)" % c["yrow"] if c.get("yrow") is not None else "")))
            break
    return out


# ----------------------------------------------------------------------------- Coq side
def _ndarr(a, base, k, dtype):
    bufv, shape, off, strides = _view(a, base, k)
    ty = NPDT[dtype] if a.dtype.isnative else "OtherT"     # non-native byte order: no typed buffer accepts it
    return "(Build_ndarr %s %s %s %s %s)" % (clist(bufv, cz, "Z"), ty, clist(shape, cz, "Z"), cz(off),
                                           clist(strides, cz, "Z"))


def _coq_parts(c):
    b = build(c)
    k = c.get("k", 0)
    X = _ndarr(b["X"], b["xbase"], k, b["X"].dtype.newbyteorder("=").name)
    y = _ndarr(b["y"], b["ybase"], k, b["y"].dtype.newbyteorder("=").name)
    if b["out"] is None:
        out = "(@None (aobj * list Z))"
    else:
        o = b["out"]
        odt = {"float64": "F64", "float32": "F32", "int64": "I64"}[str(o.dtype)]
        cells = [int(v) for v in o.ravel()] if o.ndim == 1 else []
        out = "(Some (Build_aobj %s %s, %s))" % (clist([int(s) for s in o.shape], cz, "Z"), odt,
                                                clist(cells, cz, "Z"))
    return COQ_METRIC[c["metric"]], "%d%%positive" % (2 ** k), X, y, out


def coq_check(c, r):
    if "err" in r:
        if str(r["err"]).startswith(("Unexpected", "Crash", "MetricMap")):
            return None
        impl = "(@None (list Q))"
    elif r["val"] is None or (c["metric"] == "hamming" and c["m"] == 0):
        return None
    elif c.get("style") == "round" and c["threads"] != c.get("ref_threads"):
        return None        # thousands of features: the model is evaluated once per data set (the 1-thread case)
    else:
        impl = "(Some %s)" % clist([F(v) for v in r["val"]], cq, "Q")
    return "agrees %s %s %s %s %s %s" % (_coq_parts(c) + (impl,))


def coq_show(c):
    mt, sc, X, y, out = _coq_parts(c)
    return ("(distance_mach %s %s %s (option_map (fun p => (fst p, map (fun z => Some z) (snd p))) %s), "
            "distance_ideal %s %s %s %s)" % (mt, X, y, out, mt, X, y, out))


def nontrivial(c, r):
    return c.get("bad") is None and "err" not in r and c["n"] >= 2 and c["m"] >= 1 and \
        r.get("val") is not None and any(F(v) != 0 for v in r["val"])


def tags(c, r):
    t = ["metric:" + c["metric"], "dtype:" + c["dtype"], "x:" + c["xlayout"], "y:" + c["ylayout"],
         "threads:%d" % c["threads"], "out:%s" % c["out"], "style:" + c["style"]]
    if c.get("bad"):
        t.append("bad:" + c["bad"])
        t.append("rejected" if "err" in r else "accepted-bad")
        if c["bad"] == "byteorder":
            how = "aliased-target" if c.get("yrow") is not None else "separate-target" if c["swap"] == "both" else "one-argument"
            t.append("byteorder-%s-%s" % (how, "rejected" if "err" in r else "accepted"))
            t.append("byteorder-" + c["metric"])
    else:
        t.append("valid")
        if c["threads"] > 1 and c["n"] > c["threads"]:
            t.append("multi-chunk")
        if c["threads"] > 1 and c["n"] >= 2 * c["threads"] and c["n"] % c["threads"]:
            t.append("remainder-rows")
        if "ref_val" in r:
            t.append("cross-thread-compared")
        if c.get("yrow") is not None and "err" not in r:
            t.append("target-is-row-view-of-X")
        if c["style"] == "wide" and "err" not in r:
            w = "wide-48plus" if c["m"] >= 48 else "narrow-control"
            t.append("%s-%s-%s" % (w, c["metric"], "float" if c["dtype"].startswith("float") else "int"))
            if c["m"] >= 48 and c["dtype"].startswith("float"):
                t.append("wide-48plus-" + c["dtype"])
                t.append("wide-float-self-distance-zero")
                if c.get("cloud"):
                    t.append("wide-float-offset-cloud")
                else:
                    t.append("wide-float-near-duplicate-row")
        if c["metric"] == "hamming" and c["dtype"] in ("int8", "uint8") and "err" not in r:
            lim = 128 if c["dtype"] == "int8" else 256
            if any(sum(1 for a, b in zip(row, c["y"]) if a != b) >= lim for row in c["vals"]):
                t.append("hamming-count-exceeds-element-type")
        if c["out"] in ("col", "strided", "neg") and c["n"] >= 2:
            t.append("noncontiguous-out")
        if not _exact_domain(c):
            t.append("outside-exact-double")
    if c["n"] == 0:
        t.append("n=0")
    if c["m"] == 0:
        t.append("m=0")
    return t


ESSENTIAL_TAGS = ["metric:euclidean", "metric:manhattan", "metric:hamming", "x:F", "x:strided", "x:neg", "y:strided",
                  "out:ok", "out:strided", "out:None", "threads:1", "threads:2", "threads:16", "multi-chunk",
                  "style:extreme", "style:d9", "rejected", "bad:x1d", "bad:narrow-y", "bad:wide-y", "bad:mixed",
                  "bad:unsupported", "bad:out:f32", "bad:out:len+", "bad:out:2d", "bad:out:0d", "valid",
                  "dtype:int32", "dtype:int64", "dtype:float32", "dtype:float64", "dtype:int8", "dtype:uint8",
                  "style:round", "style:ham-wide", "style:remainder", "style:outview", "out:col", "remainder-rows",
                  "cross-thread-compared", "hamming-count-exceeds-element-type", "noncontiguous-out",
                  # round 3s
                  "style:byteorder", "style:alias", "bad:byteorder", "byteorder-aliased-target-rejected",
                  "byteorder-separate-target-rejected", "byteorder-one-argument-rejected", "byteorder-euclidean",
                  "byteorder-manhattan", "byteorder-hamming", "target-is-row-view-of-X", "y:rowview",
                  "style:wide", "wide-48plus-euclidean-float", "wide-48plus-manhattan-float", "wide-48plus-hamming-int",
                  "narrow-control-euclidean-float", "wide-48plus-float32", "wide-48plus-float64",
                  "wide-float-self-distance-zero", "wide-float-offset-cloud", "wide-float-near-duplicate-row"]


def search(rng, tier):
    cases = generate(rng, "quick")
    found = []
    for c in cases:
        r = run_impl(c)
        for key, msg in oracle(c, r):
            found.append((key, msg, c, r))
            return found
    return found


if __name__ == "__main__" and "--worker" in sys.argv:
    _worker()
