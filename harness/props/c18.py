"""C18: joint counts are exact and mutual information obeys its algebraic laws."""
import json, math, os, subprocess, sys, warnings
from fractions import Fraction as F

HERE = os.path.dirname(os.path.abspath(__file__))
sys.path.insert(0, os.path.dirname(HERE))
import numpy as np
from core import cz, cn, cb, cq, clist, copt, VERIF
sys.path.insert(0, os.path.join(VERIF, "translator"))
import tr_info, tr_infopy

PID = "C18"
PROPS_FILE = "Props/C18.v"
MODEL_TARGETS = ["Model/JointCounts.vo", "Model/Info.vo", "Gen/InfoGen.vo", "Base/InfoPyBase.vo", "Gen/MutualInfoGen.vo",
                 "Gen/EntropyGen.vo"]
GEN_FILES = ["Gen/InfoGen.v", "Gen/MutualInfoGen.v", "Gen/EntropyGen.v"]
CASE_HEADER = """From Coq Require Import List ZArith QArith Bool.
From EV Require Import CaseLib JointCounts Info InfoBase InfoGen InfoPyBase MutualInfoGen.
Import ListNotations.
Definition nl4_eqb := list_eqb (list_eqb (list_eqb CaseLib.nl_eqb)).
Definition q3_eqb := pair_eqb (pair_eqb Qeq_bool Qeq_bool) Qeq_bool.
Definition q2_eqb := pair_eqb Qeq_bool Qeq_bool.
Definition mient_eqb := pair_eqb (pair_eqb (pair_eqb qll_eqb ql_eqb) ql_eqb) (list_eqb q3_eqb).
Definition mitab_eqb := list_eqb (list_eqb mient_eqb).
Definition ext_eqb {A} (e : A -> A -> bool) (a b : ext A) : bool :=
  match a, b with Err, Err => true | Inf, Inf => true | Fin x, Fin y => e x y | _, _ => false end.
Definition omap_eqb {A B} (e : B -> B -> bool) (f : A -> B) (a : option A) (b : option B) : bool :=
  match a, b with Some x, Some y => e (f x) y | None, None => true | _, _ => false end.
"""
RULE = ("jc: (the text of matrix_bincount2d regenerated from libinfo.pyx, Gen/InfoGen.v, is evaluated in Coq on every "
        "jc case with explicit state counts, next to the hand model; the text of joint_counts regenerated from mutual_info.py, "
        "Gen/MutualInfoGen.v, is evaluated on every jc case on the typed arrays (element type, 1-D flag, stored values), the "
        "regenerated pooling loop on every mimat case, the regenerated divisor grid on every cc case) random integer feature trajectories (1..12 frames, 1..4 features and 1..5 states per side, the two sides "
        "different), all 8 integer dtypes on each side, C/F/strided layouts, 1..16 OpenMP threads, 1-D input, Y=None, "
        "default state counts, ids near the limit of 8-bit types against the opposite signedness; real joint_counts compared exactly with the model and with a brute-force count; malformed "
        "stream (negative id, id >= n, unequal lengths, empty) run in a worker subprocess and required to be rejected. "
        "mi/mitab: mutual_information of those tables and of arbitrary small tables (never-observed pairs, empty "
        "rows/columns): exact probability tables and the list of summed cells compared with the model, value against the "
        "double evaluation of the formula (1e-9), laws (>= 0, <= min entropy, relabelling, frame order, self symmetry, "
        "diagonal = shannon_entropy) on the implementation's values. mimat: mi_matrix pooled table (captured at the "
        "call of mutual_information) vs model pooled_counts; normalisation with per-feature state counts. cc: "
        "channel_capacity_normalization on non-square matrices, divisor grid recovered and compared exactly. ent/kl: "
        "dyadic distributions incl. zeros, negative entries, shape mismatch, infinite cases (entropy and table MI are "
        "called right after freeing NaN-filled blocks of the sizes they allocate). wmi: weighted_mi with "
        "uniform (equals unweighted) and dyadic weights. non-trivial := >= 2 frames and >= 2 distinct states (jc/mi), "
        ">= 2 positive cells (ent/kl), non-square or unequal state counts (cc). "
        "micont: mi_matrix over the container forms of the trajectories (RaggedArray / list of arrays / 3-D array, mixed): "
        "equal lengths (pooled table exact, also vs model pooled_counts and the regenerated pooling loop) and per-trajectory "
        "length mismatches with equal total ([3,5] vs [5,3], frames moved between trajectories), unequal total, another number "
        "of trajectories - required to be rejected whenever a zipped pair differs in length. jcmax: for each of the 8 integer "
        "dtypes an id equal to the largest value of the type (or one less) on either side, declared state count smaller / "
        "equal (id == n) / just enough / larger (8- and 16-bit; 32- and 64-bit only smaller), other side of the same or "
        "another dtype: rejected exactly when id >= n (a crash of the worker counts as not rejected), else non-zero cells, "
        "shape and per-pair totals (= frames) exact. mi with hist=...: Y is different data with the same per-feature "
        "histograms as X (time shift, lagged copies, frame shuffle, independent shuffles of a balanced column): MI entry by "
        "entry against the formula on the exact counts, also through mi_matrix on the data cut in two trajectories, and "
        "unchanged when the states of ONE feature of Y are relabelled. jcthr: 200 000-400 000 frames, 2-3 states, one feature "
        "pair as 1-D or (n,1) arrays (and a few 2-3 feature shapes), all dtypes, thread counts 1, three of {2,3,4,8,16}, 1 again, "
        "3 repeats each: every table equals a pure-NumPy bincount and the single-thread table (not evaluated in Coq: "
        "too long for vm_compute). jcx: every entry point of the counting kernels (joint_counts on 2-D and on 1-D arrays, "
        "mi_matrix pooling with and without a well-formed pair pooled first, libinfo.matrix_bincount2d and the 1-D kernel "
        "libinfo.bincount2d called directly, contiguous and strided) x {valid: exact table; ids a multiple of 2^8 / 2^16 / 2^32 "
        "away from a legal id in every wider element type (legal + 2^k, + 3*2^k, legal - 2^k, the type's minimum, the top "
        "bit); negative ids; ids >= n; lengths differing by one; no frames on one side against frames on the other (either "
        "side)}: rejected (an exception, no crash) or counted exactly, also compared with the model joint_counts / "
        "pooled_counts / the regenerated kernel text. Round 3s (E): the ent and kl streams repeated on other argument containers "
        "(36 + 70 quick): shannon_entropy on numpy.matrix (built directly / through scipy's .todense(): a vector is a 1 x n row "
        "matrix, also 2 x n/2 and square 2 x 2 / 3 x 3 matrices) and plain lists, normalize off in most cases; kl_divergence on "
        "numpy.matrix (both sides / only P / only Q), .todense() results, ndarrays and tuples, as one distribution (1 x n), the "
        "two-row form and n distributions over n values (square); every value compared with the exact reference of the same "
        "cells (1e-9), every row non-negative, one divergence per row; the Coq comparison of the first row is kept")
TRUSTED = ["translator/tr_infopy.py (mutual_info.py: joint_counts, mutual_information, _validate_feature_states_array, "
           "channel_capacity_normalization, mi_matrix, weighted_mi; entropy.py: shannon_entropy, kl_divergence (1-D and 2-D) -> Gen/MutualInfoGen.v, "
           "Gen/EntropyGen.v, proved equal to the model for all inputs; vocabulary Base/InfoPyBase.v: NumPy axes/broadcast/"
           "masked-ufunc/promote_types/IEEE nan-inf semantics as stated there; promote_types, astype and the 1-D expansion "
           "are also exercised against NumPy by the jc stream)",
           "translator/tr_info.py (libinfo.pyx:matrix_bincount2d: asserts, allocation, loop nest, increment -> "
           "Gen/InfoGen.v, proved equal to the model; vocabulary Base/InfoBase.v)",
           "double-precision evaluation of sum p*log(p/(px*py)) / -sum p log p / sum p log(p/q) from the exact rational "
           "tables (harness glue, tolerance 1e-9)",
           "modelled not verified: OpenMP runtime (schedules are modelled as arbitrary orders of the elementary "
           "increments), NumPy sum/divide/meshgrid/bincount/matmul, C integer conversion of in-range ids",
           "real-number theorems rest on the Coq standard library axioms of Reals (listed by Print Assumptions)"]
ASSUMPTIONS = ["state counts fit a C int and tables fit memory; trajectories shorter than 2^32 frames (uint32 cells)",
               "information-theoretic laws are about exact real arithmetic; the implementation's doubles are compared at 1e-9",
               "weighted_mi: weights non-negative; uniform-weight equality stated for weights exactly 1/T",
               "generated Python layer: probability tables are exact rationals and logarithmic values ideal reals (the "
               "`weights.sum() != 1` test of weighted_mi is read over exact rationals); integer arrays hold values of their "
               "own element type that also fit int64; np.bincount's ValueError on negative ids and np.vstack's on ragged rows "
               "are not modelled (weighted_mi reads only the columns below the declared state count)"]
SHARD = 60
EXHAUSTIVE = {"thorough": False}
DTYPES = ["int8", "int16", "int32", "int64", "uint8", "uint16", "uint32", "uint64"]
TOL = 1e-9


# ----------------------------------------------------------------------------- generation
def _traj(rng, T, f, n):
    mode = rng.random()
    if mode < 0.2:     # correlated columns
        base = [rng.randrange(n) for _ in range(T)]
        return [[(base[t] + (k if rng.random() < 0.8 else rng.randrange(n))) % n for k in range(f)] for t in range(T)]
    if mode < 0.3:     # a constant feature
        return [[0 if k == 0 else rng.randrange(n) for k in range(f)] for t in range(T)]
    return [[rng.randrange(n) for _ in range(f)] for _ in range(T)]


def _gen_jc(rng, thorough):
    T = rng.choice([1, 2, 3, 4, 5, 6, 8, 12])
    fa, fb = rng.randint(1, 4), rng.randint(1, 4)
    na, nb = rng.randint(1, 5), rng.randint(1, 5)
    X = _traj(rng, T, fa, na)
    selfy = rng.random() < 0.2
    Y = None if selfy else _traj(rng, T, fb, nb)
    c = {"kind": "jc", "X": X, "Y": Y,
         "nx": rng.choice([None, na, na, na + rng.randint(0, 2)]),
         "ny": None if selfy else rng.choice([None, nb, nb, nb + rng.randint(0, 2)]),
         "dx": rng.choice(DTYPES), "dy": rng.choice(DTYPES), "lx": rng.choice(["C", "F", "S"]),
         "ly": rng.choice(["C", "F", "S"]), "thr": rng.randint(1, 16), "bad": None,
         "oned": rng.random() < 0.15}
    if selfy:
        c["dy"] = c["dx"]
    return c


def _gen_wide(rng):
    """ids near the top of an 8-bit type, the other side of the opposite signedness (harmonisation must not
    change them) and default state counts (max()+1 must not wrap around)"""
    T = rng.randint(2, 4)
    dx = rng.choice(["uint8", "int8"])
    top = 255 if dx == "uint8" else 127
    X = [[rng.choice([top, top - rng.randint(0, 60), rng.randint(0, 3)])] for _ in range(T)]
    X[0][0] = top if rng.random() < 0.5 else top - rng.randint(1, 60)
    nb = rng.randint(1, 3)
    Y = [[rng.randrange(nb)] for _ in range(T)]
    return {"kind": "jc", "X": X, "Y": Y, "nx": rng.choice([None, max(r[0] for r in X) + 1]), "ny": nb,
            "dx": dx, "dy": rng.choice(["int8", "uint8", "int16", "uint64"]), "lx": "C", "ly": "C",
            "thr": rng.randint(1, 4), "bad": None, "oned": False, "wide": True}


def _gen_bad(rng):
    c = _gen_jc(rng, False)
    c["oned"] = False
    kind = rng.choice(["neg", "neg", "big", "big", "len", "empty"])
    c["bad"] = kind
    X, Y = c["X"], c["Y"]
    side = "X" if (Y is None or rng.random() < 0.5) else "Y"
    A = X if side == "X" else Y
    if kind == "neg":
        c["d" + side.lower()] = rng.choice(DTYPES[:4])
        if Y is None:
            c["dy"] = c["dx"]
        A[rng.randrange(len(A))][rng.randrange(len(A[0]))] = -rng.choice([1, 1, 2, 5])
        if c["nx"] is None and rng.random() < 0.7:
            c["nx"] = max(max(r) for r in X) + 1
    elif kind == "big":
        n = c["nx"] if side == "X" else c["ny"]
        if n is None:
            n = max(max(r) for r in A) + 1
            c["nx" if side == "X" else "ny"] = n
        A[rng.randrange(len(A))][rng.randrange(len(A[0]))] = n + rng.choice([0, 0, 1, 3])
    elif kind == "len":
        if Y is None:
            c["Y"] = Y = [list(r) for r in X]
            c["ny"] = c["nx"]
        if rng.random() < 0.5 and len(Y) > 1:
            Y.pop()
        else:
            Y.append(list(Y[-1]))
    else:
        if side == "X":
            c["X"] = []
            c["fx"] = len(X[0])
            if c["nx"] is None:
                c["nx"] = 2
        else:
            c["Y"] = []
            c["fy"] = len(Y[0])
            if c["ny"] is None:
                c["ny"] = 2
    return c


def _gen_mi(rng):
    T = rng.choice([2, 3, 4, 6, 8, 12])
    fa, fb = rng.randint(1, 3), rng.randint(1, 3)
    na, nb = rng.randint(2, 4), rng.randint(2, 4)
    X = _traj(rng, T, fa, na)
    selfy = rng.random() < 0.4
    if selfy:
        Y, fb, nb = None, fa, na
    elif rng.random() < 0.3:     # Y a function of X (MI = H(Y))
        m = [rng.randrange(nb) for _ in range(na)]
        Y = [[m[X[t][k % fa]] for k in range(fb)] for t in range(T)]
    else:
        Y = _traj(rng, T, fb, nb)
    px = list(range(na)); rng.shuffle(px)
    py = list(range(nb)); rng.shuffle(py)
    order = list(range(T)); rng.shuffle(order)
    return {"kind": "mi", "X": X, "Y": Y, "nx": na + rng.randint(0, 1), "ny": nb + rng.randint(0, 1),
            "permx": px, "permy": py, "order": order}


def _gen_mitab(rng):
    fa, fb = rng.randint(1, 2), rng.randint(1, 3)
    na, nb = rng.randint(1, 4), rng.randint(1, 4)
    jc = []
    for a in range(fa):
        row = []
        for b in range(fb):
            r = rng.random()
            if r < 0.2:
                H = [[0] * nb for _ in range(na)]
            else:
                H = [[rng.choice([0, 0, 1, 2, 3, 7]) for _ in range(nb)] for _ in range(na)]
                if r < 0.4:
                    H[rng.randrange(na)] = [0] * nb
            row.append(H)
        jc.append(row)
    return {"kind": "mitab", "jc": jc}


def _gen_mimat(rng):
    k = rng.randint(1, 3)
    fa, fb = rng.randint(1, 3), rng.randint(1, 3)
    nxs = [rng.randint(2, 4) for _ in range(fa)]
    nys = [rng.randint(2, 4) for _ in range(fb)]
    Xs, Ys = [], []
    for _ in range(k):
        T = rng.choice([1, 2, 3, 5, 8])
        Xs.append([[rng.randrange(nxs[j]) for j in range(fa)] for _ in range(T)])
        Ys.append([[rng.randrange(nys[j]) for j in range(fb)] for _ in range(T)])
    c = {"kind": "mimat", "Xs": Xs, "Ys": Ys, "nx": nxs, "ny": nys, "normalize": rng.random() < 0.6}
    r = rng.random()
    if r < 0.15:
        c["nx"] = max(nxs)
    if 0.1 < r < 0.25:
        c["ny"] = max(nys)
    if r > 0.9 and k >= 2:      # a trajectory with another number of features: DataInvalid
        Xs[-1] = [row + [0] for row in Xs[-1]]
        c["normalize"] = False
    return c


def _gen_cc(rng):
    r, cdim = rng.randint(1, 4), rng.randint(1, 4)
    mi = [[F(rng.randint(1, 64), 32) for _ in range(cdim)] for _ in range(r)]
    nx = [rng.randint(2, 9) for _ in range(r)]
    ny = [rng.randint(2, 9) for _ in range(cdim)]
    c = {"kind": "cc", "mi": [[str(x) for x in row] for row in mi], "nx": nx, "ny": ny}
    q = rng.random()
    if q < 0.12:
        c["nx"] = rng.randint(2, 9)
    elif q < 0.24:
        c["ny"] = rng.randint(2, 9)
    elif q < 0.3:
        c["nx"] = nx + [3]
    elif q < 0.36:
        c["ny"] = ny[:-1]
    elif q < 0.42:
        (c["nx"] if rng.random() < 0.5 else c["ny"])[0] = rng.choice([1, 0, -2])
    elif q < 0.45:
        c["nx"] = 1
    return c


def _dist(rng, n, zeros=True):
    den = 64
    while True:
        cuts = sorted(rng.randint(0, den) for _ in range(n - 1))
        parts = [b - a for a, b in zip([0] + cuts, cuts + [den])]
        if zeros or all(parts):
            return [F(p, den) for p in parts]


def _gen_ent(rng):
    n = rng.randint(1, 7)
    if rng.random() < 0.5:
        p = _dist(rng, n)
        norm = rng.random() < 0.5
    else:
        p = [F(rng.choice([0, 0, 1, 2, 3, 5, 8]), rng.choice([1, 4, 16])) for _ in range(n)]
        if not any(p):
            p[0] = F(1)
        norm = True
    shape2 = rng.random() < 0.25 and n % 2 == 0
    return {"kind": "ent", "p": [str(x) for x in p], "normalize": norm, "two_d": shape2}


def _gen_kl(rng):
    n = rng.randint(1, 6)
    P = _dist(rng, n)
    r = rng.random()
    if r < 0.25:
        Q = list(P)
    elif r < 0.6:
        Q = _dist(rng, n, zeros=False)
    else:
        Q = _dist(rng, n)
    c = {"kind": "kl", "base": rng.choice(["2", "e", "10"]), "two_d": rng.random() < 0.2}
    if rng.random() < 0.2 and n >= 2:
        # nearly equal but different distributions (entries agree to ~1e-5..1e-8): the divergence is
        # tiny but must not be zero; and a vanishing Q cell under a tiny P cell must give +inf
        k = rng.choice([19, 20])
        P = [F(rng.randint(1, 6), 1) for _ in range(n)]
        tot = sum(P)
        P = [x / tot for x in P]
        P = [F(round(x * 2 ** 10), 2 ** 10) for x in P]
        P[0] += 1 - sum(P)
        if P[0] <= 0 or rng.random() < 0.2:
            P = [1 - F(1, 2 ** 30)] + [F(1, 2 ** 30)] + [F(0)] * (n - 2)
            Q = [F(1)] + [F(0)] * (n - 1)
        else:
            Q = list(P)
            big = [t for t in range(n) if P[t] >= F(1, 8)]
            if len(big) >= 2:
                i, j = rng.sample(big, 2)      # cells large enough for the double evaluation to resolve the difference
                Q[i] += F(1, 2 ** k)
                Q[j] -= F(1, 2 ** k)
        c["P"] = [str(x) for x in P]
        c["Q"] = [str(x) for x in Q]
        c["near"] = True
        return c
    if r > 0.93:
        Q = Q + [F(0)]
        c["two_d"] = False
    elif r > 0.86:
        (P if rng.random() < 0.5 else Q)[rng.randrange(n)] = F(-1, 8)
    c["P"] = [str(x) for x in P]
    c["Q"] = [str(x) for x in Q]
    return c


ENT_CONTS = ["matrix", "todense", "matrix", "list", "matrix", "todense"]
KL_CONTS = ["matrix", "todense", "matrix-P", "ndarray", "matrix", "matrix-Q", "tuple"]
KL_FORMS = ["row", "square", "two", "square", "row"]


def _gen_ent_cont(rng, i):
    """round 3s (E): the distribution handed over as numpy.matrix (built directly / what scipy's .todense() returns;
    a vector becomes a 1 x n row matrix, an even-length one also a 2 x n/2 matrix, a perfect square also a square
    matrix), or as a plain list; normalize off in two of three cases (then the argument itself enters p * log p)"""
    c = _gen_ent(rng)
    c["cont"] = ENT_CONTS[i % len(ENT_CONTS)]
    n = len(c["p"])
    if i % 3 != 0:
        p = [F(x) for x in c["p"]]
        if sum(p) != 1:
            s = sum(p)
            p = [x / s for x in p]
            c["p"] = [str(x) for x in p]
        c["normalize"] = i % 3 == 1 and rng.random() < 0.3
    if c["cont"] != "list" and i % 2 == 0:
        # a square matrix of cells (2 x 2 or 3 x 3): the shape for which a matrix product does not even raise
        m = rng.choice([2, 2, 3])
        p = _dist(rng, m * m)
        c["p"] = [str(x) for x in p]
        c["two_d"], c["rows"] = True, m
    return c


def _gen_kl_cont(rng, i):
    """round 3s (E): kl_divergence on numpy.matrix arguments (both / only P / only Q; built directly or through
    scipy's .todense()), on ndarrays and tuples: one distribution (1 x n row matrix), the two-row form of the main
    stream, and n distributions over n values (a square matrix)"""
    c = _gen_kl(rng)
    c["cont"] = KL_CONTS[i % len(KL_CONTS)]
    form = KL_FORMS[i % len(KL_FORMS)]
    n = len(c["P"])
    if len(c["P"]) != len(c["Q"]):
        form = "row"
    c["two_d"] = form == "two"
    if form == "square" and n >= 2:
        more = []
        for _ in range(n - 1):
            Pi = _dist(rng, n)
            Qi = list(Pi) if rng.random() < 0.2 else _dist(rng, n, zeros=rng.random() < 0.3)
            more.append([[str(x) for x in Pi], [str(x) for x in Qi]])
        c["more"] = more
    return c


def _gen_wmi(rng):
    T = rng.choice([2, 4, 4, 8, 3, 5, 6])
    f = rng.randint(1, 3)
    n = rng.randint(2, 4)
    X = _traj(rng, T, f, n)
    if rng.random() < 0.6:
        w = [F(1, T)] * T
        uniform = True
    else:
        parts = _dist(rng, T)
        w = parts
        uniform = len(set(w)) == 1
    return {"kind": "wmi", "X": X, "w": [str(x) for x in w], "n": n, "uniform": uniform}


# ---- round 3s streams ---------------------------------------------------------------------------
def _split_lengths(rng, total, k):
    cuts = sorted(rng.sample(range(1, total), k - 1)) if k > 1 else []
    return [b - a for a, b in zip([0] + cuts, cuts + [total])]


def _gen_micont(rng):
    """mi_matrix over the container forms the trajectories may come in (RaggedArray, list of arrays, 3-D array):
    equal trajectory lengths (pooled counts must be exact) and per-trajectory length mismatches with equal total,
    unequal total, or another number of trajectories (must be rejected: frame t of trajectory k has no partner)"""
    fa, fb = rng.randint(1, 2), rng.randint(1, 2)
    nx, ny = rng.randint(2, 3), rng.randint(2, 3)
    mode = rng.choice(["ok", "ok", "eqtotal", "eqtotal", "eqtotal", "uneq", "uneq", "ktraj", "ktraj"])
    k = rng.randint(2, 3)
    if rng.random() < 0.4:
        LX = [rng.randint(2, 5)] * k           # a rectangular side (can be a 3-D array)
    else:
        LX = _split_lengths(rng, rng.randint(k + 1, 10), k)
    if mode == "ok":
        LY = list(LX)
    elif mode == "eqtotal":
        LY = list(LX)
        if len(set(LX)) > 1 and rng.random() < 0.6:
            while LY == LX:
                rng.shuffle(LY)                # [3, 5] against [5, 3]
        else:
            i = rng.choice([t for t in range(k) if LY[t] >= 2])     # move frames from one trajectory to another
            j = rng.choice([t for t in range(k) if t != i])
            d = rng.randint(1, LY[i] - 1)
            LY[i] -= d
            LY[j] += d
    elif mode == "uneq":
        LY = list(LX)
        i = rng.randrange(k)
        LY[i] = LY[i] + rng.choice([1, 2]) if (LY[i] == 1 or rng.random() < 0.5) else LY[i] - 1
        if len(set(LX)) == 1 and rng.random() < 0.5:
            LY = [LY[i]] * k                   # both sides rectangular, different frame counts
    else:
        tot = sum(LX)
        while True:
            k2 = rng.choice([q for q in (1, 2, 3, 4) if q != k and q <= tot])
            if len(set(LX)) == 1 and tot % k2 == 0 and rng.random() < 0.6:
                LY = [tot // k2] * k2          # (2, 3, f) against (3, 2, f)
            else:
                LY = _split_lengths(rng, tot, k2)
            if any(a != b for a, b in zip(LX, LY)):
                break

    def form(L):
        opts = ["ragged", "ragged", "list"] + (["3d", "3d"] if len(set(L)) == 1 else [])
        return rng.choice(opts)
    cx, cy = form(LX), form(LY)
    if mode != "ok" and rng.random() < 0.5:
        cx = cy = "ragged"
    Xs = [[[rng.randrange(nx) for _ in range(fa)] for _ in range(l)] for l in LX]
    Ys = [[[rng.randrange(ny) for _ in range(fb)] for _ in range(l)] for l in LY]
    return {"kind": "micont", "Xs": Xs, "Ys": Ys, "nx": nx, "ny": ny, "cx": cx, "cy": cy, "mode": mode}


def _gen_dmax(rng, dtype):
    """an id equal to the largest value of the element type (or one less) against declared state counts smaller
    than / equal to / larger than needed: rejected exactly when id >= n, whatever the element type"""
    top = int(np.iinfo(dtype).max)
    bits = np.dtype(dtype).itemsize * 8
    idv = top - rng.choice([0, 0, 0, 1])
    if bits <= 16:
        n = rng.choice([idv, idv, idv - rng.randint(1, 9), (idv * rng.randint(3, 8)) // 10, rng.randint(2, 40),
                        idv + 1, idv + 1, idv + 1 + rng.randint(1, 2)])
    else:
        n = rng.choice([2, 3, 5, 100, 1000, 32767])
    fa, fb = rng.randint(1, 3), rng.randint(1, 3)
    if bits <= 16 and n <= idv and rng.random() < 0.6:
        fa, fb = 3, rng.randint(2, 3)          # room inside the table for a stray increment
    T = rng.randint(2, 6)
    other_n = rng.randint(2, 3)
    side = rng.choice(["X", "Y"])
    selfy = n <= 256 and rng.random() < 0.2
    lo = max(1, min(n, 3))
    big = [[rng.randrange(lo) for _ in range(fa if side == "X" or selfy else fb)] for _ in range(T)]
    small = [[rng.randrange(other_n) for _ in range(fb if side == "X" else fa)] for _ in range(T)]
    big[rng.randrange(T)][0 if rng.random() < 0.8 else rng.randrange(len(big[0]))] = idv
    dother = dtype if rng.random() < 0.6 else rng.choice(DTYPES)
    c = {"kind": "jcmax", "thr": rng.randint(1, 4), "id": idv, "n": n, "side": "X" if selfy else side}
    if selfy:
        c.update({"X": big, "Y": None, "nx": n, "ny": None, "dx": dtype, "dy": dtype})
    elif side == "X":
        c.update({"X": big, "Y": small, "nx": n, "ny": other_n, "dx": dtype, "dy": dother})
    else:
        c.update({"X": small, "Y": big, "nx": other_n, "ny": n, "dx": dother, "dy": dtype})
    return c


def _gen_mihist(rng):
    """X against *different* data with the same per-feature histograms (time-shifted, frame-shuffled, balanced
    relabelled copies): the MI matrix is that of the joint counts entry by entry (not symmetric in general)"""
    n = rng.randint(2, 4)
    f = rng.randint(2, 3)
    how = rng.choice(["roll", "roll", "shuffle", "balanced", "lagged"])
    if how == "balanced":
        reps = rng.randint(2, 5)
        col = lambda: rng.sample([s for s in range(n) for _ in range(reps)], n * reps)
        cx, cy = [col() for _ in range(f)], [col() for _ in range(f)]
        T = n * reps
        X = [[cx[k][t] for k in range(f)] for t in range(T)]
        Y = [[cy[k][t] for k in range(f)] for t in range(T)]
    else:
        T = rng.choice([6, 8, 12, 16, 24, 40])
        if how == "lagged":                    # feature k is feature 0 delayed by k frames; Y is X delayed once more
            x0 = [rng.randrange(n) for _ in range(T)]
            X = [[x0[(t - k) % T] for k in range(f)] for t in range(T)]
        else:
            X = _traj(rng, T, f, n)
        if how == "shuffle":
            o = list(range(T))
            while o == list(range(T)):
                rng.shuffle(o)
            Y = [list(X[t]) for t in o]
        else:
            s = rng.randint(1, T - 1)
            Y = [list(X[(t - s) % T]) for t in range(T)]
    px = list(range(n)); rng.shuffle(px)
    py = list(range(n)); rng.shuffle(py)
    order = list(range(T)); rng.shuffle(order)
    sig = list(range(n))
    while sig == list(range(n)):
        rng.shuffle(sig)
    return {"kind": "mi", "X": X, "Y": Y, "nx": n, "ny": n, "permx": px, "permy": py, "order": order,
            "hist": how, "relabel_one": [rng.randrange(f), sig], "cut": rng.randint(1, T - 1)}


# ---- round 3s (second wave): every entry point of the counting kernels x every way an input can be out of range -----
VIAS = ["jc2d", "jc1d", "kernel1d", "kernel2d", "mimat"]
XBADS = ["wrap", "wrap", "wrap", "wrap", "neg", "big", "len", "len0", "len0", None, None]
_BITS = {d: np.dtype(d).itemsize * 8 for d in DTYPES}


def _gen_jcx(rng, via, bad):
    """the pair-table kernels through every public entry point -- joint_counts on 2-D and on 1-D arrays, mi_matrix's
    pooling, libinfo.matrix_bincount2d and the 1-D kernel libinfo.bincount2d called directly -- on valid input (exact
    counts) and on input that must be rejected: ids that are a multiple of 2^8 / 2^16 / 2^32 away from a legal id
    (a kernel that narrows ids before testing them would count them as that legal id), negative ids, ids >= n,
    arrays of different lengths, one array without frames against one with frames"""
    oned = via in ("jc1d", "kernel1d")
    fa, fb = (1, 1) if oned else (rng.randint(1, 3), rng.randint(1, 3))
    nx, ny = rng.randint(2, 5), rng.randint(2, 5)
    T = rng.randint(1, 6)
    X = [[rng.randrange(nx) for _ in range(fa)] for _ in range(T)]
    Y = [[rng.randrange(ny) for _ in range(fb)] for _ in range(T)]
    side = rng.choice(["X", "Y"])
    same = via.startswith("kernel") or rng.random() < 0.5        # (the kernels take two arrays of one element type)
    c = {"kind": "jcx", "via": via, "bad": bad, "side": side, "nx": nx, "ny": ny, "fx": fa, "fy": fb,
         "thr": rng.randint(1, 4), "strided": oned and rng.random() < 0.4, "lead": None}
    A, n = (X, nx) if side == "X" else (Y, ny)
    dbad = rng.choice(DTYPES)
    if bad == "wrap":
        mb = rng.choice([8, 16, 32, 32, 32])
        dbad = rng.choice([d for d in DTYPES if _BITS[d] > mb])
        B, signed = _BITS[dbad], not dbad.startswith("u")
        legal = rng.randrange(n)
        form = rng.choice(["+", "+", "3x", "-", "min", "top"])
        hi = B - 2 if signed else B - 1                           # largest k with legal + 2^k in the type
        if form == "-" and signed:
            v = legal - 2 ** rng.randint(mb, B - 1)
        elif form == "min" and signed:
            v, legal = -2 ** (B - 1), 0
        elif form == "3x" and hi - 2 >= mb:
            v = legal + 3 * 2 ** rng.randint(mb, hi - 2)
        elif form == "top":
            v = legal + 2 ** hi
        else:
            v = legal + 2 ** rng.randint(mb, hi)
        assert v % 2 ** mb == legal and not 0 <= v < n and int(np.iinfo(dbad).min) <= v <= int(np.iinfo(dbad).max)
        A[rng.randrange(T)][0 if rng.random() < 0.7 else rng.randrange(len(A[0]))] = v
        c["wrap"] = {"mod": mb, "legal": legal, "id": v}
    elif bad == "neg":
        dbad = rng.choice(DTYPES[:4])
        A[rng.randrange(T)][rng.randrange(len(A[0]))] = -rng.choice([1, 1, 2, n, 128])
    elif bad == "big":
        A[rng.randrange(T)][rng.randrange(len(A[0]))] = rng.choice([n, n, n + 1, n + 3, int(np.iinfo(dbad).max)])
    elif bad == "len":
        if T > 1 and rng.random() < 0.5:
            A.pop(rng.randrange(T))
        else:
            A.append(list(A[-1]))
    elif bad == "len0":
        del A[:]
    c["dx"], c["dy"] = (dbad, dbad) if same else \
        ((dbad, rng.choice(DTYPES)) if side == "X" else (rng.choice(DTYPES), dbad))
    c["X"], c["Y"] = X, Y
    if via == "mimat" and rng.random() < 0.5:                     # a well-formed trajectory pair is pooled first
        L = rng.randint(1, 3)
        c["lead"] = [[[rng.randrange(nx) for _ in range(fa)] for _ in range(L)],
                     [[rng.randrange(ny) for _ in range(fb)] for _ in range(L)]]
    return c


def _gen_jcthr(rng, i):
    """long single-feature-pair inputs (1-D or (n, 1)), few states, counted with 1 and with many threads,
    several times: every table equals the single-thread table and a pure-NumPy count"""
    fa, fb = (1, 1) if i % 3 < 2 else rng.choice([(1, 2), (2, 1), (2, 2), (3, 1)])
    form = ["1d", "col", "col"][i % 3]
    selfy = fa == fb and rng.random() < 0.25
    return {"kind": "jcthr", "seed": rng.randrange(10 ** 6), "T": rng.choice([200000, 250000, 400000]),
            "na": rng.randint(2, 3), "nb": rng.randint(2, 3), "fa": fa, "fb": fb, "form": form, "selfy": selfy,
            "dx": rng.choice(DTYPES), "same_dtype": rng.random() < 0.7, "dy": rng.choice(DTYPES),
            "threads": [1] + rng.sample([2, 3, 4, 8, 16], 3) + [1], "repeats": 3}


def _thr_data(c):
    rs = np.random.RandomState(c["seed"])
    T = c["T"]
    X = rs.randint(0, c["na"], size=(T, c["fa"]))
    if c["selfy"]:
        Y = None
    else:
        noise = rs.randint(0, c["nb"], size=(T, c["fb"]))
        keep = rs.uniform(size=(T, c["fb"])) < 0.7
        Y = np.where(keep, X[:, [0] * c["fb"]] % c["nb"], noise)
    X = X.astype(c["dx"])
    if Y is not None:
        Y = Y.astype(c["dx"] if c["same_dtype"] else c["dy"])
    if c["form"] == "1d":
        X = X[:, 0]
        Y = None if Y is None else Y[:, 0]
    return X, Y


def _thr_reference(c):
    """pure NumPy: one bincount per feature pair"""
    X, Y = _thr_data(c)
    X2 = X.reshape(len(X), -1).astype(np.int64)
    Y2, nb = (X2, c["na"]) if Y is None else (Y.reshape(len(Y), -1).astype(np.int64), c["nb"])
    return [[np.bincount(X2[:, p] * nb + Y2[:, q], minlength=c["na"] * nb).reshape(c["na"], nb).tolist()
             for q in range(Y2.shape[1])] for p in range(X2.shape[1])]


def translate(repo):
    out = dict(tr_info.translate(repo))
    out.update(tr_infopy.translate(repo))
    return out


def generate(rng, tier):
    k = 1 if tier == "quick" else 10
    cases = []
    for _ in range(170 * k):
        cases.append(_gen_jc(rng, tier == "thorough"))
    for _ in range(45 * k):
        cases.append(_gen_bad(rng))
    for _ in range(16 * k):
        cases.append(_gen_wide(rng))
    for _ in range(70 * k):
        cases.append(_gen_mi(rng))
    for _ in range(40 * k):
        cases.append(_gen_mitab(rng))
    for _ in range(40 * k):
        cases.append(_gen_mimat(rng))
    for _ in range(50 * k):
        cases.append(_gen_cc(rng))
    for _ in range(40 * k):
        cases.append(_gen_ent(rng))
    for _ in range(60 * k):
        cases.append(_gen_kl(rng))
    for _ in range(30 * k):
        cases.append(_gen_wmi(rng))
    for _ in range(60 * k):
        cases.append(_gen_micont(rng))
    for _ in range(6 * k):
        for d in DTYPES:
            cases.append(_gen_dmax(rng, d))
    for _ in range(30 * k):
        cases.append(_gen_mihist(rng))
    for i in range(6 if tier == "quick" else 24):
        cases.append(_gen_jcthr(rng, i))
    for _ in range(2 * k):
        for via in VIAS:
            for bad in XBADS:
                cases.append(_gen_jcx(rng, via, bad))
    # round 3s (E): numpy.matrix / list / tuple arguments of the entropy functions
    for i in range(36 * k):
        cases.append(_gen_ent_cont(rng, i))
    for i in range(70 * k):
        cases.append(_gen_kl_cont(rng, i))
    if tier == "thorough":
        # every dtype pair x every thread count on one fixed non-trivial input, and a thread sweep
        X = [[0, 1, 2], [1, 1, 0], [2, 0, 0], [1, 2, 1], [0, 1, 2]]
        Y = [[1, 0], [0, 0], [1, 1], [1, 0], [1, 0]]
        for dx in DTYPES:
            for dy in DTYPES:
                for thr in (1, 2, 3, 5, 16):
                    cases.append({"kind": "jc", "X": X, "Y": Y, "nx": 3, "ny": 2, "dx": dx, "dy": dy, "lx": "C",
                                  "ly": "F", "thr": thr, "bad": None, "oned": False})
        for thr in range(1, 17):
            c = _gen_jc(rng, True)
            c["thr"] = thr
            cases.append(c)
    return cases


# ----------------------------------------------------------------------------- implementation side
_gomp = None


def _set_threads(k):
    global _gomp
    import ctypes
    if _gomp is None:
        _gomp = ctypes.CDLL("libgomp.so.1")
    _gomp.omp_set_num_threads(int(k))
    return _gomp.omp_get_max_threads()


def _arr(rows, dtype, layout, width=None):
    if len(rows) == 0:
        return np.zeros((0, width or 1), dtype=dtype)
    a = np.array(rows, dtype=np.int64).astype(dtype)
    if layout == "F":
        return np.asfortranarray(a)
    if layout == "S":
        big = np.zeros((2 * a.shape[0] + 1, a.shape[1] + 2), dtype=dtype)
        big[1::2, 1:-1] = a
        return big[1::2, 1:-1]
    return np.ascontiguousarray(a)


def _as_container(a, cont):
    """the same cells as list / tuple / ndarray / numpy.matrix (a vector becomes a 1 x n row matrix, as np.matrix and
    scipy's .todense() make it)"""
    if cont == "list":
        return a.tolist() if isinstance(a, np.ndarray) else a
    if cont == "tuple":
        tup = lambda x: tuple(tup(y) for y in x) if isinstance(x, list) else x
        return tup(a.tolist() if isinstance(a, np.ndarray) else a)
    if cont == "ndarray":
        return np.array(a, dtype=float)
    if cont == "matrix":
        return np.matrix(np.array(a, dtype=float))
    if cont == "todense":
        import scipy.sparse as sp
        return sp.csr_matrix(np.atleast_2d(np.array(a, dtype=float))).todense()
    raise ValueError(cont)


def _fl(x):
    return [[float(v) for v in row] for row in np.asarray(x)]


def _run_jc(c):
    from enspara.info_theory import mutual_info as M
    got = _set_threads(c["thr"])
    X = _arr(c["X"], c["dx"], c["lx"], c.get("fx"))
    Y = None if c["Y"] is None else _arr(c["Y"], c["dy"], c["ly"], c.get("fy"))
    if c["oned"]:
        if X.shape[1] == 1:
            X = X[:, 0]
        if Y is not None and Y.shape[1] == 1:
            Y = Y[:, 0]
    try:
        jc = M.joint_counts(X, Y, c["nx"], c["ny"])
        return {"jc": jc.tolist(), "dtype": str(jc.dtype), "threads": got}
    except Exception as ex:
        return {"err": type(ex).__name__}


class _Worker:
    """The real code runs in a child process: an unchecked or mis-indexed id in the kernel is an
    out-of-bounds write, which must show up as a reported failure and not kill the runner."""
    proc = None

    @classmethod
    def call(cls, case):
        for attempt in range(2):
            if cls.proc is None or cls.proc.poll() is not None:
                env = dict(os.environ)
                env["PYTHONPATH"] = os.path.dirname(HERE) + os.pathsep + env.get("PYTHONPATH", "")
                cls.proc = subprocess.Popen([sys.executable, "-u", os.path.abspath(__file__), "--worker"],
                                            stdin=subprocess.PIPE, stdout=subprocess.PIPE,
                                            stderr=subprocess.DEVNULL, text=True, env=env)
            import threading
            proc = cls.proc
            timer = threading.Timer(180, proc.kill)
            timer.start()
            try:
                proc.stdin.write(json.dumps(case) + "\n")
                proc.stdin.flush()
                while True:
                    line = proc.stdout.readline()
                    if not line:
                        raise EOFError
                    if line.startswith("@@R "):
                        return json.loads(line[4:])
            except (EOFError, BrokenPipeError, OSError):
                try:
                    proc.kill()
                except OSError:
                    pass
                rc = proc.wait()
                cls.proc = None
                return {"err": "Crashed", "rc": rc}
            finally:
                timer.cancel()
        return {"err": "Crashed"}


def _poison(sizes):
    """free NaN-filled blocks of the given element counts so that NumPy's small-block cache hands them to the
    next allocations of those sizes (a masked ufunc without out= then shows its uninitialised cells)"""
    blocks = [np.full(max(1, int(n)), np.nan) for n in sizes for _ in range(2)]
    del blocks


def _mi_call(M, jc):
    s = jc.shape
    _poison([s[0] * s[1] * s[2], s[0] * s[1] * s[3], jc.size])
    try:
        return _fl(M.mutual_information(jc))
    except Exception as ex:
        return {"err": type(ex).__name__}


def run_impl(c):
    return _Worker.call(c)


def _run_local(c):
    from enspara.info_theory import mutual_info as M, entropy as E
    k = c["kind"]
    if k == "jc":
        return _run_jc(c)
    if k == "mi":
        _set_threads(4)
        X = np.array(c["X"]); Y = X if c["Y"] is None else np.array(c["Y"])
        nx, ny = c["nx"], c["ny"]
        try:
            jc = M.joint_counts(X, None, nx) if c["Y"] is None else M.joint_counts(X, Y, nx, ny)
            res = {"jc": jc.tolist(), "mi": _fl(M.mutual_information(jc))}
            px, py = np.array(c["permx"]), np.array(c["permy"])
            pad = lambda p, n: np.concatenate([p, np.arange(len(p), n)])
            if c["Y"] is None:
                Xr = pad(px, nx)[X]
                res["mi_relabel"] = _fl(M.mutual_information(M.joint_counts(Xr, None, nx)))
                o = np.array(c["order"])
                res["mi_perm"] = _fl(M.mutual_information(M.joint_counts(X[o], None, nx)))
            else:
                Xr, Yr = pad(px, nx)[X], pad(py, ny)[Y]
                res["mi_relabel"] = _fl(M.mutual_information(M.joint_counts(Xr, Yr, nx, ny)))
                o = np.array(c["order"])
                res["mi_perm"] = _fl(M.mutual_information(M.joint_counts(X[o], Y[o], nx, ny)))
            if c.get("hist"):
                j, sig = c["relabel_one"]      # relabel the states of ONE feature of Y
                Y2 = Y.copy()
                Y2[:, j] = np.array(sig)[Y[:, j]]
                res["mi_relabel_one"] = _fl(M.mutual_information(M.joint_counts(X, Y2, nx, ny)))
                h = c["cut"]                   # the same data as two pooled trajectories
                res["mi_mat"] = _fl(M.mi_matrix([X[:h], X[h:]], [Y[:h], Y[h:]], nx, ny, normalize=False))
            T = float(len(X))
            res["ent_x"] = [float(E.shannon_entropy(np.bincount(X[:, a], minlength=nx) / T, normalize=False))
                            for a in range(X.shape[1])]
            res["ent_y"] = [float(E.shannon_entropy(np.bincount(Y[:, b], minlength=ny) / T, normalize=False))
                            for b in range(Y.shape[1])]
            return res
        except Exception as ex:
            return {"err": type(ex).__name__}
    if k == "mitab":
        return {"mi": _mi_call(M, np.array(c["jc"], dtype=np.uint32))}
    if k == "mimat":
        captured = []
        orig = M.mutual_information

        def spy(jc):
            captured.append(np.array(jc).tolist())
            return orig(jc)
        M.mutual_information = spy
        try:
            Xs = [np.array(x) for x in c["Xs"]]
            Ys = [np.array(y) for y in c["Ys"]]
            nx = c["nx"] if isinstance(c["nx"], int) else np.array(c["nx"])
            ny = c["ny"] if isinstance(c["ny"], int) else np.array(c["ny"])
            out = M.mi_matrix(Xs, Ys, nx, ny, normalize=c["normalize"])
            return {"mi": _fl(out), "jc": captured[0] if captured else None}
        except Exception as ex:
            return {"err": type(ex).__name__}
        finally:
            M.mutual_information = orig
    if k == "micont":
        from enspara import ra
        captured = []
        orig = M.mutual_information

        def spy(jc):
            captured.append(np.array(jc).tolist())
            return orig(jc)

        def container(trajs, form):
            arrs = [np.array(t) for t in trajs]
            if form == "list":
                return arrs
            if form == "3d":
                return np.array(trajs)
            # lengths alternately as a Python list and as an ndarray: with a list of *equal* lengths the
            # constructor used to keep rows of dtype object, which the kernel refuses with TypeError
            # (fixed in /repo; see known_findings.txt) - a valid input must be counted whichever form is used
            lens = [len(t) for t in trajs]
            if (sum(lens) + len(lens)) % 2 == 0:
                lens = np.array(lens)
            return ra.RaggedArray(array=np.concatenate(arrs), lengths=lens)
        M.mutual_information = spy
        try:
            Xs, Ys = container(c["Xs"], c["cx"]), container(c["Ys"], c["cy"])
            out = M.mi_matrix(Xs, Ys, c["nx"], c["ny"], normalize=False)
            return {"mi": _fl(out), "jc": captured[0] if captured else None}
        except Exception as ex:
            return {"err": type(ex).__name__}
        finally:
            M.mutual_information = orig
    if k == "jcmax":
        got = _set_threads(c["thr"])
        X = np.array(c["X"], dtype=c["dx"])
        Y = None if c["Y"] is None else np.array(c["Y"], dtype=c["dy"])
        try:
            with warnings.catch_warnings():
                warnings.simplefilter("ignore")
                jc = M.joint_counts(X, Y, c["nx"], c["ny"])
            nz = np.argwhere(jc)
            return {"shape": list(jc.shape), "dtype": str(jc.dtype), "threads": got,
                    "nz": [[int(v) for v in idx] + [int(jc[tuple(idx)])] for idx in nz],
                    "totals": jc.sum(axis=(2, 3), dtype=np.int64).tolist()}
        except Exception as ex:
            return {"err": type(ex).__name__}
    if k == "jcx":
        from enspara.info_theory import libinfo
        _set_threads(c["thr"])

        def arr(rows, dt, f):
            a = np.zeros((0, f), dtype=dt) if len(rows) == 0 else np.array(rows, dtype=dt)
            if c["strided"]:
                big = np.zeros((a.shape[0], 3), dtype=dt)
                big[:, 1:2] = a
                a = big[:, 1:2]
            return a
        X, Y = arr(c["X"], c["dx"], c["fx"]), arr(c["Y"], c["dy"], c["fy"])
        via = c["via"]
        captured = []
        orig = M.mutual_information

        def spy(jc):
            captured.append(np.array(jc))
            return orig(jc)
        try:
            with warnings.catch_warnings():
                warnings.simplefilter("ignore")
                if via == "jc2d":
                    jc = M.joint_counts(X, Y, c["nx"], c["ny"])
                elif via == "jc1d":
                    jc = M.joint_counts(X[:, 0], Y[:, 0], c["nx"], c["ny"])
                elif via == "kernel1d":
                    jc = np.asarray(libinfo.bincount2d(X[:, 0], Y[:, 0], c["nx"], c["ny"]))[None, None]
                elif via == "kernel2d":
                    jc = libinfo.matrix_bincount2d(X, Y, c["nx"], c["ny"])
                else:
                    M.mutual_information = spy
                    Xs, Ys = [X], [Y]
                    if c["lead"]:
                        Xs.insert(0, np.array(c["lead"][0], dtype=c["dx"]))
                        Ys.insert(0, np.array(c["lead"][1], dtype=c["dy"]))
                    with np.errstate(all="ignore"):
                        M.mi_matrix(Xs, Ys, c["nx"], c["ny"], normalize=False)
                    jc = captured[0]
            jc = np.asarray(jc)
            return {"jc": jc.tolist(), "dtype": str(jc.dtype)}
        except Exception as ex:
            return {"err": type(ex).__name__}
        finally:
            M.mutual_information = orig
    if k == "jcthr":
        X, Y = _thr_data(c)
        ny = None if Y is None else c["nb"]
        tables, got = [], []
        try:
            for thr in c["threads"]:
                got.append(_set_threads(thr))
                reps = []
                for _ in range(c["repeats"]):
                    with warnings.catch_warnings():
                        warnings.simplefilter("ignore")
                        reps.append(M.joint_counts(X, Y, c["na"], ny).tolist())
                tables.append(reps)
            return {"tables": tables, "threads": got}
        except Exception as ex:
            return {"err": type(ex).__name__}
        finally:
            _set_threads(1)
    if k == "cc":
        mi = np.array([[float(F(x)) for x in row] for row in c["mi"]])
        before = mi.copy()
        try:
            out = M.channel_capacity_normalization(mi, c["nx"], c["ny"])
        except Exception as ex:
            return {"err": type(ex).__name__}
        grid = []
        for i in range(mi.shape[0]):
            row = []
            for j in range(mi.shape[1]):
                g = math.exp(mi[i, j] / out[i, j]) if out[i, j] > 0 else -1.0
                row.append(int(round(g)) if abs(g - round(g)) < 1e-6 else -1)
            grid.append(row)
        return {"out": _fl(out), "grid": grid, "input_unchanged": bool((mi == before).all())}
    if k == "ent":
        p = np.array([float(F(x)) for x in c["p"]])
        if c["two_d"]:
            p = p.reshape(c.get("rows", 2), -1)
        p = _as_container(p, c.get("cont", "ndarray"))
        before = np.array(p, dtype=float)
        _poison([before.size])
        try:
            h = float(E.shannon_entropy(p, normalize=c["normalize"]))
            return {"h": h, "input_unchanged": bool((np.asarray(p, dtype=float) == before).all()), "arg": type(p).__name__,
                    "arg_shape": list(np.shape(p))}
        except Exception as ex:
            return {"err": type(ex).__name__, "msg": str(ex)[:160], "arg": type(p).__name__, "arg_shape": list(np.shape(p))}
    if k == "kl":
        P = [float(F(x)) for x in c["P"]]
        Q = [float(F(x)) for x in c["Q"]]
        base = {"2": 2, "e": math.e, "10": 10}[c["base"]]
        if c["two_d"]:
            P, Q = [P, Q], [Q, Q]
        elif c.get("more"):
            P = [P] + [[float(F(x)) for x in m[0]] for m in c["more"]]
            Q = [Q] + [[float(F(x)) for x in m[1]] for m in c["more"]]
        cont = c.get("cont", "list")
        if cont in ("matrix-P", "matrix-Q") and not isinstance(P[0], list):
            P, Q = [P], [Q]                      # next to a 1 x n row matrix the other side is a 1 x n nested list
        try:
            P = _as_container(P, {"matrix-Q": "list", "matrix-P": "matrix"}.get(cont, cont))
            Q = _as_container(Q, {"matrix-P": "list", "matrix-Q": "matrix"}.get(cont, cont))
        except ValueError:
            pass                                 # rows of different lengths: handed over as they are (rejected input)
        info = {"arg": [type(P).__name__, type(Q).__name__], "arg_shape": [list(np.shape(P)) if not isinstance(P, list) else None]}
        try:
            d = E.kl_divergence(P, Q, base=base)
            return dict(info, d=[float(v) for v in np.asarray(d, dtype=float).ravel()], shape=list(np.shape(d)),
                        rtype=type(d).__name__)
        except Exception as ex:
            return dict(info, err=type(ex).__name__, msg=str(ex)[:160])
    if k == "wmi":
        X = np.array(c["X"])
        w = np.array([float(F(x)) for x in c["w"]])
        try:
            out = M.weighted_mi(X, w, n_feature_states=[c["n"]] * X.shape[1], normalize=False)
            plain = M.mutual_information(M.joint_counts(X, None, c["n"]))
            return {"wmi": _fl(out), "plain": _fl(plain)}
        except Exception as ex:
            return {"err": type(ex).__name__}
    raise ValueError(k)


# ----------------------------------------------------------------------------- exact reference
def _brute(X, Y, nx, ny):
    fa, fb = len(X[0]), len(Y[0])
    jc = [[[[0] * ny for _ in range(nx)] for _ in range(fb)] for _ in range(fa)]
    for t in range(len(X)):
        for a in range(fa):
            for b in range(fb):
                jc[a][b][X[t][a]][Y[t][b]] += 1
    return jc


def _tables(H):
    """exact (P_ab, P_a, P_b, cells) of one joint-count matrix, as mutual_information forms them"""
    nx = len(H)
    ny = len(H[0]) if nx else 0
    N = sum(map(sum, H))
    d = (lambda c: F(c, N)) if N > 0 else (lambda c: F(0))
    Pab = [[d(c) for c in row] for row in H]
    Pa = [d(sum(H[u])) for u in range(nx)]
    Pb = [d(sum(H[u][v] for u in range(nx))) for v in range(ny)]
    cells = [(Pab[u][v], Pa[u], Pb[v]) for u in range(nx) for v in range(ny)
             if not (Pab[u][v] == 0 or Pa[u] == 0 or Pb[v] == 0)]
    return Pab, Pa, Pb, cells


def _mi_val(H):
    s = 0.0
    for p, px, py in _tables(H)[3]:
        s += float(p) * math.log(float(p) / (float(px) * float(py)))
    return s


def _ent_val(ps):
    return -sum(float(p) * math.log(float(p)) for p in ps if p > 0)


def _close(a, b, tol=TOL):
    if isinstance(a, float) and isinstance(b, float) and (math.isinf(a) or math.isinf(b)):
        return a == b
    return abs(a - b) <= tol * max(1.0, abs(b))


def _valid_jc_inputs(c):
    """(X, Y, nx, ny) as the model sees them, or None when the input is malformed."""
    X = c["X"]
    Y = X if c["Y"] is None else c["Y"]
    if not X or not Y or len(X) != len(Y):
        return None
    nx = c["nx"] if c["nx"] is not None else max(max(r) for r in X) + 1
    ny = nx if c["Y"] is None else (c["ny"] if c["ny"] is not None else max(max(r) for r in Y) + 1)
    if any(v < 0 or v >= nx for r in X for v in r) or any(v < 0 or v >= ny for r in Y for v in r):
        return None
    return X, Y, nx, ny


def _cc_expected(c, rows, cols):
    def arr(n, dim):
        l = [n] * dim if isinstance(n, int) else list(n)
        if any(k < 2 for k in l) or len(l) != dim:
            return None
        return l
    nx, ny = arr(c["nx"], rows), arr(c["ny"], cols)
    if nx is None or ny is None:
        return None
    return [[min(x, y) for y in ny] for x in nx]


# ----------------------------------------------------------------------------- oracle
def oracle(c, r):
    out = []
    k = c["kind"]
    if isinstance(r, dict) and r.get("err") == "Crashed" and not (k in ("jc", "jcx") and c.get("bad")) and k != "jcmax":
        return [("crash", "the interpreter died while running this input (exit %s): memory corruption in the "
                 "kernel" % r.get("rc"))]
    if isinstance(r, dict) and str(r.get("err", "")).startswith("Unexpected:"):
        return [("harness", "harness error %s %s" % (r["err"], r.get("msg")))]
    if k == "jc":
        v = _valid_jc_inputs(c)
        if c["bad"] in ("neg", "big", "len"):
            if "err" not in r or r["err"] == "Crashed":
                out.append(("reject-" + c["bad"], "malformed input (%s) not rejected: %s" % (c["bad"], str(r)[:200])))
        elif c["bad"] == "empty":
            if r.get("err") == "Crashed":
                out.append(("reject-empty", "empty input crashed the interpreter"))
            elif c["Y"] is not None and len(c["X"]) != len(c["Y"]) and "err" not in r:
                # one array without frames against one with frames: feature arrays of different lengths
                out.append(("reject-len", "feature arrays of %d and %d frames not rejected: %s" % (
                    len(c["X"]), len(c["Y"]), str(r)[:200])))
        else:
            exp = _brute(*v)
            if r.get("jc") != exp:
                out.append(("counts", "joint_counts %s != exact counts %s" % (str(r)[:300], str(exp)[:300])))
            elif r.get("dtype") != "uint32":
                out.append(("counts", "dtype %s" % r.get("dtype")))
        return out
    if k == "mi":
        if "err" in r:
            return [("mi-value", "valid input raised %s" % r["err"])]
        X = c["X"]; Y = X if c["Y"] is None else c["Y"]
        nx = c["nx"]; ny = nx if c["Y"] is None else c["ny"]
        exp = _brute(X, Y, nx, ny)
        if r["jc"] != exp:
            out.append(("counts", "joint counts differ from exact counts"))
        T = len(X)
        hx = [_ent_val([F(sum(1 for t in range(T) if X[t][a] == u), T) for u in range(nx)]) for a in range(len(X[0]))]
        hy = [_ent_val([F(sum(1 for t in range(T) if Y[t][b] == u), T) for u in range(ny)]) for b in range(len(Y[0]))]
        for a in range(len(X[0])):
            if not _close(r["ent_x"][a], hx[a]):
                out.append(("entropy", "shannon_entropy of X marginal %d: %r vs %r" % (a, r["ent_x"][a], hx[a])))
        for b in range(len(Y[0])):
            if not _close(r["ent_y"][b], hy[b]):
                out.append(("entropy", "shannon_entropy of Y marginal %d: %r vs %r" % (b, r["ent_y"][b], hy[b])))
        for a in range(len(X[0])):
            for b in range(len(Y[0])):
                m = r["mi"][a][b]
                e = _mi_val(exp[a][b])
                if not _close(m, e):
                    out.append(("mi-value", "mi[%d][%d]=%r, formula gives %r" % (a, b, m, e)))
                if not (m >= -1e-12):
                    out.append(("mi-nonneg", "mi[%d][%d]=%r < 0" % (a, b, m)))
                if m > min(r["ent_x"][a], r["ent_y"][b]) + TOL:
                    out.append(("mi-le-entropy", "mi[%d][%d]=%r > min(H)=%r" % (a, b, m, min(r["ent_x"][a], r["ent_y"][b]))))
                if not _close(r["mi_relabel"][a][b], m):
                    out.append(("mi-relabel", "mi[%d][%d] %r -> %r after relabelling states" % (a, b, m, r["mi_relabel"][a][b])))
                if not _close(r["mi_perm"][a][b], m):
                    out.append(("mi-frame-order", "mi[%d][%d] %r -> %r after reordering frames" % (a, b, m, r["mi_perm"][a][b])))
                if c.get("hist"):
                    m1 = r["mi_relabel_one"][a][b]
                    if not _close(m1, m):
                        out.append(("mi-relabel", "mi[%d][%d] %r -> %r after relabelling the states of feature %d of Y "
                                    "only (Y has the same per-feature histograms as X: %s)" % (
                                        a, b, m, m1, c["relabel_one"][0], c["hist"])))
                    if not _close(r["mi_mat"][a][b], e):
                        out.append(("mi-value", "mi_matrix over the data cut in two trajectories: [%d][%d]=%r, "
                                    "formula on the pooled counts gives %r" % (a, b, r["mi_mat"][a][b], e)))
                if c["Y"] is None:
                    if not _close(r["mi"][b][a], m, 1e-12):
                        out.append(("mi-symmetric", "mi[%d][%d]=%r but mi[%d][%d]=%r" % (a, b, m, b, a, r["mi"][b][a])))
                    if a == b and not _close(m, r["ent_x"][a]):
                        out.append(("mi-diagonal", "mi[%d][%d]=%r but entropy %r" % (a, a, m, r["ent_x"][a])))
        return out
    if k == "mitab":
        if isinstance(r["mi"], dict):
            return [("mi-value", "mutual_information raised %s on a valid table" % r["mi"]["err"])]
        for a, row in enumerate(c["jc"]):
            for b, H in enumerate(row):
                m = r["mi"][a][b]
                e = _mi_val(H)
                if not _close(m, e):
                    out.append(("mi-value", "mi[%d][%d]=%r, formula gives %r" % (a, b, m, e)))
                if not (m >= -1e-12):
                    out.append(("mi-nonneg", "mi[%d][%d]=%r < 0" % (a, b, m)))
        return out
    if k == "mimat":
        feats = {(len(x[0]), len(y[0])) for x, y in zip(c["Xs"], c["Ys"])}
        if len(feats) > 1:
            if "err" not in r:
                out.append(("pooled", "trajectories with different feature counts accepted"))
            return out
        if "err" in r:
            return [("pooled", "valid input raised %s" % r["err"])]
        mx = c["nx"] if isinstance(c["nx"], int) else max(c["nx"])
        my = c["ny"] if isinstance(c["ny"], int) else max(c["ny"])
        X = [row for x in c["Xs"] for row in x]
        Y = [row for y in c["Ys"] for row in y]
        exp = _brute(X, Y, mx, my)
        if r["jc"] != exp:
            out.append(("pooled", "pooled table is not the count over all trajectories"))
        grid = _cc_expected(c, len(X[0]), len(Y[0]))
        for a in range(len(X[0])):
            for b in range(len(Y[0])):
                e = _mi_val(exp[a][b])
                if c["normalize"]:
                    e = e / math.log(grid[a][b])
                if not _close(r["mi"][a][b], e):
                    out.append(("cc-entry" if c["normalize"] else "mi-value",
                                "mi_matrix[%d][%d]=%r expected %r" % (a, b, r["mi"][a][b], e)))
        return out
    if k == "micont":
        lx, ly = [len(x) for x in c["Xs"]], [len(y) for y in c["Ys"]]
        if any(a != b for a, b in zip(lx, ly)):
            if "err" not in r:
                out.append(("reject-len", "trajectory lengths %s (%s) against %s (%s): feature arrays of different "
                            "lengths were not rejected; mi_matrix returned %s" % (lx, c["cx"], ly, c["cy"], str(r.get("mi"))[:200])))
            return out
        if len(lx) != len(ly):
            return out
        if "err" in r:
            return [("pooled", "valid input (%s / %s, lengths %s) raised %s" % (c["cx"], c["cy"], lx, r["err"]))]
        X = [row for x in c["Xs"] for row in x]
        Y = [row for y in c["Ys"] for row in y]
        exp = _brute(X, Y, c["nx"], c["ny"])
        if r["jc"] != exp:
            out.append(("pooled", "pooled table (%s / %s) is not the count over all trajectories" % (c["cx"], c["cy"])))
        for a in range(len(X[0])):
            for b in range(len(Y[0])):
                e = _mi_val(exp[a][b])
                if not _close(r["mi"][a][b], e):
                    out.append(("mi-value", "mi_matrix[%d][%d]=%r expected %r" % (a, b, r["mi"][a][b], e)))
        return out
    if k == "jcmax":
        idv, n, T = c["id"], c["n"], len(c["X"])
        dt = c["dx"] if c["side"] == "X" else c["dy"]
        if idv >= n:
            if "err" not in r or r["err"] == "Crashed":
                out.append(("reject-dtype-max", "state id %d (%s, largest value of the type %d) with n_%s=%d was not "
                            "rejected: %s" % (idv, dt, int(np.iinfo(dt).max), c["side"].lower(), n,
                                              ("per-pair totals %s, every entry should be %d frames" % (r.get("totals"), T))
                                              if "totals" in r else str(r)[:200])))
            return out
        if "err" in r:
            return [("counts", "valid input (id %d < n %d, %s) raised %s" % (idv, n, dt, r["err"]))]
        X = c["X"]
        Y, nx, ny = (X, c["nx"], c["nx"]) if c["Y"] is None else (c["Y"], c["nx"], c["ny"])
        exp = {}
        for t in range(T):
            for a in range(len(X[0])):
                for b in range(len(Y[0])):
                    key = (a, b, X[t][a], Y[t][b])
                    exp[key] = exp.get(key, 0) + 1
        got = {tuple(e[:4]): e[4] for e in r["nz"]}
        if r["shape"] != [len(X[0]), len(Y[0]), nx, ny] or r["dtype"] != "uint32":
            out.append(("counts", "table of shape %s %s, expected %s uint32" % (r["shape"], r["dtype"], [len(X[0]), len(Y[0]), nx, ny])))
        if got != exp:
            out.append(("counts", "joint counts with id %d (%s), n=%d: non-zero cells %s != exact counts %s" % (
                idv, dt, n, str(sorted(got.items()))[:300], str(sorted(exp.items()))[:300])))
        if any(v != T for row in r["totals"] for v in row):
            out.append(("counts", "per-pair totals %s, every entry should be %d frames" % (r["totals"], T)))
        return out
    if k == "jcx":
        entry = {"jc2d": "joint_counts (2-D arrays)", "jc1d": "joint_counts (1-D arrays)",
                 "kernel1d": "libinfo.bincount2d", "kernel2d": "libinfo.matrix_bincount2d",
                 "mimat": "mi_matrix"}[c["via"]]
        what = "%s, X %s %s, Y %s %s, n_x=%d, n_y=%d" % (entry, c["dx"], c["X"], c["dy"], c["Y"], c["nx"], c["ny"])
        if c["bad"]:
            if "err" not in r or r["err"] == "Crashed":
                key = {"wrap": "reject-wrap", "neg": "reject-neg", "big": "reject-big", "len": "reject-len",
                       "len0": "reject-len"}[c["bad"]]
                why = {"wrap": "state id %s outside [0, n) but congruent to the legal id %s modulo 2^%s" % (
                           (c.get("wrap") or {}).get("id"), (c.get("wrap") or {}).get("legal"), (c.get("wrap") or {}).get("mod")),
                       "neg": "negative state id", "big": "state id >= n", "len": "arrays of different lengths",
                       "len0": "an array without frames against one with %d frames" % max(len(c["X"]), len(c["Y"]))}[c["bad"]]
                out.append((key, "%s not rejected (%s): %s" % (why, what, str(r)[:200])))
            return out
        if "err" in r:
            return [("counts", "valid input raised %s (%s)" % (r["err"], what))]
        X, Y = c["X"], c["Y"]
        if c["lead"]:
            X, Y = c["lead"][0] + X, c["lead"][1] + Y
        exp = _brute(X, Y, c["nx"], c["ny"])
        if r.get("jc") != exp or r.get("dtype") != "uint32":
            out.append(("counts", "%s: table %s %s != exact counts %s" % (what, r.get("dtype"), str(r.get("jc"))[:300], str(exp)[:300])))
        return out
    if k == "jcthr":
        if "err" in r:
            return [("thread-counts", "valid input raised %s" % r["err"])]
        ref = _thr_reference(c)
        one = r["tables"][0][0]
        for ti, reps in enumerate(r["tables"]):
            for ri, tbl in enumerate(reps):
                if tbl != ref or tbl != one:
                    tot = [[sum(map(sum, H)) for H in row] for row in tbl]
                    out.append(("thread-counts", "%d thread(s) (requested %d), repeat %d: table %s differs from the NumPy count "
                                "%s / the single-thread table; per-pair totals %s of %d frames" % (
                                    r["threads"][ti], c["threads"][ti], ri, str(tbl)[:200], str(ref)[:200], tot, c["T"])))
                    if len(out) >= 3:
                        return out
        return out
    if k == "cc":
        rows, cols = len(c["mi"]), len(c["mi"][0])
        grid = _cc_expected(c, rows, cols)
        if grid is None:
            if "err" not in r:
                out.append(("cc-reject", "invalid state counts accepted"))
            return out
        if "err" in r:
            return [("cc-entry", "valid input raised %s" % r["err"])]
        for i in range(rows):
            for j in range(cols):
                e = float(F(c["mi"][i][j])) / math.log(grid[i][j])
                if not _close(r["out"][i][j], e, 1e-12):
                    out.append(("cc-entry", "entry (%d,%d)=%r expected mi/log(min(%s,%s))=%r" % (
                        i, j, r["out"][i][j], "n_x[i]", "n_y[j]", e)))
        if not r["input_unchanged"]:
            out.append(("cc-entry", "input matrix modified"))
        return out
    if k == "ent":
        if "err" in r:
            return [("entropy", "raised %s %s on a %s of shape %s" % (r["err"], r.get("msg", ""), r.get("arg"), r.get("arg_shape")))]
        p = [F(x) for x in c["p"]]
        if c["normalize"]:
            s = sum(p)
            p = [x / s for x in p]
        if not _close(r["h"], _ent_val(p)):
            out.append(("entropy", "shannon_entropy=%r expected %r (argument: %s of shape %s, normalize=%s)" % (
                r["h"], _ent_val(p), r.get("arg", "ndarray"), r.get("arg_shape"), c["normalize"])))
        return out
    if k == "kl":
        P = [F(x) for x in c["P"]]; Q = [F(x) for x in c["Q"]]
        if len(P) != len(Q) or any(x < 0 for x in P + Q):
            if "err" not in r:
                out.append(("kl-reject", "invalid distributions accepted: %s" % r))
            return out
        if "err" in r:
            return [("kl-value", "valid input raised %s %s (arguments: %s of shape %s)" % (
                r["err"], r.get("msg", ""), r.get("arg"), r.get("arg_shape")))]
        lb = {"2": math.log(2), "e": 1.0, "10": math.log(10)}[c["base"]]

        def kl(P, Q):
            if any(p > 0 and q == 0 for p, q in zip(P, Q)):
                return math.inf
            return sum(float(p) * math.log(float(p) / float(q)) for p, q in zip(P, Q) if p > 0) / lb
        exp = [kl(P, Q), kl(Q, Q)] if c["two_d"] else [kl(P, Q)]
        if c.get("more") and not c["two_d"]:
            exp += [kl([F(x) for x in m[0]], [F(x) for x in m[1]]) for m in c["more"]]
        if len(r["d"]) != len(exp):
            out.append(("kl-value", "%d distributions on each side but %d divergences (result shape %s; arguments %s)" % (
                len(exp), len(r["d"]), r.get("shape"), r.get("arg"))))
        for i, (d, e) in enumerate(zip(r["d"], exp)):
            if not _close(d, e):
                out.append(("kl-value", "kl[%d]=%r expected %r (arguments: %s of shape %s)" % (i, d, e, r.get("arg"), r.get("arg_shape"))))
            if c.get("more") and i >= 1 and not d >= -1e-12:
                out.append(("kl-nonneg", "relative entropy %r < 0 (row %d; arguments %s)" % (d, i, r.get("arg"))))
        d = r["d"][0]
        if sum(P) == 1 and sum(Q) == 1:
            if not d >= -1e-12:
                out.append(("kl-nonneg", "relative entropy %r < 0" % d))
            if not c.get("near") and (P == Q) != (abs(d) <= 1e-12):
                out.append(("kl-zero-iff-equal", "P==Q is %s but divergence %r" % (P == Q, d)))
            if c.get("near") and P == Q and abs(d) > 1e-15:
                out.append(("kl-zero-iff-equal", "equal distributions but divergence %r" % d))
            if c.get("near") and P != Q and not math.isinf(exp[0]):
                # tiny divergences: compare with a 60-digit evaluation, relative 1e-3 (cancellation in doubles)
                import decimal
                decimal.getcontext().prec = 60
                D = lambda x: decimal.Decimal(x.numerator) / decimal.Decimal(x.denominator)
                ex = sum(D(p) * (D(p) / D(q)).ln() for p, q in zip(P, Q) if p > 0) / decimal.Decimal(lb)
                if not (d > 0 and abs(d - float(ex)) <= 1e-2 * float(ex) + 1e-15):
                    out.append(("kl-zero-iff-equal", "different distributions, divergence %r but exact value %.6e" % (d, float(ex))))
        return out
    if k == "wmi":
        if "err" in r:
            return [("weighted", "raised %s" % r["err"])]
        X = c["X"]; w = [F(x) for x in c["w"]]
        f, n = len(X[0]), c["n"]
        for a in range(f):
            for b in range(f):
                pj = [[sum(w[t] for t in range(len(X)) if X[t][a] == u and X[t][b] == v) for v in range(n)] for u in range(n)]
                pa = [sum(w[t] for t in range(len(X)) if X[t][a] == u) for u in range(n)]
                pb = [sum(w[t] for t in range(len(X)) if X[t][b] == v) for v in range(n)]
                e = sum(float(pj[u][v]) * math.log(float(pj[u][v]) / float(pa[u] * pb[v]))
                        for u in range(n) for v in range(n) if pj[u][v] > 0)
                e = max(0.0, e)
                if not _close(r["wmi"][a][b], e):
                    out.append(("weighted", "weighted_mi[%d][%d]=%r expected %r" % (a, b, r["wmi"][a][b], e)))
                if c["uniform"] and not _close(r["wmi"][a][b], r["plain"][a][b]):
                    out.append(("weighted-uniform", "uniform weights: weighted %r vs unweighted %r" % (
                        r["wmi"][a][b], r["plain"][a][b])))
        return out
    return out


# ----------------------------------------------------------------------------- Coq side
def _zll(X):
    return clist(X, lambda row: clist(row, cz, "Z"), "(list Z)")


def _n4(jc):
    return clist(jc, lambda r1: clist(r1, lambda H: clist(H, lambda row: clist(row, cn, "nat"), "(list nat)"),
                                      "(list (list nat))"), "(list (list (list nat)))")


def _ql(l):
    return clist(l, cq, "Q")


def _q3l(cells):
    return clist(cells, lambda t: "(%s, %s, %s)" % (cq(t[0]), cq(t[1]), cq(t[2])), "(Q * Q * Q)")


def _mitab_lit(jc):
    def ent(H):
        Pab, Pa, Pb, cells = _tables(H)
        return "(%s, %s, %s, %s)" % (clist(Pab, _ql, "(list Q)"), _ql(Pa), _ql(Pb), _q3l(cells))
    ty = "(list (list Q) * list Q * list Q * list (Q * Q * Q))"
    return clist(jc, lambda row: clist(row, ent, ty), "(list %s)" % ty)


def _jc_term(c):
    X = c["X"]
    Y = c["Y"]
    return "joint_counts %s %s %s %s" % (
        _zll(X), "None" if Y is None else "(Some %s)" % _zll(Y), copt(c["nx"], cz, "Z"), copt(c["ny"], cz, "Z"))


_DT = {"int8": "I8", "int16": "I16", "int32": "I32", "int64": "I64", "uint8": "U8", "uint16": "U16", "uint32": "U32",
       "uint64": "U64"}


def _ndarr(rows, dtype, oned=False):
    """the array as the real code receives it: values after conversion to `dtype`, rank-1 flag"""
    stored = np.array(rows, dtype=np.int64).astype(dtype).tolist() if rows else []
    is1d = bool(oned and rows and len(rows[0]) == 1)
    return "{| dt := %s; is1d := %s; vals := %s |}" % (_DT[dtype], cb(is1d), _zll(stored))


def _ndarr_exact(rows, dtype):
    """as _ndarr, for values that are already values of `dtype` (incl. the largest ones)"""
    return "{| dt := %s; is1d := false; vals := %s |}" % (_DT[dtype], _zll(np.array(rows, dtype=dtype).tolist()))


def _gen_jc_term(c):
    """joint_counts as regenerated from mutual_info.py (dtype harmonisation, defaults, 1-D expansion included)"""
    Y = "None" if c["Y"] is None else "(Some %s)" % _ndarr(c["Y"], c["dy"], c["oned"])
    return "gen_joint_counts %s %s %s %s" % (_ndarr(c["X"], c["dx"], c["oned"]), Y, copt(c["nx"], cz, "Z"),
                                            copt(c["ny"], cz, "Z"))


def _states(n):
    return "(inl %s)" % cz(n) if isinstance(n, int) else "(inr %s)" % clist(n, cz, "Z")


def coq_check(c, r):
    k = c["kind"]
    if k == "jc":
        if r.get("err") == "Crashed":
            return None
        exp = "(Some %s)" % _n4(r["jc"]) if "jc" in r else "(@None tbl4)"
        t = "opt_eqb nl4_eqb (%s) %s" % (_jc_term(c), exp)
        if c["nx"] is not None and (c["Y"] is None or c["ny"] is not None):
            # the text regenerated from libinfo.pyx, evaluated on the same input
            Y = c["X"] if c["Y"] is None else c["Y"]
            ny = c["nx"] if c["Y"] is None else c["ny"]
            t = "(%s) && opt_eqb nl4_eqb (gen_matrix_bincount2d %s %s %s %s) %s" % (
                t, _zll(c["X"]), _zll(Y), cz(c["nx"]), cz(ny), exp)
        # the text regenerated from mutual_info.py:joint_counts, on the typed arrays
        t = "(%s) && opt_eqb nl4_eqb (%s) %s" % (t, _gen_jc_term(c), exp)
        return t
    if k == "mi":
        if "err" in r:
            return None
        cc = dict(c)
        if c["Y"] is None:
            cc["ny"] = None
        return "omap_eqb mitab_eqb mi_tables (%s) (Some %s)" % (_jc_term(cc), _mitab_lit(r["jc"]))
    if k == "mitab":
        return "mitab_eqb (mi_tables %s) %s" % (_n4(c["jc"]), _mitab_lit(c["jc"]))
    if k == "mimat":
        mx = c["nx"] if isinstance(c["nx"], int) else max(c["nx"])
        my = c["ny"] if isinstance(c["ny"], int) else max(c["ny"])
        xys = clist(list(zip(c["Xs"], c["Ys"])), lambda p: "(%s, %s)" % (_zll(p[0]), _zll(p[1])))
        exp = "(Some %s)" % _n4(r["jc"]) if r.get("jc") is not None else "(@None tbl4)"
        t = "opt_eqb nl4_eqb (pooled_counts %s %s %s) %s" % (xys, cz(mx), cz(my), exp)
        if len(c["Xs"]) == len(c["Ys"]):
            # the pooling loop regenerated from mutual_info.py:mi_matrix
            t = "(%s) && opt_eqb nl4_eqb (gen_mi_matrix_counts %s %s %s %s) %s" % (
                t, clist(c["Xs"], lambda x: _ndarr(x, "int64"), "ndarr"), clist(c["Ys"], lambda y: _ndarr(y, "int64"), "ndarr"),
                _states(c["nx"]), _states(c["ny"]), exp)
        if c["normalize"] and "err" not in r:
            fa, fb = len(c["Xs"][0][0]), len(c["Ys"][0][0])
            t = "(%s) && negb (opt_eqb zll_eqb (cc_grid %s %s %s %s) None)" % (t, cn(fa), cn(fb), _states(c["nx"]), _states(c["ny"]))
        return t
    if k == "micont":
        if r.get("err") == "Crashed":
            return None
        pairs = list(zip(c["Xs"], c["Ys"]))      # the loop of mi_matrix runs over zip(Xs, Ys)
        xys = clist(pairs, lambda p: "(%s, %s)" % (_zll(p[0]), _zll(p[1])))
        exp = "(Some %s)" % _n4(r["jc"]) if r.get("jc") is not None else "(@None tbl4)"
        t = "opt_eqb nl4_eqb (pooled_counts %s %s %s) %s" % (xys, cz(c["nx"]), cz(c["ny"]), exp)
        if len(c["Xs"]) == len(c["Ys"]):
            t = "(%s) && opt_eqb nl4_eqb (gen_mi_matrix_counts %s %s %s %s) %s" % (
                t, clist(c["Xs"], lambda x: _ndarr(x, "int64"), "ndarr"), clist(c["Ys"], lambda y: _ndarr(y, "int64"), "ndarr"),
                _states(c["nx"]), _states(c["ny"]), exp)
        return t
    if k == "jcx":
        if r.get("err") == "Crashed":
            return None
        exp = "(Some %s)" % _n4(r["jc"]) if "jc" in r else "(@None tbl4)"
        pairs = ([tuple(c["lead"])] if c["lead"] else []) + [(c["X"], c["Y"])]
        if c["via"] == "mimat":
            return "opt_eqb nl4_eqb (pooled_counts %s %s %s) %s" % (
                clist(pairs, lambda p: "(%s, %s)" % (_zll(p[0]), _zll(p[1]))), cz(c["nx"]), cz(c["ny"]), exp)
        t = "opt_eqb nl4_eqb (joint_counts %s (Some %s) (Some %s) (Some %s)) %s" % (
            _zll(c["X"]), _zll(c["Y"]), cz(c["nx"]), cz(c["ny"]), exp)
        if c["via"] in ("jc2d", "kernel2d"):
            t = "(%s) && opt_eqb nl4_eqb (gen_matrix_bincount2d %s %s %s %s) %s" % (
                t, _zll(c["X"]), _zll(c["Y"]), cz(c["nx"]), cz(c["ny"]), exp)
        return t
    if k == "jcmax":
        if r.get("err") == "Crashed":
            return None
        if "err" in r:
            exp = "(@None tbl4)"
        else:
            sh = r["shape"]
            if sh[0] * sh[1] * sh[2] * sh[3] > 2500:
                return None
            jc = np.zeros(sh, dtype=np.int64)
            for e in r["nz"]:
                jc[tuple(e[:4])] = e[4]
            exp = "(Some %s)" % _n4(jc.tolist())
        t = "opt_eqb nl4_eqb (%s) %s" % (_jc_term(c), exp)
        if all(v < 2 ** 63 for A in (c["X"], c["Y"] or []) for row in A for v in row):
            Y = "None" if c["Y"] is None else "(Some %s)" % _ndarr_exact(c["Y"], c["dy"])
            t = "(%s) && opt_eqb nl4_eqb (gen_joint_counts %s %s %s %s) %s" % (
                t, _ndarr_exact(c["X"], c["dx"]), Y, copt(c["nx"], cz, "Z"), copt(c["ny"], cz, "Z"), exp)
        return t
    if k == "cc":
        rows, cols = len(c["mi"]), len(c["mi"][0])
        exp = "(Some %s)" % clist(r["grid"], lambda row: clist(row, cz, "Z"), "(list Z)") if "grid" in r else "(@None (list (list Z)))"
        return "opt_eqb zll_eqb (cc_grid %s %s %s %s) %s && opt_eqb zll_eqb (gen_cc_min_num_states %s %s %s %s) %s" % (
            cn(rows), cn(cols), _states(c["nx"]), _states(c["ny"]), exp,
            cn(rows), cn(cols), _states(c["nx"]), _states(c["ny"]), exp)
    if k == "ent":
        p = [F(x) for x in c["p"]]
        q = p
        if c["normalize"]:
            s = sum(p)
            q = [x / s for x in p]
        cells = [x for x in q if x > 0]
        return "ql_eqb (entropy_cells %s %s) %s" % (cb(c["normalize"]), _ql(p), _ql(cells))
    if k == "kl":
        P = [F(x) for x in c["P"]]; Q = [F(x) for x in c["Q"]]
        if "err" in r:
            exp = "Err"
        elif math.isinf(r["d"][0]):
            exp = "Inf"
        else:
            exp = "(Fin %s)" % clist([(p, q) for p, q in zip(P, Q) if p != 0],
                                     lambda t: "(%s, %s)" % (cq(t[0]), cq(t[1])), "(Q * Q)")
        return "ext_eqb (list_eqb q2_eqb) (kl_cells %s %s) %s" % (_ql(P), _ql(Q), exp)
    if k == "wmi":
        X = c["X"]; w = [F(x) for x in c["w"]]
        f, n = len(X[0]), c["n"]
        terms = []
        for a in range(f):
            for b in range(f):
                pj = [sum(w[t] for t in range(len(X)) if X[t][a] == u and X[t][b] == v) for u in range(n) for v in range(n)]
                terms.append("ql_eqb (flat_map (fun u => map (fun v => wjoint %s %s %s %s u v) (zrange %s)) (zrange %s)) %s" % (
                    _zll(X), _ql(w), cn(a), cn(b), cz(n), cz(n), _ql(pj)))
            pa = [sum(w[t] for t in range(len(X)) if X[t][a] == u) for u in range(n)]
            terms.append("ql_eqb (map (fun u => wmarg %s %s %s u) (zrange %s)) %s" % (_zll(X), _ql(w), cn(a), cz(n), _ql(pa)))
        return " && ".join("(%s)" % t for t in terms)
    return None


def coq_show(c):
    k = c["kind"]
    if k == "jc":
        return _jc_term(c)
    if k == "mi":
        cc = dict(c)
        if c["Y"] is None:
            cc["ny"] = None
        return "option_map mi_tables (%s)" % _jc_term(cc)
    if k == "mitab":
        return "mi_tables %s" % _n4(c["jc"])
    if k == "mimat":
        mx = c["nx"] if isinstance(c["nx"], int) else max(c["nx"])
        my = c["ny"] if isinstance(c["ny"], int) else max(c["ny"])
        xys = clist(list(zip(c["Xs"], c["Ys"])), lambda p: "(%s, %s)" % (_zll(p[0]), _zll(p[1])))
        return "pooled_counts %s %s %s" % (xys, cz(mx), cz(my))
    if k == "micont":
        xys = clist(list(zip(c["Xs"], c["Ys"])), lambda p: "(%s, %s)" % (_zll(p[0]), _zll(p[1])))
        return "pooled_counts %s %s %s" % (xys, cz(c["nx"]), cz(c["ny"]))
    if k == "jcx":
        return "joint_counts %s (Some %s) (Some %s) (Some %s)" % (_zll(c["X"]), _zll(c["Y"]), cz(c["nx"]), cz(c["ny"]))
    if k == "jcmax":
        return "match %s with Some _ => true | None => false end" % _jc_term(c)
    if k == "cc":
        return "cc_grid %s %s %s %s" % (cn(len(c["mi"])), cn(len(c["mi"][0])), _states(c["nx"]), _states(c["ny"]))
    if k == "ent":
        return "entropy_cells %s %s" % (cb(c["normalize"]), _ql([F(x) for x in c["p"]]))
    if k == "kl":
        return "kl_cells %s %s" % (_ql([F(x) for x in c["P"]]), _ql([F(x) for x in c["Q"]]))
    if k == "wmi":
        return "map (fun u => wmarg %s %s 0%%nat u) (zrange %s)" % (_zll(c["X"]), _ql([F(x) for x in c["w"]]), cz(c["n"]))
    return "tt"


def nontrivial(c, r):
    k = c["kind"]
    if k in ("jc", "mi"):
        X = c["X"]
        return (not c.get("bad")) and len(X) >= 2 and len({v for row in X for v in row}) >= 2 and "err" not in r
    if k == "micont":
        return "err" not in r and [len(x) for x in c["Xs"]] == [len(y) for y in c["Ys"]]
    if k == "jcmax":
        return "err" not in r and c["id"] < c["n"]
    if k == "jcx":
        return (not c["bad"]) and "err" not in r and len(c["X"]) >= 2 and len({v for row in c["X"] + c["Y"] for v in row}) >= 2
    if k == "jcthr":
        return "err" not in r
    if k == "mitab":
        return any(sum(1 for row in H for v in row if v) >= 2 for r1 in c["jc"] for H in r1)
    if k == "mimat":
        return len(c["Xs"]) >= 2 and "err" not in r
    if k == "cc":
        return "err" not in r and (len(c["mi"]) != len(c["mi"][0]) or c["nx"] != c["ny"])
    if k == "ent":
        return sum(1 for x in c["p"] if F(x) > 0) >= 2
    if k == "kl":
        return "err" not in r and sum(1 for x in c["P"] if F(x) > 0) >= 2
    if k == "wmi":
        return "err" not in r and len(c["X"]) >= 2
    return False


def tags(c, r):
    k = c["kind"]
    t = [k]
    if k == "jc":
        if c["bad"]:
            t.append("bad-" + c["bad"])
            t.append("rejected" if "err" in r and r["err"] != "Crashed" else "not-rejected")
        else:
            t += ["dtype-x-" + c["dx"], "layout-" + c["lx"], "threads-%d" % r.get("threads", 0)]
            if c["dx"] != c["dy"]:
                t.append("mixed-dtypes")
            if c["Y"] is None:
                t.append("self")
            elif len(c["X"][0]) != len(c["Y"][0]):
                t.append("different-feature-counts")
            if c["nx"] is None:
                t.append("default-n")
            if c["oned"]:
                t.append("one-d")
            if c.get("wide"):
                t.append("ids-near-dtype-limit")
        if c["nx"] is not None and (c["Y"] is None or c["ny"] is not None) and r.get("err") != "Crashed":
            t.append("generated-text-evaluated")
        if r.get("err") != "Crashed":
            t.append("generated-python-evaluated")
            if not c["bad"] and c["Y"] is not None and c["dx"] != c["dy"]:
                t.append("generated-harmonisation-evaluated")
    if k == "mi":
        t.append("mi-self" if c["Y"] is None else "mi-two-sided")
        if c.get("hist"):
            t += ["same-histograms", "hist-" + c["hist"]]
    if k == "micont":
        t += sorted({"container-" + c["cx"], "container-" + c["cy"]}) + ["traj-len-" + c["mode"]]
        if c["cx"] != c["cy"]:
            t.append("container-mixed")
        if "err" in r:
            t.append("pooled-rejected")
        if c["mode"] != "ok" and c["cx"] == c["cy"] == "ragged":
            t.append("ragged-both-mismatch")
    if k == "jcmax":
        t += ["dtype-max-" + (c["dx"] if c["side"] == "X" else c["dy"]), "dtype-max-side-" + c["side"],
              "dtype-max-rejected" if "err" in r else "dtype-max-accepted"]
        if c["id"] == c["n"]:
            t.append("dtype-max-id-equals-n")
    if k == "jcx":
        b = c["bad"] or "valid"
        t += ["via-" + c["via"], "jcx-" + b, "via-%s-%s" % (c["via"], b),
              "jcx-rejected" if "err" in r and r["err"] != "Crashed" else "jcx-accepted"]
        if c["bad"] == "wrap":
            t += ["wrap-mod-2^%d" % c["wrap"]["mod"], "wrap-dtype-" + (c["dx"] if c["side"] == "X" else c["dy"])]
        if c["bad"] == "len0":
            t.append("len0-side-" + c["side"])
        if c["strided"]:
            t.append("jcx-strided-1d")
        if c["lead"]:
            t.append("jcx-pooled-after-valid-pair")
    if k == "jcthr":
        t.append("single-pair-threads" if (c["fa"], c["fb"]) == (1, 1) else "multi-pair-threads")
        t.append("thr-form-" + c["form"])
    if k == "mitab" and any(sum(map(sum, H)) == 0 for r1 in c["jc"] for H in r1):
        t.append("never-observed-pair")
    if k == "mimat":
        t.append("normalized" if c["normalize"] else "raw")
        if "err" in r:
            t.append("pooled-rejected")
    if k == "cc":
        t.append("cc-rejected" if "err" in r else ("cc-nonsquare" if len(c["mi"]) != len(c["mi"][0]) else "cc-square"))
    if k == "kl" and "d" in r:
        t.append("kl-inf" if math.isinf(r["d"][0]) else ("kl-zero" if r["d"][0] == 0 else "kl-pos"))
    if k == "kl" and "err" in r:
        t.append("kl-rejected")
    if k == "kl" and c.get("near"):
        t.append("kl-near-equal")
    if k == "kl" and c.get("cont"):
        form = "two" if c["two_d"] else "square" if c.get("more") else "row"
        t.append("kl-arg-" + c["cont"])
        if "matrix" in r.get("arg", []) and "err" not in r:
            t.append("kl-matrix-" + form)
    if k == "ent" and c.get("cont"):
        t.append("ent-arg-" + c["cont"])
        if r.get("arg") == "matrix" and "err" not in r:
            sh = r.get("arg_shape") or [0, 0]
            t.append("ent-matrix-square" if sh[0] == sh[1] and sh[0] >= 2 else "ent-matrix-row" if sh[0] == 1 else "ent-matrix-2d")
            t.append("ent-matrix-normalize-on" if c["normalize"] else "ent-matrix-normalize-off")
    if k == "wmi":
        t.append("uniform-weights" if c["uniform"] else "general-weights")
    return t


ESSENTIAL_TAGS = ["jc", "generated-text-evaluated", "generated-python-evaluated", "generated-harmonisation-evaluated", "ids-near-dtype-limit", "default-n", "bad-neg", "bad-big", "bad-len", "mixed-dtypes", "different-feature-counts", "self",
                  "layout-F", "layout-S", "mi-self", "mi-two-sided", "never-observed-pair", "normalized",
                  "cc-nonsquare", "cc-rejected", "kl-inf", "kl-zero", "kl-pos", "kl-near-equal", "uniform-weights", "general-weights",
                  "container-ragged", "container-list", "container-3d", "traj-len-ok", "traj-len-eqtotal", "traj-len-uneq",
                  "traj-len-ktraj", "ragged-both-mismatch", "dtype-max-rejected", "dtype-max-accepted",
                  "dtype-max-id-equals-n", "dtype-max-side-X", "dtype-max-side-Y", "same-histograms", "hist-roll",
                  "hist-shuffle", "hist-balanced", "single-pair-threads", "thr-form-1d", "thr-form-col"] + \
                 ["dtype-max-" + d for d in DTYPES] + \
                 ["via-%s-%s" % (v, b or "valid") for v in VIAS for b in sorted(set(XBADS), key=str)] + \
                 ["wrap-mod-2^8", "wrap-mod-2^16", "wrap-mod-2^32", "wrap-dtype-int64", "wrap-dtype-uint64",
                  "len0-side-X", "len0-side-Y", "jcx-rejected", "jcx-accepted"] + \
                 ["kl-arg-" + x for x in sorted(set(KL_CONTS))] + ["ent-arg-" + x for x in sorted(set(ENT_CONTS))] + \
                 ["kl-matrix-row", "kl-matrix-square", "kl-matrix-two", "ent-matrix-square", "ent-matrix-row",
                  "ent-matrix-normalize-on", "ent-matrix-normalize-off"]


if __name__ == "__main__" and "--worker" in sys.argv:
    import logging
    logging.disable(logging.CRITICAL)
    import bootstrap
    bootstrap.install()
    for line in sys.stdin:
        if not line.strip():
            continue
        case = json.loads(line)
        try:
            res = _run_local(case)
        except Exception as ex:
            res = {"err": "Unexpected:" + type(ex).__name__, "msg": str(ex)[:300]}
        sys.stdout.write("@@R " + json.dumps(res) + "\n")
        sys.stdout.flush()
