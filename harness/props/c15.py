"""C15: stored and bulk-loaded data come back bit-identical.

Real round trips through PyTables (ra.save / ra.load) in a temporary directory under /tmp (removed
after every case), the striped loaders of enspara.mpi.io at world size 1 (and, for the file-order and long-row
streams, on every rank of world sizes 2..4, simulated rank by rank: see _world), and
load_as_concatenated on the bundled test trajectories with 1, 2, (3) and 4 worker processes.
Every array item is handed to the Coq model as its *bit pattern* (an integer), so equality in the
model is bit identity.
"""
import contextlib, copy, hashlib, logging, math, os, shutil, sys, tempfile
import numpy as np
from core import cz, cn, cb, clist, copt, REPO, VERIF
sys.path.insert(0, os.path.join(VERIF, "translator"))
import tr_store

PID = "C15"
PROPS_FILE = "Props/C15.v"
MODEL_TARGETS = ["Model/Store.vo", "Base/StoreBase.vo", "Gen/StoreGen.vo"]
GEN_FILES = ["Gen/StoreGen.v"]
# g_*: the definitions regenerated from the current sources (Gen/StoreGen.v), evaluated next to the hand model
CASE_HEADER = ("From Coq Require Import List ZArith.\nFrom EV Require Import PySlice Store StoreBase StoreGen.\n"
               "Import ListNotations.\nOpen Scope bool_scope.\nOpen Scope nat_scope.\n"
               "Definition g_names (tag : str) (w : Z) (n : nat) : list str :=\n"
               "  map (fun i => gen_key tag (Z.of_nat i) w) (seq 0 n).\n"
               "Definition g_ra_ok (tail : list nat) (s : Z) (sel : list (list elem)) (lens : list Z) (data : list elem) : bool :=\n"
               "  let gl := map (fun r => gen_load_len (zlen r) s) sel in\n"
               "  negb (gen_single_key_test (zlen sel)) && leqb Z.eqb gl lens &&\n"
               "  opt_eqb (leqb elem_eqb) (gen_ra_fill s sel (repeat (zero_elem tail) (Z.to_nat (zsum gl)))) (Some data).\n"
               "Definition g_nd_ok (s : Z) (sel : list (list elem)) (data : list elem) : bool :=\n"
               "  gen_single_key_test (zlen sel) && match sel with [r] => leqb elem_eqb (gen_single_read s r) data | _ => false end.\n"
               "Definition g_h5_ok (s : Z) (rows : list (list elem)) (lens : list Z) : bool :=\n"
               "  leqb Z.eqb (map (fun r => gen_h5_global_len (zlen r) s) rows) lens &&\n"
               "  leqb (leqb elem_eqb) (gen_stripe 0 1 rows) rows.\n"
               "Definition g_npy_ok (tail : list nat) (s : Z) (files : list (list elem)) (lens : list Z) (data : list elem) : bool :=\n"
               "  let gl := map (fun r => gen_npy_global_len (zlen r) s) files in\n"
               "  leqb Z.eqb gl lens &&\n"
               "  opt_eqb (leqb elem_eqb) (gen_npy_fill s (gen_stripe 0 1 files)\n"
               "                             (repeat (zero_elem tail) (Z.to_nat (zsum (gen_stripe 0 1 gl))))) (Some data).\n"
               "Definition g_npy_ok_at (rank size : Z) (tail : list nat) (s : Z) (files : list (list elem)) (lens : list Z) (data : list elem) : bool :=\n"
               "  let gl := map (fun r => gen_npy_global_len (zlen r) s) files in\n"
               "  leqb Z.eqb gl lens &&\n"
               "  opt_eqb (leqb elem_eqb) (gen_npy_fill s (gen_stripe rank size files)\n"
               "                             (repeat (zero_elem tail) (Z.to_nat (zsum (gen_stripe rank size gl))))) (Some data).\n"
               "Definition g_lac_ok (sched : list nat) (zero : elem) (lens : list Z) (blocks : list (list elem)) (xyz : list elem) : bool :=\n"
               "  opt_eqb (leqb elem_eqb) (gen_run_jobs (pick_jobs (combine (gen_offsets lens) blocks) sched)\n"
               "                                        (repeat zero (Z.to_nat (zsum lens)))) (Some xyz).\n")
RULE = ("(ra) RaggedArray / ndarray inputs with 1..300 rows (row counts around the digit-count boundaries 9/10/11 and "
        "99/100/101 always present; all of 1..120 in thorough), row lengths 1..6, 1-D and multi-dimensional elements, "
        "13 dtypes incl. NaN/-0.0/inf/denormal bit patterns, strides 1..7, all rows / row subsets (reordered, repeated, "
        "single), compression 0/1/9, several tags; saved with ra.save, loaded with ra.load and with "
        "mpi.io.load_h5_as_striped (world size 1); zero-length rows as the rejected class. "
        "(raw) HDF5 files written directly with PyTables in shuffled creation order with arbitrary node names, mixed "
        "dtypes / trailing shapes, missing and empty key lists: error-vs-value and listing order. "
        "(npy) load_npy_as_striped on generated .npy files with stride. "
        "(lac) load_as_concatenated on enspara/test/data trajectories (xtc, h5, pdb), per-file stride / atom selection / "
        "frame keyword, lengths hint or sounding, processes 1, 2 and 4, compared with the individually loaded files; the "
        "model is run under a random completion order of the workers. "
        "On every ra / npy / compared lac case the definitions regenerated from the current sources (Gen/StoreGen.v: node "
        "names, announced lengths, fill loops, single-key read, offsets + worker windows under the case's completion order, "
        "ordered length collection, rank stripe at world size 1) are evaluated next to the hand model and compared with the "
        "node names, lengths and data the real code produced. (long / lachist) oracle-only: rows of 65537..131075 items "
        "with strides 3/5/7/10/1000; reloading after one file was rewritten with another frame count. "
        "(longrow) oracle-only: one file per case holding a row of > 2^20 and a row of > 2^21 items (> 2^24 once in "
        "thorough) next to rows of 1..9 items, int8/uint8 (int16/float32 in thorough), 1-D and 2-D items, item i of row k = "
        "(i + 17k) mod 251 (32749 / 2^24); loaded with strides 3, 5, 7, 1000003 and one of 1/2/6/9/10/11/13/1000/4097/65537/"
        "2^20+-1, all keys and key subsets (one long row; long rows reversed plus a repeat; a permutation; a sorted "
        "subset), and through load_h5_as_striped at world sizes 1 and 2; the first differing item is reported. "
        "(keys-permuted) ra cases whose keys= names every row once in reversed / rotated / shuffled order, rows of unequal "
        "and of equal length, strided rows pairwise different, 2..12 rows (..101 in thorough). "
        "(ord) 2..13 .npy files of pairwise different contents (different strided lengths, or all equal) whose caller's "
        "order is not the lexicographic one -- unpadded trj-0..trj-12 in numeric order, directories listed in reverse, one "
        "base name in several unordered directories, shuffled names -- loaded with load_npy_as_striped, "
        "cluster.util.load_features (npy and h5 branch) and load_h5_as_striped (the rows saved with ra.save) on EVERY rank "
        "of world sizes 1..4 (enspara.mpi.rank/size replaced, rank 0's bcast replayed), strides 1..3: global lengths and "
        "each rank's stripe against the caller's order, and against the model's loaders at that (rank, size). "
        "(lac-sounded-distinct) 3..5 files of >= 2 types with pairwise different strided lengths, no lengths= hint, "
        "processes 1, 2, 3 and 4. "
        "(resave, round 3s) file histories: one or two arrays (more rows / a row count of another decimal width / a ragged "
        "array before a single array and vice versa / the same row count; same or other tag and element type) are saved to "
        "a path, then the case's array is saved to the SAME path and every ra check (node names, full / strided / subset "
        "load, striped load, model file) runs on that file. "
        "(lac2, round 3s) load histories, oracle-only: 2..3 bulk loads in one process (load_as_concatenated with 1..3 "
        "workers, with / without lengths hint, concatenate_trjs) of small trajectory files cut from frame0.h5 -- other files "
        "of equal total length, the same files with another atom selection of equal size, or other files of unequal total "
        "(control) -- every returned array is KEPT and compared (digest taken at return and again after the last load) with "
        "its own expected concatenation. "
        "(zrow, round 3s second wave) .h5 files written directly with PyTables EArrays in which one or two TABLES HAVE ZERO "
        "ROWS (first / middle / last / two / random positions; ra.save never writes one), node names as ra.save gives them "
        "(tag_0i, zero-padded) or another tag, 2..8 tables, 6 dtypes, 1-D and multi-dimensional items, strides 1..3: ra.load "
        "of the file (all keys, strided) is the reference -- one length per table, zeros included, strided load = slicing "
        "the full load -- and load_h5_as_striped on EVERY rank of world sizes 1..4 must report the same global lengths and "
        "hold tables r, r+n, ... strided (also a rank whose tables are all empty); model: load / load_h5_as_striped on the "
        "file as a node list. "
        "(lac / lac2 with `selform`, round 3s third wave) ATOM SELECTIONS THAT ARE NOT ASCENDING (descending, rotated, one "
        "adjacent swap, shuffled, all 22 atoms backwards), as one selection for all files (**kwargs; all .xtc or all .h5) "
        "and as one selection per file (args=[...]; mixed .xtc/.h5/.pdb, some files ascending, in every third case the "
        "first file, whose shape the loader probes), handed over as list / tuple / int64 / int32 / int16 ndarray / "
        "negative-stride view / every-second-entry view / read-only array, processes 1, 2, 3; reference = md.load of each "
        "file with the very same selection object, concatenated (lengths, xyz bit-exact; keys concat-atom-order when the "
        "result equals the loads with the selections sorted, concat-atom-selection otherwise); the Coq comparison runs on "
        "the reference's per-file data as for every lac case. Two (thorough: ten) selections name an atom twice: md.load "
        "itself rejects those for every format (ValueError 'indices must be unique'), so nothing is demanded there "
        "(tag lac-sel-repeat-reference-raises). lac2 steps select the same atoms in different orders in half the cases. "
        "non-trivial := (ra/raw) >= 2 rows of different lengths or a stride > 1 or a proper key subset; "
        "(lac/npy) >= 2 files of different strided length; (selform cases) the order of the selection changes the "
        "expected data")
TRUSTED = ["translator/tr_store.py (expressions, slices and loop bodies of ra.save / ra.load / util.load / mpi.io -> "
           "Gen/StoreGen.v; loop skeletons and Python builtins of Base/StoreBase.v checked by correspondence; "
           "math.ceil(n / stride) read as an exact rational ceiling: equal to the double computation while n < 2^53)",
           "PyTables/HDF5 byte fidelity of a CArray write followed by a read (modelled as a finite map name -> array)",
           "PyTables lists the children of a group sorted by name with Python's str order (Group._f_iter_nodes)",
           "multiprocessing: fork-inherited shared mp.Array, Pool.map_async job dispatch; a worker's slice assignment "
           "touches exactly the addressed window (modelled as single-item writes landing in an arbitrary order)",
           "mdtraj: md.open(..).__len__, md.load(stride=, atom_indices=, frame=) (the loaded frames are model input)",
           "NumPy slicing x[::s] = PySlice.slice_list; np.load/np.save of .npy files",
           "MPI: no runtime. World size 1 is the in-tree DummyComm; world sizes 2..4 of the striped loaders (ord / longrow "
           "streams) are run rank by rank in one process with enspara.mpi.rank / size replaced and rank 0's bcast values "
           "replayed to the other ranks (the loaders have no other collective)"]
ASSUMPTIONS = ["stride >= 1 (the loaders raise or misbehave on stride < 1; outside the property)",
               "rows have at least one element: PyTables refuses zero-sized CArrays, ra.save raises ValueError "
               "(modelled as a rejected input, checked as such); files holding zero-row tables (EArrays, stream zrow) are "
               "legal input of the loaders",
               "a file holding one array loads as an ndarray by documented design; it is compared as one row",
               "lengths hints, when given, are the true lengths (the docstring: 'a speed benefit only')"]
EXHAUSTIVE = {"thorough": False}
SHARD = 40


def translate(repo):
    return tr_store.translate(repo)

DTYPES = ["int8", "int16", "int32", "int64", "uint8", "uint16", "uint32", "uint64",
          "float16", "float32", "float64", "bool", "complex64"]
_UVIEW = {1: "uint8", 2: "uint16", 4: "uint32", 8: "uint64"}
ERRC = {"NoSuchNodeError": 1, "IndexError": 2, "DataInvalid": 3, "ValueError": 4, "ZeroDivisionError": 4,
        "ImproperlyConfigured": 6, "AssertionError": 7}
DATA = os.path.join(REPO, "enspara", "test", "data")


# ----------------------------------------------------------------------------- bit patterns
def _pool(dt):
    d = np.dtype(dt)
    if d.kind == "b":
        return [0, 1]
    if d.kind in "iu":
        ii = np.iinfo(d)
        vals = [0, 1, 2, 3, 4, 5, 7, ii.max, ii.min, ii.max - 1] + ([-1, -2] if d.kind == "i" else [])
        return [int(b) for b in np.array(vals, dtype=d).view(_UVIEW[d.itemsize])]
    if d.kind == "f":
        fi = np.finfo(d)
        vals = np.array([0.0, -0.0, 1.0, 1.5, -2.25, 0.1, np.nan, np.inf, -np.inf, fi.tiny / 4, fi.max, 3.0, 2.0], dtype=d)
        return [int(b) for b in vals.view(_UVIEW[d.itemsize])]
    vals = np.array([0, 1, 1j, 1.5 - 2j, complex(np.nan, 0.0), complex(-0.0, np.inf), 2, 3], dtype=d)
    return [int(b) for b in vals.view(_UVIEW[d.itemsize])]


_POOLS = {dt: _pool(dt) for dt in DTYPES}


def _from_bits(bits, dt, shape):
    d = np.dtype(dt)
    return np.array(bits, dtype=_UVIEW[d.itemsize]).reshape(shape).view(d)


def _to_bits(a):
    """array (n, *tail) -> list of n elements, each the list of the bit patterns of its items"""
    a = np.ascontiguousarray(a)
    if a.shape[0] == 0:
        return []
    u = a.view(_UVIEW[a.dtype.itemsize]).reshape(a.shape[0], -1)
    return [[int(x) for x in row] for row in u]


def _prod(t):
    p = 1
    for x in t:
        p *= x
    return p


def _gen_elems(rng, dt, tail, n, small):
    pool = _POOLS[dt][:6] if small else _POOLS[dt]
    k = _prod(tail)
    return [[rng.choice(pool) for _ in range(k)] for _ in range(n)]


# ----------------------------------------------------------------------------- generators
def _ra_case(rng, n, big, perm=None, equal=False):
    """perm: None | "rev" | "rot" | "perm" -- keys= is a non-ascending permutation of ALL rows (every row once);
    equal: all rows of one length (a reordering then changes the values but not the lengths)"""
    dt = rng.choice(DTYPES)
    if perm is not None and dt == "bool":
        dt = "uint8"            # two values cannot tell a dozen rows apart
    tail = rng.choice([[], [], [], [2], [3], [2, 2], [1]])
    if n > 40:
        tail = rng.choice([[], [], [2]])
    maxlen = 6 if n <= 12 else (3 if n <= 120 else 2)
    rows = [_gen_elems(rng, dt, tail, rng.randint(1, maxlen), rng.random() < 0.5) for _ in range(n)]
    if equal:
        L = rng.randint(min(3, maxlen), maxlen)
        rows = [_gen_elems(rng, dt, tail, L, rng.random() < 0.5) for _ in range(n)]
    stride = rng.choice([1, 1, 2, 2, 3, 4, 5, 7])
    if perm is not None and n >= 2:
        # make the reordering visible: the strided rows must be pairwise different and (unless equal) of >= 2 lengths
        stride = rng.choice([1, 1, 2] if equal else [1, 1, 2, 3])
        for _ in range(200):
            strided = [tuple(map(tuple, x[::stride])) for x in rows]
            if len(set(strided)) == n and (equal or len({len(x) for x in strided}) >= 2):
                break
            k = rng.randrange(n)
            rows[k] = _gen_elems(rng, dt, tail, len(rows[k]) if equal else rng.randint(1, maxlen), False)
    m = rng.random()
    if perm is not None and n >= 2:
        if perm == "rev":
            idxs = list(range(n))[::-1]
        elif perm == "rot":
            k = rng.randrange(1, n)
            idxs = list(range(k, n)) + list(range(k))
        else:
            idxs = list(range(n))
            while idxs == sorted(idxs):
                rng.shuffle(idxs)
    elif m < 0.5:
        idxs = None
    elif m < 0.6:
        idxs = [rng.randrange(n)]
    elif m < 0.8:
        idxs = sorted(rng.sample(range(n), rng.randint(1, min(n, 6))))
    else:
        idxs = [rng.randrange(n) for _ in range(rng.randint(2, 6))]    # reordered, possibly repeated
    return {"kind": "ra", "form": "ra", "dtype": dt, "tail": tail, "rows": rows, "stride": stride, "idxs": idxs,
            "comp": rng.choice([0, 1, 1, 9]), "tag": rng.choice(["arr", "arr", "x", "Tag9_b", "array"])}


def _nd_case(rng):
    dt = rng.choice(DTYPES)
    tail = rng.choice([[], [], [2], [3], [2, 2], [4, 1]])
    n = rng.randint(1, 12)
    return {"kind": "ra", "form": "nd", "dtype": dt, "tail": tail, "rows": [_gen_elems(rng, dt, tail, n, False)],
            "stride": rng.choice([1, 2, 2, 3, 5, 13]), "idxs": rng.choice([None, None, [0]]),
            "comp": rng.choice([0, 1, 9]), "tag": rng.choice(["arr", "q"])}


def _raw_case(rng):
    """file written directly with PyTables: arbitrary names, shuffled creation order, sometimes
    inconsistent dtypes / shapes, sometimes missing / empty key lists"""
    alphabet = "abxyABZ019_"
    n = rng.randint(1, 7)
    names = set()
    while len(names) < n:
        nm = "".join(rng.choice(alphabet) for _ in range(rng.randint(1, 4)))
        if nm[0] in "0123456789":
            nm = rng.choice("abZ_") + nm       # keep PyTables quiet about natural names; order is still arbitrary
        if nm not in ("array", "lengths"):
            names.add(nm)
    names = list(names)
    rng.shuffle(names)
    dt = rng.choice(["int32", "int64", "float32", "float64", "uint8"])
    tail = rng.choice([[], [], [2], [3]])
    bad = rng.choice(["ok", "ok", "ok", "dtype", "tail", "rank", "missing", "empty"])
    nodes = []
    for i, nm in enumerate(names):
        d, t = dt, tail
        if i == n - 1 and n >= 2:
            if bad == "dtype":
                d = "int16"
            elif bad == "tail" and len(tail) == 1:
                t = [tail[0] + 4]
            elif bad in ("rank", "tail"):
                t = tail + [2]
        nodes.append({"name": nm, "dtype": d, "tail": t, "elems": _gen_elems(rng, d, t, rng.randint(1, 5), True)})
    m = rng.random()
    if bad == "empty":
        keys = []
    elif bad == "missing":
        keys = [rng.choice(names), "nope"] if rng.random() < 0.7 else ["nope"]
        rng.shuffle(keys)
    elif m < 0.6:
        keys = None
    else:
        keys = [rng.choice(names) for _ in range(rng.randint(1, 4))]
    return {"kind": "raw", "nodes": nodes, "keys": keys, "stride": rng.choice([1, 1, 2, 3])}


def _npy_case(rng):
    dt = rng.choice(["int32", "int64", "float32", "float64", "uint8"])
    tail = rng.choice([[], [2], [3], [2, 2]])
    n = rng.randint(1, 6)
    files = []
    bad = rng.choice(["ok"] * 6 + ["dtype", "tail"])
    for i in range(n):
        d, t = dt, tail
        if i == n - 1 and n >= 2:
            if bad == "dtype":
                d = "int16"
            if bad == "tail" and len(tail) == 1:
                t = [tail[0] + 1]
        files.append({"dtype": d, "tail": t, "elems": _gen_elems(rng, d, t, rng.randint(1, 9), True)})
    return {"kind": "npy", "files": files, "stride": rng.choice([1, 2, 2, 3, 4, 10])}


_TRJ = [("frame0.xtc", True), ("frame0.h5", False), ("native.pdb", False)]


def _lac_distinct_case(rng):
    """sounded (no lengths= hint) parallel load of 3..5 files whose strided lengths are pairwise different, at least
    two file types (their sounding costs differ, so the workers finish out of file order), processes 1..4"""
    n = rng.randint(3, 5)
    natoms = rng.choice([1, 2, 3])
    while True:
        files = []
        for _ in range(n):
            fn, needs_top = rng.choice(_TRJ[:2] + _TRJ[:2] + _TRJ)
            stride = rng.choice([2, 3, 5, 7, 25, 50, 100, 167, 250, 500, 501, 600])
            frame = rng.randrange(501) if (fn != "native.pdb" and rng.random() < 0.08) else None
            files.append({"fn": fn, "top": needs_top, "stride": stride, "frame": frame,
                          "sel": sorted(rng.sample(range(22), natoms))})
        if files[0]["fn"] == "native.pdb":
            continue            # see _lac_case: mdtraj's shape probe on a pdb with atom_indices
        lens = [1 if (f["fn"] == "native.pdb" or f["frame"] is not None) else _ceil(501, f["stride"]) for f in files]
        if len(set(lens)) == n and len({f["fn"] for f in files}) >= 2 and sum(lens) * natoms * 3 <= 3000:
            break
    sched = list(range(n))
    while sched == sorted(sched):
        rng.shuffle(sched)
    return {"kind": "lac", "files": files, "shared": False, "hint": False, "sched": sched, "procs": [1, 2, 3, 4],
            "distinct": True}


def _lac_case(rng, small):
    nfiles = rng.randint(1, 5)
    natoms = rng.choice([1, 2, 3]) if small else rng.choice([3, 5, 22])
    shared = rng.random() < 0.4
    files = []
    sel0 = sorted(rng.sample(range(22), natoms)) if natoms < 22 else None
    st0 = rng.choice([7, 25, 50, 100, 167, 250, 500, 501, 600] if small else [1, 2, 3, 10, 17])
    for _ in range(nfiles):
        fn, needs_top = rng.choice(_TRJ[:2] + _TRJ[:2] + _TRJ)
        if shared:
            fn, needs_top = _TRJ[0]
        stride = st0 if shared else rng.choice([5, 25, 50, 100, 167, 250, 500, 501, 600] if small else [1, 2, 3, 10, 17])
        sel = sel0 if shared else (sorted(rng.sample(range(22), natoms)) if natoms < 22 else None)
        frame = None
        if not shared and fn != "native.pdb" and rng.random() < 0.12:
            frame = rng.randrange(501)
        files.append({"fn": fn, "top": needs_top, "stride": stride, "sel": sel, "frame": frame})
    if files[0]["fn"] == "native.pdb" and files[0]["sel"] is not None:
        # mdtraj's own md.load(pdb, frame=0, atom_indices=...) (the loader's shape probe on the first file) fails
        # with an internal AssertionError in load_pdb; not enspara's doing, keep the pdb out of first place
        files[0]["fn"], files[0]["top"] = _TRJ[1]
    sched = list(range(nfiles))
    rng.shuffle(sched)
    return {"kind": "lac", "files": files, "shared": shared, "hint": rng.random() < 0.3, "sched": sched,
            "procs": [1, 2, 4]}


_LONG_MOD = {"uint8": 251, "int8": 251, "int16": 32749, "float32": 1 << 24}


def _longrow_case(rng, tier, huge=False, tail=None):
    """rows longer than 2^20 and 2^21 entries (2^24 in one thorough case) next to short ones; item i of row k holds
    (i + 17 k) mod m (m = 251 / 32749 / 2^24 by dtype), so one misplaced or missing item is visible.  The file is
    written once per case; every (keys, stride) probe and the striped loader (world sizes 1 and 2) read it."""
    dt = rng.choice(["uint8", "int8"] if tier == "quick" else ["uint8", "int8", "int16", "float32"])
    if tail is None or dt not in ("uint8", "int8"):
        tail = rng.choice([[], [], [2]]) if dt in ("uint8", "int8") else []
    big = [(1 << 20) + rng.randint(1, 70000), (1 << 21) + rng.randint(1, 70000)]
    if huge:
        dt, tail, big = "uint8", [], [(1 << 24) + rng.randint(1, 5000)]
    lens = big + [rng.randint(1, 9) for _ in range(rng.randint(1, 3))]
    rng.shuffle(lens)
    n = len(lens)
    strides = [3, 5, 7, 1000003] + [rng.choice([1, 2, 6, 9, 10, 11, 13, 1000, 4097, 65537, (1 << 20) + 1, (1 << 20) - 1])]
    long_idx = [i for i, L in enumerate(lens) if L > (1 << 20)]
    perm = list(range(n))
    rng.shuffle(perm)
    subsets = [[long_idx[0]], long_idx[::-1] + [rng.randrange(n)], perm,
               sorted(rng.sample(range(n), rng.randint(2, n)))]
    probes = [{"keys": None, "stride": st} for st in strides]
    probes += [{"keys": sub, "stride": rng.choice(strides[:4])} for sub in subsets]
    striped = [{"P": 1, "stride": rng.choice(strides[:3])}, {"P": 2, "stride": rng.choice(strides[:4])}]
    return {"kind": "longrow", "dtype": dt, "tail": tail, "lens": lens, "probes": probes, "striped": striped}


def _ord_names(rng, layout, n):
    """relative file names in the CALLER's order, which is not the lexicographic order of the full paths"""
    if layout == "unpadded":            # trj-0 ... trj-11 in numeric order ("trj-10" < "trj-2" as strings)
        return ["trj-%d.npy" % i for i in range(n)]
    if layout == "dirs-rev":            # two (three) directories listed newest first, numbered files inside each
        dirs = ["run%d" % k for k in range(rng.choice([2, 2, 3]))][::-1]
        out = []
        for j, dname in enumerate(dirs):
            cnt = n // len(dirs) + (1 if j < n % len(dirs) else 0)
            out += ["%s/part%d.npy" % (dname, i) for i in range(cnt)]
        return out
    if layout == "dup-names":           # the same base name in different directories, directories not in order
        dirs = ["%s%d" % (rng.choice("abcxyz"), i) for i in range(n)]
        while dirs == sorted(dirs):
            rng.shuffle(dirs)
        return ["%s/feat.npy" % dname for dname in dirs]
    while True:                         # arbitrary names in arbitrary order
        names = set()
        while len(names) < n:
            names.add("".join(rng.choice("abAB019_-") for _ in range(rng.randint(1, 4))) + ".npy")
        names = list(names)
        rng.shuffle(names)
        if names != sorted(names):
            return names


def _ord_case(rng, layout, equal):
    """file lists that are NOT in lexicographic order, with different contents (and, unless `equal`, different
    lengths) per file, for load_npy_as_striped / load_h5_as_striped / cluster.util.load_features at world sizes 1..4:
    global lengths and every rank's stripe must follow the caller's order"""
    if layout == "unpadded":
        n = rng.randint(11, 13)
    elif layout == "dirs-rev":
        n = rng.randint(3, 7)
    else:
        n = rng.randint(2, 7)
    names = _ord_names(rng, layout, n)
    n = len(names)
    dt = rng.choice(["int32", "int64", "float32", "float64", "uint8", "int16"])
    tail = rng.choice([[], [], [2], [3]])
    stride = rng.choice([1, 1, 2, 3])
    order = sorted(range(n), key=lambda i: names[i])
    for _ in range(500):
        if equal:
            L = rng.randint(2 * stride, 2 * stride + 3)
            lens = [L] * n
        else:
            lens = [rng.randint(1, 7) for _ in range(n)]
        elems = [_gen_elems(rng, dt, tail, L, False) for L in lens]
        st = [tuple(map(tuple, e[::stride])) for e in elems]
        slen = [len(x) for x in st]
        if len(set(st)) == n and (equal or [slen[i] for i in order] != slen):
            break
    return {"kind": "ord", "layout": layout, "equal": equal, "dtype": dt, "tail": tail, "stride": stride,
            "files": [{"rel": nm, "elems": e} for nm, e in zip(names, elems)],
            "worlds": [P for P in (1, 2, 3, 4) if P <= n],
            # the same list as trajectory files (file i = lens[i] frames cut at a different place of frame0.h5), through
            # load_trajectory_as_striped (world size 1) and load_as_concatenated with `trj` processes; 0 = not run
            "trj": rng.choice([0, 0, 2, 3]) if n <= 7 else 0}


_ORD_LAYOUTS = ["unpadded", "dirs-rev", "dup-names", "shuffled"]
_ZROW_WHERE = ["first", "middle", "last", "two", "random"]


def _zrow_case(rng, where):
    """round 3s (second wave): an .h5 file some of whose tables have ZERO rows -- an EArray nobody appended to yet; legal
    PyTables, never written by ra.save (zero-sized CArrays are refused) -- named the way ra.save names its nodes.  ra.load
    of the same file is the reference for load_h5_as_striped at world sizes 1..4"""
    n = rng.randint(3 if where in ("middle", "two") else 2, 8)
    dt = rng.choice(["int32", "int64", "float32", "float64", "uint8", "int16"])
    tail = rng.choice([[], [], [2], [3], [2, 2]])
    stride = rng.choice([1, 2, 3])
    if where == "first":
        z = [0]
    elif where == "last":
        z = [n - 1]
    elif where == "middle":
        z = [rng.randint(1, n - 2)]
    elif where == "two":
        z = rng.sample(range(n), 2)
    else:
        z = rng.sample(range(n), rng.randint(1, n - 1))
    for _ in range(500):
        lens = [0 if i in z else rng.randint(1, 7) for i in range(n)]
        elems = [_gen_elems(rng, dt, tail, L, False) for L in lens]
        st = [tuple(map(tuple, e[::stride])) for e in elems if e]
        if len(set(st)) == len(st):            # the non-empty tables are pairwise different after striding
            break
    tag = rng.choice(["arr", "arr", "arr", "trj", "x"])
    w = len(str(n)) + 1
    return {"kind": "zrow", "where": where, "dtype": dt, "tail": tail, "stride": stride,
            "nodes": [{"name": tag + "_" + str(i).zfill(w), "elems": e} for i, e in enumerate(elems)],
            "worlds": [P for P in (1, 2, 3, 4) if P <= n]}


def _resave_case(rng, shape, j=None):
    """round 3s, file history: one or two arrays are saved to a path, then the case's array is saved to the SAME path;
    everything an "ra" case checks (node names, full / strided / subset load, striped load, the model's file) is then
    checked on that file.  shape: fewer = fewer rows than before; width = the row count has another number of decimal
    digits; nd-after-ra / ra-after-nd = a single array over a ragged one and vice versa; same = same row count"""
    def rows_for(prev_n):
        if shape == "fewer":
            return rng.randint(2, max(2, prev_n - 1))
        if shape == "width":
            return rng.choice([k for k in (2, 3, 9, 10, 11, 12, 99, 100, 101) if len(str(k)) != len(str(prev_n))])
        return prev_n
    prev_n = rng.choice([3, 5, 9, 10, 11, 12, 13, 30] if shape != "width" else [4, 9, 10, 12, 100, 101])
    if shape == "ra-after-nd":
        prev = [_nd_case(rng)]
        c = _ra_case(rng, rng.randint(2, 12), False)
    elif shape == "nd-after-ra":
        prev = [_ra_case(rng, prev_n, False)]
        c = _nd_case(rng)
    else:
        prev = [_ra_case(rng, prev_n, False)]
        if (rng.random() < 0.3) if j is None else (j % 3 == 0):          # a longer history: fewer -> more -> the final one
            prev.insert(0, _ra_case(rng, rng.randint(2, 6), False))
        c = _ra_case(rng, rows_for(prev_n), False)
    m = rng.random() if j is None else (0.2, 0.6, 0.9)[j % 3]
    for q in prev:
        # mostly the same tag / element type as the final array (stale nodes then look like rows of it)
        if m < 0.7:
            q["tag"] = c["tag"]
        elif q["tag"] == c["tag"]:
            q["tag"] = "other"
        if m < 0.5 and q["dtype"] != c["dtype"]:
            q["dtype"], q["tail"] = c["dtype"], c["tail"]
            q["rows"] = [_gen_elems(rng, q["dtype"], q["tail"], len(x), False) for x in q["rows"]]
    c["prev"] = [{k: q[k] for k in ("form", "dtype", "tail", "rows", "comp", "tag")} for q in prev]
    c["resave"] = shape
    return c


_RESAVE_SHAPES = ["fewer", "fewer", "width", "width", "nd-after-ra", "ra-after-nd", "same"]


def _lac2_case(rng, j=None):
    """round 3s, load history: 2..3 bulk loads in one process, every result is KEPT and compared with its own expected
    concatenation after the last load.  Small trajectory files are cut from frame0.h5; file sets / atom selections are
    chosen so that successive results have the same overall shape (equal total frames, equal atom count) in most cases"""
    variants = ["other-files", "other-files", "other-selection", "other-files-unequal-total"]
    variant = rng.choice(variants) if j is None else variants[j % 4]
    natoms = rng.choice([1, 2, 3, 6] if variant == "other-selection" else [None, 1, 2, 3, 6])
    nsteps = rng.choice([2, 2, 2, 3]) if j is None else (3 if j % 3 == 0 else 2)
    total = rng.randint(3, 14)
    files, steps = [], []

    def split(t):
        parts = []
        while t > 0:
            p = rng.randint(1, t) if len(parts) < 2 else t
            parts.append(p)
            t -= p
        return parts
    base = None
    for k in range(nsteps):
        if variant == "other-selection" and base is not None:
            idx = base
        else:
            t = total if variant != "other-files-unequal-total" or k == 0 else total + rng.randint(1, 3)
            idx = []
            for n in split(t):
                files.append(n)
                idx.append(len(files) - 1)
            base = idx
        sel = None if natoms is None else sorted(rng.sample(range(22), natoms))
        steps.append({"entry": rng.choice(["lac", "lac", "lac", "ctrjs"]), "files": idx, "sel": sel,
                      "procs": rng.choice([1, 2, 3]), "hint": rng.random() < 0.3})
    return {"kind": "lac2", "variant": variant, "lens": files, "steps": steps}


# round 3s (third wave): atom selections that are not in ascending order (what top.select() never returns), handed over
# in several container forms.  md.load keeps the order of atom_indices for every format used here (.xtc/.h5/.pdb) and
# rejects a selection naming an atom twice (ValueError "indices must be unique") -- the per-file md.load with the very
# same argument is the reference, and where it raises nothing is demanded.
_SEL_ORDERS = ["desc", "rot", "swap", "shuffle", "all-desc"]
_SEL_FORMS = ["list", "int64", "int32", "revview", "tuple", "int16", "stepview", "readonly"]


def _sel_order(rng, order, natoms):
    if order == "all-desc":
        return list(range(21, -1, -1))
    base = sorted(rng.sample(range(22), natoms))
    if order == "asc" or natoms < 2:
        return base
    if order == "desc":
        return base[::-1]
    if order == "rot":
        k = rng.randrange(1, natoms)
        return base[k:] + base[:k]
    if order == "swap":
        k = rng.randrange(natoms - 1)
        base[k], base[k + 1] = base[k + 1], base[k]
        return base
    if order == "repeat":
        s = base + [rng.choice(base)]
        rng.shuffle(s)
        return s
    s = list(base)
    while s == base:
        rng.shuffle(s)
    return s


def _sel_arg(sel, form):
    """the atom_indices object handed to md.load / load_as_concatenated for the selection `sel` (a list of ints)"""
    if form is None:
        return np.array(sel)
    if form == "list":
        return [int(v) for v in sel]
    if form == "tuple":
        return tuple(int(v) for v in sel)
    if form in ("int64", "int32", "int16"):
        return np.array(sel, dtype=form)
    if form == "revview":           # a negative-stride view of an array holding the selection backwards
        return np.array(sel[::-1], dtype=np.int64)[::-1]
    if form == "stepview":          # every second entry of a longer array
        a = np.zeros(2 * len(sel), dtype=np.int64)
        a[::2] = sel
        return a[::2]
    if form == "readonly":
        a = np.array(sel, dtype=np.int64)
        a.flags.writeable = False
        return a
    raise ValueError(form)


def _lac_sel_case(rng, j, repeat=False):
    """a bulk load whose atom selection(s) are not ascending: one selection for all files (**kwargs) or one per file
    (args=[...]; then some files keep an ascending selection, in every third per-file case the FIRST file does -- the
    loader's shape probe reads the first file only)"""
    shared = j % 2 == 0
    form = _SEL_FORMS[(j // 2) % len(_SEL_FORMS)]
    order = "repeat" if repeat else _SEL_ORDERS[j % len(_SEL_ORDERS)]
    natoms = 22 if order == "all-desc" else rng.choice([2, 3, 3, 4, 6])
    nfiles = rng.randint(1, 4) if shared else rng.randint(2, 5)
    strides = [100, 167, 250, 500, 501, 600] if natoms == 22 else [25, 50, 100, 167, 250, 500, 501, 600]
    files = []
    if shared:
        fn, needs_top = _TRJ[((j // 2) + (j // 16)) % 2]
        sel, st = _sel_order(rng, order, natoms), rng.choice(strides)
        for _ in range(nfiles):
            files.append({"fn": fn, "top": needs_top, "stride": st, "sel": sel, "frame": None})
    else:
        first_asc = (j // 2) % 3 == 0
        odd = rng.randrange(1 if first_asc else 0, nfiles)         # this file's selection is surely not ascending
        for i in range(nfiles):
            fn, needs_top = rng.choice(_TRJ[:2] + _TRJ[:2] + _TRJ) if i else rng.choice(_TRJ[:2])
            if i == 1 and j % 4 == 1 and fn == files[0]["fn"]:        # at least two file formats
                fn, needs_top = _TRJ[1] if fn == _TRJ[0][0] else _TRJ[0]
            o = order if i == odd else "asc" if (i == 0 and first_asc) else rng.choice([order, order, "asc", "shuffle"])
            if repeat and i != odd:
                o = rng.choice(["asc", "shuffle"])
            frame = rng.randrange(501) if (fn != "native.pdb" and rng.random() < 0.1) else None
            files.append({"fn": fn, "top": needs_top, "stride": rng.choice(strides),
                          "sel": _sel_order(rng, o, natoms), "frame": frame})
    sched = list(range(nfiles))
    rng.shuffle(sched)
    return {"kind": "lac", "files": files, "shared": shared, "hint": rng.random() < 0.3, "sched": sched,
            "procs": [1, 2, 3], "selform": form, "selorder": order}


def _lac2_sel_case(rng, j):
    """load history (see _lac2_case) with selections that are not ascending; in half of the cases the steps select the
    SAME atoms in different orders"""
    c = _lac2_case(rng, j)
    natoms = rng.choice([2, 3, 6])
    same_atoms = j % 2 == 0
    base = sorted(rng.sample(range(22), natoms))
    orders = [_SEL_ORDERS[(j + k) % 4] for k in range(len(c["steps"]))]
    if same_atoms:
        orders[rng.randrange(len(orders))] = "asc"
    for st, o in zip(c["steps"], orders):
        if not same_atoms:
            base = sorted(rng.sample(range(22), natoms))
        sel = list(base)
        if o == "desc":
            sel = sel[::-1]
        elif o == "rot":
            k = rng.randrange(1, natoms)
            sel = sel[k:] + sel[:k]
        elif o == "swap":
            k = rng.randrange(natoms - 1)
            sel[k], sel[k + 1] = sel[k + 1], sel[k]
        elif o == "shuffle":
            while sel == base:
                rng.shuffle(sel)
        st["sel"] = sel
    c["selform"] = _SEL_FORMS[j % len(_SEL_FORMS)]
    c["same_atoms"] = same_atoms
    return c


def generate(rng, tier):
    cases = []
    quick = tier == "quick"
    # digit-count boundaries first
    for n in ([1, 2, 9, 10, 11, 12, 99, 100, 101, 102] if quick else list(range(1, 121)) + [199, 200, 201, 299, 300]):
        cases.append(_ra_case(rng, n, True))
    for n in ([9, 10, 11, 100] if quick else [9, 10, 11, 99, 100, 101]):
        c = _ra_case(rng, n, True)
        c["idxs"], c["stride"] = None, 1
        cases.append(c)
    for _ in range(150 if quick else 1500):
        cases.append(_ra_case(rng, rng.choice([1, 2, 2, 3, 3, 4, 5, 6, 8, 9, 10, 11, 12, 13, 20, 30]), False))
    for _ in range(4 if quick else 12):
        cases.append(_ra_case(rng, rng.choice([150, 230, 300]), True))
    for _ in range(40 if quick else 400):
        cases.append(_nd_case(rng))
    # rejected class: a zero-length row
    for _ in range(6 if quick else 40):
        c = _ra_case(rng, rng.randint(2, 6), False)
        c["tail"] = []
        c["rows"] = [_gen_elems(rng, c["dtype"], [], rng.randint(1, 3), True) for _ in c["rows"]]
        c["rows"][rng.randrange(len(c["rows"]))] = []
        cases.append(c)
    for _ in range(80 if quick else 800):
        cases.append(_raw_case(rng))
    for _ in range(40 if quick else 400):
        cases.append(_npy_case(rng))
    for _ in range(60 if quick else 500):
        cases.append(_lac_case(rng, True))
    for _ in range(10 if quick else 60):
        cases.append(_lac_case(rng, False))
    # keys= naming every row once in a non-ascending order (reversed / rotated / shuffled), unequal and equal lengths
    for n in ([2, 3, 5, 9, 10, 11, 12] if quick else [2, 2, 3, 3, 4, 5, 6, 7, 8, 9, 10, 11, 12, 13, 20, 30, 99, 100, 101]):
        for perm in ("rev", "rot", "perm"):
            for equal in (False, True):
                for _ in range(1 if quick else 2):
                    cases.append(_ra_case(rng, n, True, perm=perm, equal=equal))
    # file lists not in lexicographic order, world sizes 1..4
    for layout in _ORD_LAYOUTS:
        for equal in (False, False, True):
            for _ in range(3 if quick else 12):
                cases.append(_ord_case(rng, layout, equal))
    # sounded parallel loads of files with pairwise different lengths, processes 1..4
    for _ in range(14 if quick else 60):
        cases.append(_lac_distinct_case(rng))
    # round 3s: file histories (several saves to one path) and load histories (several bulk loads, results kept)
    for shape in _RESAVE_SHAPES:
        for j in range(3 if quick else 20):
            cases.append(_resave_case(rng, shape, j))
    for j in range(24 if quick else 150):
        cases.append(_lac2_case(rng, j))
    # round 3s (second wave): files with zero-row tables, world sizes 1..4
    for j in range(20 if quick else 150):
        cases.append(_zrow_case(rng, _ZROW_WHERE[j % len(_ZROW_WHERE)]))
    # rows longer than 2^20 / 2^21 entries
    cases.append(_longrow_case(rng, "quick", tail=[]))
    cases.append(_longrow_case(rng, "quick", tail=[2]))
    for _ in range(0 if quick else 8):
        cases.append(_longrow_case(rng, tier))
    if not quick:
        cases.append(_longrow_case(rng, tier, huge=True))
    # rows longer than any plausible internal read block, strides that do not divide powers of two
    for _ in range(2 if quick else 8):
        cases.append({"kind": "long", "lens": [rng.choice([65537, 70001, 131075]), rng.randint(1, 9)][:rng.choice([1, 2])],
                      "stride": rng.choice([3, 5, 7, 10, 1000]), "seed": rng.randrange(10 ** 6)})
    # history: load files, rewrite one of them at the same path with another frame count, load again
    for _ in range(3 if quick else 20):
        L = [rng.randint(1, 6) for _ in range(rng.randint(2, 4))]
        k = rng.randrange(len(L))
        L2 = list(L)
        L2[k] = rng.choice([x for x in range(1, 8) if x != L[k]])
        if rng.random() < 0.5 and len(L) >= 2:      # keep the total unchanged: silent misplacement instead of an error
            j = (k + 1) % len(L)
            L2[j] = L[j] + (L[k] - L2[k])
            if L2[j] < 1:
                L2[j] = L[j]
        cases.append({"kind": "lachist", "lens": L, "lens2": L2, "stride": rng.choice([1, 1, 2]), "procs": rng.choice([1, 2])})
    # round 3s (third wave), drawn last so that the streams above keep their draws: atom selections that are not
    # ascending, shared and per file, every container form; two (thorough: ten) selections naming an atom twice
    for j in range(16 if quick else 120):
        cases.append(_lac_sel_case(rng, j))
    for j in range(2 if quick else 10):
        cases.append(_lac_sel_case(rng, j, repeat=True))
    for j in range(8 if quick else 48):
        cases.append(_lac2_sel_case(rng, j))
    return cases


def _run_long(c, d):
    from enspara.ra import ra
    rs = np.random.RandomState(c["seed"])
    rows = [rs.randint(0, 1000, size=n).astype("int32") for n in c["lens"]]
    path = os.path.join(d, "long.h5")
    a = ra.RaggedArray(rows) if len(rows) > 1 else rows[0]
    ra.save(path, a)
    full = ra.load(path)
    strided = ra.load(path, stride=c["stride"])
    def rowsof(x):
        return [np.asarray(r) for r in x] if len(c["lens"]) > 1 else [np.asarray(x)]
    ok_full = all(np.array_equal(x, y) for x, y in zip(rowsof(full), rows)) and len(rowsof(full)) == len(rows)
    ok_str = all(np.array_equal(x, y[::c["stride"]]) for x, y in zip(rowsof(strided), rows)) and len(rowsof(strided)) == len(rows)
    return {"roundtrip": bool(ok_full), "stride_eq_slice": bool(ok_str)}


@contextlib.contextmanager
def _world(P, r, log):
    """world size P seen from rank r, without an MPI runtime: enspara.mpi.rank / size are replaced for the duration of
    the call; the loaders' only collective is bcast from rank 0, so rank 0 runs first, its broadcasts are recorded in
    `log` and replayed, in order, to the other ranks.  P = 1 runs on the untouched in-tree DummyComm."""
    if P == 1:
        yield
        return
    from enspara import mpi

    class Comm:
        def __init__(self):
            self.i = 0

        def bcast(self, v, root=0):
            assert root == 0
            if r == 0:
                log.append(copy.deepcopy(v))
                return v
            v = log[self.i]
            self.i += 1
            return copy.deepcopy(v)

        def barrier(self):
            pass

        Barrier = barrier

    saved = (mpi.rank, mpi.size, mpi.comm)
    mpi.rank, mpi.size, mpi.comm = (lambda: r), (lambda: P), Comm()
    try:
        yield
    finally:
        mpi.rank, mpi.size, mpi.comm = saved


def _striped_runs(worlds, call):
    """{P: [result of rank 0, ..., rank P-1]} of a striped loader"""
    out = {}
    for P in worlds:
        log, per_rank = [], []
        for r in range(P):
            try:
                with _world(P, r, log):
                    gl, loc = call()
                loc = np.asarray(loc)
                per_rank.append({"lengths": [int(v) for v in gl], "dtype": str(loc.dtype), "tail": list(loc.shape[1:]),
                                 "data": _to_bits(loc)})
            except Exception as ex:
                per_rank.append(_err(ex))
        out[str(P)] = per_rank
    return out


def _run_ord(c, d):
    from enspara import ra
    from enspara.mpi import io as mio
    from enspara.cluster import util as cutil
    dt, tail, s = c["dtype"], c["tail"], c["stride"]
    fns, arrs = [], []
    logging.disable(logging.INFO)       # load_features reports every load at INFO level
    try:
        return _run_ord_quiet(c, d)
    finally:
        logging.disable(logging.NOTSET)


def _run_ord_quiet(c, d):
    from enspara import ra
    from enspara.mpi import io as mio
    from enspara.cluster import util as cutil
    dt, tail, s = c["dtype"], c["tail"], c["stride"]
    fns, arrs = [], []
    for f in c["files"]:
        fn = os.path.join(d, f["rel"])
        os.makedirs(os.path.dirname(fn), exist_ok=True)
        a = _from_bits(f["elems"], dt, [len(f["elems"])] + tail)
        np.save(fn, a)
        fns.append(fn)
        arrs.append(a)
    h5 = os.path.join(d, "rows.h5")
    ra.save(h5, ra.RaggedArray(array=np.concatenate(arrs), lengths=[len(a) for a in arrs]))
    res = {"names": _node_names(h5)}
    res["npy"] = _striped_runs(c["worlds"], lambda: mio.load_npy_as_striped(list(fns), stride=s))
    res["lf_npy"] = _striped_runs(c["worlds"], lambda: cutil.load_features(list(fns), s))
    res["h5"] = _striped_runs(c["worlds"], lambda: mio.load_h5_as_striped(h5, stride=s))
    res["lf_h5"] = _striped_runs(c["worlds"], lambda: cutil.load_features([h5], s))
    if c.get("trj"):
        import mdtraj as md
        from enspara.util.load import load_as_concatenated
        src = md.load(os.path.join(DATA, "frame0.h5"))
        tfn, off = [], 0
        for f in c["files"]:
            tfn.append(os.path.join(d, f["rel"][:-4] + ".h5"))
            src[off:off + len(f["elems"])].save_hdf5(tfn[-1])
            off += 10
        kw = {} if s == 1 else {"stride": s}
        indiv = [md.load(f, **kw).xyz for f in tfn]
        res["trj"] = {}
        for name, call in (("lac", lambda: load_as_concatenated(list(tfn), processes=c["trj"], **kw)),
                           ("striped", lambda: mio.load_trajectory_as_striped(list(tfn), processes=c["trj"], **kw))):
            try:
                lengths, xyz = call()
                res["trj"][name] = {"lengths_ok": [int(v) for v in lengths] == [len(x) for x in indiv],
                                    "lengths": [int(v) for v in lengths],
                                    "data_ok": bool(np.array_equal(xyz, np.concatenate(indiv)))}
            except Exception as ex:
                res["trj"][name] = _err(ex)
    return res


def _run_zrow(c, d):
    import tables
    from enspara import ra
    from enspara.mpi import io as mio
    dt, tail, s = np.dtype(c["dtype"]), c["tail"], c["stride"]
    path = os.path.join(d, "z.h5")
    with tables.open_file(path, "w") as h:
        for nd in c["nodes"]:
            e = h.create_earray("/", nd["name"], atom=tables.Atom.from_dtype(dt), shape=tuple([0] + tail))
            if nd["elems"]:
                e.append(_from_bits(nd["elems"], c["dtype"], [len(nd["elems"])] + tail))
    res = {"names": _node_names(path)}
    for name, st in (("full", 1), ("strided", s)):
        try:
            res[name] = _canon(ra.load(path, stride=st))
        except Exception as ex:
            res[name] = _err(ex)
    res["h5"] = _striped_runs(c["worlds"], lambda: mio.load_h5_as_striped(path, stride=s))
    return res


def _long_rows(c):
    m, dt, tail = _LONG_MOD[c["dtype"]], np.dtype(c["dtype"]), tuple(c["tail"])
    k = _prod(tail)
    return [((np.arange(n * k, dtype=np.int64) + 17 * i) % m).astype(dt).reshape((n,) + tail)
            for i, n in enumerate(c["lens"])]


def _cmp_rows(got, exp):
    """None if the loaded rows equal the expected ones, else where they first differ"""
    if len(got) != len(exp):
        return "%d rows, expected %d" % (len(got), len(exp))
    for i, (g, e) in enumerate(zip(got, exp)):
        g = np.asarray(g)
        if g.dtype != e.dtype:
            return "row %d: dtype %s, expected %s" % (i, g.dtype, e.dtype)
        if g.shape != e.shape:
            return "row %d: shape %s, expected %s" % (i, list(g.shape), list(e.shape))
        if not np.array_equal(g, e):
            bad = np.argwhere(g != e)[0]
            return "row %d: item %s is %s, expected %s (%d items differ)" % (
                i, [int(v) for v in bad], g[tuple(bad)], e[tuple(bad)], int((g != e).sum()))
    return None


def _long_striped(rows, P, st, call):
    log, whys = [], []
    for r in range(P):
        try:
            with _world(P, r, log):
                gl, loc = call(st)
            if [int(v) for v in gl] != [_ceil(len(x), st) for x in rows]:
                whys.append("rank %d: global lengths %s" % (r, [int(v) for v in gl]))
            why = _cmp_rows([np.asarray(loc)], [np.concatenate([x[::st] for x in rows[r::P]])])
            if why is not None:
                whys.append("rank %d: %s" % (r, why))
        except Exception as ex:
            whys.append("rank %d raised %s: %s" % (r, type(ex).__name__, str(ex)[:120]))
    return {"ok": not whys, "why": "; ".join(whys) or None}


def _run_longrow(c, d):
    from enspara import ra
    from enspara.mpi import io as mio
    rows = _long_rows(c)
    path = os.path.join(d, "longrow.h5")
    ra.save(path, ra.RaggedArray(array=np.concatenate(rows), lengths=[len(x) for x in rows]))
    names = _node_names(path)
    res = {"names_n": len(names), "probes": [], "striped": [], "striped_npy": []}
    fns = []
    for i, x in enumerate(rows):        # the same rows as .npy files, for load_npy_as_striped
        fns.append(os.path.join(d, "long-%d.npy" % i))
        np.save(fns[-1], x)
    for pr in c["probes"]:
        idxs = list(range(len(rows))) if pr["keys"] is None else pr["keys"]
        exp = [rows[i][::pr["stride"]] for i in idxs]
        try:
            x = ra.load(path, keys=Ellipsis if pr["keys"] is None else [names[i] for i in idxs], stride=pr["stride"])
            if hasattr(x, "_data"):
                got = [np.asarray(x[i]) for i in range(len(x.lengths))]
                why = _cmp_rows(got, exp)
                if why is None and [int(v) for v in x.lengths] != [len(e) for e in exp]:
                    why = "lengths %s" % [int(v) for v in x.lengths]
            else:
                why = _cmp_rows([np.asarray(x)], exp)
            res["probes"].append({"ok": why is None, "why": why})
        except Exception as ex:
            res["probes"].append({"ok": False, "why": "raised %s: %s" % (type(ex).__name__, str(ex)[:120])})
    for name, call in (("striped", lambda st: mio.load_h5_as_striped(path, stride=st)),
                       ("striped_npy", lambda st: mio.load_npy_as_striped(list(fns), stride=st))):
        for sp in c["striped"]:
            res[name].append(_long_striped(rows, sp["P"], sp["stride"], call))
    return res


def _run_lachist(c, d):
    import mdtraj as md
    from enspara.util.load import load_as_concatenated
    src = md.load(os.path.join(DATA, "frame0.h5"))
    def write(lens, which=None):
        off = 0
        for i, n in enumerate(lens):
            if which is None or i in which:
                src[off:off + n].save_hdf5(os.path.join(d, "t%d.h5" % i))
            off += n
    fns = [os.path.join(d, "t%d.h5" % i) for i in range(len(c["lens"]))]
    kw = {} if c["stride"] == 1 else {"stride": c["stride"]}
    out = {}
    write(c["lens"])
    for tag, lens in (("first", c["lens"]), ("second", c["lens2"])):
        if tag == "second":
            ch = [i for i, (a, b) in enumerate(zip(c["lens"], c["lens2"])) if a != b]
            off = 100   # different frames as well, so that stale coordinates are visible
            for i in ch:
                src[off:off + c["lens2"][i]].save_hdf5(os.path.join(d, "t%d.h5" % i))
                off += 10
        try:
            lengths, xyz = load_as_concatenated(fns, processes=c["procs"], **kw)
            indiv = [md.load(f, **kw).xyz for f in fns]
            out[tag] = {"lengths_ok": [int(v) for v in lengths] == [len(x) for x in indiv],
                        "data_ok": bool(np.array_equal(xyz, np.concatenate(indiv)))}
        except Exception as ex:
            out[tag] = _err(ex)
    return out


def _run_lac2(c, d):
    import mdtraj as md
    from enspara.util.load import load_as_concatenated, concatenate_trjs
    src = md.load(os.path.join(DATA, "frame0.h5"))
    fns, off = [], 0
    for i, n in enumerate(c["lens"]):
        fns.append(os.path.join(d, "h%d.h5" % i))
        src[off:off + n].save_hdf5(fns[-1])
        off += n + 3
    kept, out = [], {"steps": []}
    for st in c["steps"]:
        fs = [fns[i] for i in st["files"]]
        kw = {} if st["sel"] is None else {"atom_indices": _sel_arg(st["sel"], c.get("selform"))}
        indiv = [md.load(f, **kw).xyz for f in fs]
        exp = np.concatenate(indiv)
        rec = {"expected": _digest(exp), "lengths_expected": [len(x) for x in indiv]}
        if c.get("selform") is not None:
            rec["expected_sorted"] = _digest(np.concatenate([md.load(f, atom_indices=np.sort(np.array(st["sel"]))).xyz for f in fs]))
        try:
            if st["entry"] == "lac":
                lengths, xyz = load_as_concatenated(fs, processes=st["procs"],
                                                    lengths=[len(x) for x in indiv] if st["hint"] else None, **kw)
                rec["lengths"] = [int(v) for v in lengths]
            else:
                trj = concatenate_trjs([md.load(f, **kw) for f in fs], n_procs=st["procs"])
                xyz = trj.xyz
            rec["at_return"] = _digest(xyz)      # a plain string, taken now
            kept.append(xyz)                     # the caller keeps the result itself
        except Exception as ex:
            rec.update(_err(ex))
            kept.append(None)
        out["steps"].append(rec)
    for rec, xyz in zip(out["steps"], kept):
        if xyz is not None:
            rec["at_end"] = _digest(xyz)
    out["aliased"] = [[i, j] for i in range(len(kept)) for j in range(i + 1, len(kept))
                      if kept[i] is not None and kept[j] is not None and bool(np.shares_memory(kept[i], kept[j]))]
    return out


# ----------------------------------------------------------------------------- implementation
def _err(ex):
    return {"err": type(ex).__name__}


def _canon(x):
    if hasattr(x, "_data"):
        d = np.asarray(x._data)
        return {"t": "ra", "dtype": str(d.dtype), "tail": list(d.shape[1:]), "lengths": [int(v) for v in x.lengths],
                "data": _to_bits(d)}
    x = np.asarray(x)
    if x.ndim == 0:
        return {"err": "ZeroDim"}
    return {"t": "nd", "dtype": str(x.dtype), "tail": list(x.shape[1:]), "data": _to_bits(x)}


def _node_names(path):
    import tables
    with tables.open_file(path) as h:
        return [k.name for k in h.list_nodes("/")]


def _run_ra(c, d):
    from enspara import ra
    from enspara.mpi import io as mio
    dt, tail = c["dtype"], c["tail"]
    rows = c["rows"]
    if c["form"] == "nd":
        arr = _from_bits(rows[0], dt, [len(rows[0])] + tail)
    else:
        flat = [e for r in rows for e in r]
        arr = ra.RaggedArray(array=_from_bits(flat, dt, [len(flat)] + tail), lengths=[len(r) for r in rows])
    path = os.path.join(d, "a.h5")
    for q in c.get("prev", []):          # file history: earlier saves to the same path
        if q["form"] == "nd":
            parr = _from_bits(q["rows"][0], q["dtype"], [len(q["rows"][0])] + q["tail"])
        else:
            pflat = [e for r in q["rows"] for e in r]
            parr = ra.RaggedArray(array=_from_bits(pflat, q["dtype"], [len(pflat)] + q["tail"]),
                                  lengths=[len(r) for r in q["rows"]])
        try:
            ra.save(path, parr, compression_level=q["comp"], tag=q["tag"])
        except Exception as ex:
            return {"err": "UnexpectedPrevSave" + type(ex).__name__}
    try:
        ra.save(path, arr, compression_level=c["comp"], tag=c["tag"])
    except Exception as ex:
        return {"save_err": type(ex).__name__}
    names = _node_names(path)
    res = {"names_n": len(names), "names": names}
    keys = Ellipsis if c["idxs"] is None else [names[i] for i in c["idxs"]]
    try:
        res["main"] = _canon(ra.load(path, keys=keys, stride=c["stride"]))
    except Exception as ex:
        res["main"] = _err(ex)
    try:
        res["full"] = _canon(ra.load(path))
    except Exception as ex:
        res["full"] = _err(ex)
    try:
        gl, loc = mio.load_h5_as_striped(path, stride=c["stride"])
        res["striped"] = {"lengths": [int(v) for v in gl], "dtype": str(loc.dtype), "data": _to_bits(loc)}
    except Exception as ex:
        res["striped"] = _err(ex)
    return res


def _run_raw(c, d):
    import tables
    from enspara import ra
    path = os.path.join(d, "raw.h5")
    with tables.open_file(path, "w") as h:
        for nd in c["nodes"]:
            a = _from_bits(nd["elems"], nd["dtype"], [len(nd["elems"])] + nd["tail"])
            node = h.create_carray(where="/", name=nd["name"], atom=tables.Atom.from_dtype(a.dtype), shape=a.shape)
            node[:] = a
    names = _node_names(path)
    keys = Ellipsis if c["keys"] is None else c["keys"]
    try:
        main = _canon(ra.load(path, keys=keys, stride=c["stride"]))
    except Exception as ex:
        main = _err(ex)
    return {"main": main, "names": names}


def _run_npy(c, d):
    from enspara.mpi import io as mio
    fns = []
    for i, f in enumerate(c["files"]):
        fn = os.path.join(d, "f%d.npy" % i)
        np.save(fn, _from_bits(f["elems"], f["dtype"], [len(f["elems"])] + f["tail"]))
        fns.append(fn)
    try:
        gl, loc = mio.load_npy_as_striped(fns, stride=c["stride"])
        return {"lengths": [int(v) for v in gl], "dtype": str(loc.dtype), "tail": list(loc.shape[1:]),
                "data": _to_bits(loc)}
    except Exception as ex:
        return _err(ex)


_TOP = {}


def _top():
    import mdtraj as md
    if "t" not in _TOP:
        _TOP["t"] = md.load(os.path.join(DATA, "native.pdb")).top
    return _TOP["t"]


def _kw(f, form=None):
    kw = {}
    if f["top"]:
        kw["top"] = _top()
    if f["stride"] != 1 and f["frame"] is None:
        kw["stride"] = f["stride"]
    if f["sel"] is not None:
        kw["atom_indices"] = _sel_arg(f["sel"], form)
    if f["frame"] is not None:
        kw["frame"] = f["frame"]
    return kw


def _digest(a):
    a = np.ascontiguousarray(a)
    return hashlib.sha256(a.tobytes()).hexdigest()[:24] + ":" + "x".join(map(str, a.shape))


def _run_lac(c):
    import mdtraj as md
    from enspara.util.load import load_as_concatenated
    fns = [os.path.join(DATA, f["fn"]) for f in c["files"]]
    form = c.get("selform")
    kws = [_kw(f, form) for f in c["files"]]
    if c["shared"] and form is not None:
        kws = [kws[0]] * len(kws)           # one selection object for all files, as **kwargs hands it on
    nframes, indiv = [], []
    try:
        for fn, kw in zip(fns, kws):
            with md.open(fn) as fh:
                nframes.append(len(fh))
            indiv.append(md.load(fn, **kw).xyz)
    except Exception as ex:
        if form is None:
            raise
        # the reference itself (md.load of one file with this selection) raises: nothing is demanded of the bulk load;
        # what it does is recorded for the replay only
        res = {"ref_err": "%s: %s" % (type(ex).__name__, str(ex)[:80]), "runs": {}}
        for p in c["procs"][:2]:
            try:
                if c["shared"]:
                    lengths, xyz = load_as_concatenated(fns, processes=p, **kws[0])
                else:
                    lengths, xyz = load_as_concatenated(fns, processes=p, args=kws)
                res["runs"][str(p)] = {"lengths": [int(v) for v in lengths], "shape": list(xyz.shape)}
            except Exception as ex2:
                res["runs"][str(p)] = _err(ex2)
        return res
    expected = np.concatenate(indiv)
    res = {"nframes": nframes, "indiv_len": [len(x) for x in indiv], "expected": _digest(expected), "runs": {}}
    if form is not None:
        # the same loads with every selection put into ascending order: tells a permutation of the atom columns from
        # any other difference (never a demand by itself)
        res["expected_sorted"] = _digest(np.concatenate([
            md.load(fn, **dict(kw, atom_indices=np.sort(np.asarray(kw["atom_indices"])))).xyz for fn, kw in zip(fns, kws)]))
    n_items = int(expected.size)
    res["n_items"] = n_items
    small = n_items <= 3000
    if small:
        res["indiv_bits"] = [_to_bits(x) for x in indiv]
    hint = [len(x) for x in indiv] if c["hint"] else None
    for p in c["procs"]:
        try:
            if c["shared"]:
                lengths, xyz = load_as_concatenated(fns, lengths=hint, processes=p, **kws[0])
            else:
                lengths, xyz = load_as_concatenated(fns, lengths=hint, processes=p, args=kws)
            run = {"lengths": [int(v) for v in lengths], "digest": _digest(xyz), "dtype": str(xyz.dtype)}
            if small and "xyz_bits" not in res:
                res["xyz_bits"] = _to_bits(xyz)
                res["xyz_digest"] = run["digest"]
            if form is not None and run["digest"] != res["expected"] and xyz.shape == expected.shape:
                run["bad_atom_columns"] = [int(v) for v in np.unique(np.argwhere(xyz != expected)[:, 1])]
                run["shape"] = list(xyz.shape)
        except Exception as ex:
            run = _err(ex)
        res["runs"][str(p)] = run
    return res


def run_impl(c):
    if c["kind"] == "lac":
        return _run_lac(c)
    d = tempfile.mkdtemp(prefix="c15_", dir="/tmp")
    try:
        if c["kind"] == "ra":
            return _run_ra(c, d)
        if c["kind"] == "raw":
            return _run_raw(c, d)
        if c["kind"] == "long":
            return _run_long(c, d)
        if c["kind"] == "longrow":
            return _run_longrow(c, d)
        if c["kind"] == "ord":
            return _run_ord(c, d)
        if c["kind"] == "zrow":
            return _run_zrow(c, d)
        if c["kind"] == "lachist":
            return _run_lachist(c, d)
        if c["kind"] == "lac2":
            return _run_lac2(c, d)
        return _run_npy(c, d)
    finally:
        shutil.rmtree(d, ignore_errors=True)


# ----------------------------------------------------------------------------- oracle
def _ceil(n, s):
    return -(-n // s)


def _oracle_longrow(c, r):
    out = []
    if "err" in r:
        return [("long-row", "save/load of long rows raised %s" % r)]
    if r["names_n"] != len(c["lens"]):
        out.append(("node-count", "%d nodes for %d rows" % (r["names_n"], len(c["lens"]))))
    for pr, x in zip(c["probes"], r["probes"]):
        if not x["ok"]:
            key = "roundtrip" if (pr["keys"] is None and pr["stride"] == 1) else "stride-subset"
            out.append((key, "rows of %s %s%s items: load(keys=%s, stride=%d) differs from slicing the saved rows: %s" % (
                c["lens"], c["dtype"], c["tail"] or "", pr["keys"], pr["stride"], x["why"])))
    for sp, x in zip(c["striped"], r["striped"]):
        if not x["ok"]:
            out.append(("striped-h5", "rows of %s %s items: load_h5_as_striped(stride=%d) at world size %d: %s" % (
                c["lens"], c["dtype"], sp["stride"], sp["P"], x["why"])))
    for sp, x in zip(c["striped"], r["striped_npy"]):
        if not x["ok"]:
            out.append(("striped-npy", "files of %s %s items: load_npy_as_striped(stride=%d) at world size %d: %s" % (
                c["lens"], c["dtype"], sp["stride"], sp["P"], x["why"])))
    return _first_per_key(out, "probes")


def _first_per_key(out, what):
    """one line per clause: the first place it fails at, and how many more there are"""
    first, count = {}, {}
    for key, msg in out:
        first.setdefault(key, msg)
        count[key] = count.get(key, 0) + 1
    return [(key, msg + (" [and at %d more %s]" % (count[key] - 1, what) if count[key] > 1 else ""))
            for key, msg in first.items()]


def _oracle_ord(c, r):
    out = []
    if "err" in r:
        return [("ord", "writing the files raised %s" % r)]
    fs, s = c["files"], c["stride"]
    exp_len = [_ceil(len(f["elems"]), s) for f in fs]
    rels = [f["rel"] for f in fs]
    for name, key in (("npy", "striped-npy"), ("lf_npy", "load-features-npy"), ("h5", "striped-h5"), ("lf_h5", "load-features-h5")):
        for P, per_rank in r[name].items():
            P = int(P)
            for rank, x in enumerate(per_rank):
                where = "%s, world size %d rank %d, stride %d, files %s" % (name, P, rank, s, rels)
                if "err" in x:
                    out.append((key, "%s: raised %s" % (where, x["err"])))
                    continue
                if x["lengths"] != exp_len:
                    out.append((key + "-lengths", "%s: global lengths %s, in the caller's order they are %s" % (
                        where, x["lengths"], exp_len)))
                exp = [e for f in fs[rank::P] for e in f["elems"][::s]]
                if x["data"] != exp or x["dtype"] != c["dtype"] or x["tail"] != c["tail"]:
                    out.append((key, "%s: the rank's stripe is not files[%d::%d] of the caller's list, strided" % (where, rank, P)))
    for name, x in r.get("trj", {}).items():
        key = "concat" if name == "lac" else "striped-trj"
        where = "trajectory files %s (%s frames, stride %d, processes=%d), %s" % (
            [f["rel"][:-4] + ".h5" for f in fs], [len(f["elems"]) for f in fs], s, c["trj"],
            "load_as_concatenated" if name == "lac" else "load_trajectory_as_striped at world size 1")
        if "err" in x:
            out.append((key, "%s: raised %s" % (where, x["err"])))
            continue
        if not x["lengths_ok"]:
            out.append((key + "-lengths", "%s: lengths %s, in the caller's order they are %s" % (where, x["lengths"], exp_len)))
        if not x["data_ok"]:
            out.append((key, "%s: xyz is not the concatenation of the individual loads in the caller's order" % where))
    return _first_per_key(out, "(world size, rank) pairs")


def _oracle_zrow(c, r):
    """the serial loader's report of the same file is the reference: one length per table (zeros included), tables in
    listed (= name) order; a strided load is the slicing of the full load; rank r of n holds tables r, r+n, ... strided"""
    out = []
    if "err" in r:
        return [("zrow", "writing the file raised %s" % r)]
    nodes, s = c["nodes"], c["stride"]
    rows = [nd["elems"] for nd in nodes]
    what = "file with tables of %s rows (%s%s, EArrays %s..), stride %d" % (
        [len(x) for x in rows], c["dtype"], c["tail"] or "", nodes[0]["name"], s)
    if r["names"] != [nd["name"] for nd in nodes]:
        out.append(("listing-order", "%s: list_nodes gave %s" % (what, r["names"])))
    full, strided = r["full"], r["strided"]
    if "err" in full or "err" in strided:
        return out + [("roundtrip", "%s: ra.load raised %s / %s" % (what, full.get("err"), strided.get("err")))]
    if full.get("t") != "ra" or strided.get("t") != "ra":
        return out + [("roundtrip", "%s: ra.load did not return a RaggedArray" % what)]
    if _split(full, len(rows)) != rows or full["lengths"] != [len(x) for x in rows]:
        out.append(("roundtrip", "%s: ra.load reports lengths %s and not the tables' rows" % (what, full["lengths"])))
    if full["dtype"] != c["dtype"] or full["tail"] != c["tail"]:
        out.append(("roundtrip-dtype", "%s: dtype/shape %s %s" % (what, full["dtype"], full["tail"])))
    full_rows = _split(full, len(rows))
    if _split(strided, len(rows)) != [x[::s] for x in full_rows] or strided["lengths"] != [_ceil(L, s) for L in full["lengths"]]:
        out.append(("stride-subset", "%s: load(stride=%d) reports lengths %s; slicing the full load gives %s" % (
            what, s, strided["lengths"], [_ceil(L, s) for L in full["lengths"]])))
    ser_rows = _split(strided, len(rows))
    for P, per_rank in r["h5"].items():
        P = int(P)
        for rank, x in enumerate(per_rank):
            where = "%s, world size %d rank %d" % (what, P, rank)
            if "err" in x:
                out.append(("striped-h5", "%s: load_h5_as_striped raised %s" % (where, x["err"])))
                continue
            if x["lengths"] != strided["lengths"]:
                out.append(("striped-h5-lengths", "%s: global lengths %s, but the serial loader (ra.load) reports %s" % (
                    where, x["lengths"], strided["lengths"])))
            exp = [e for row in ser_rows[rank::P] for e in row]
            if x["data"] != exp or x["dtype"] != c["dtype"] or x["tail"] != c["tail"]:
                out.append(("striped-h5", "%s: the rank's local array (%d items, %s%s) is not tables %s of the serial load "
                            "(%d items)" % (where, len(x["data"]), x["dtype"], x["tail"] or "", list(range(len(rows)))[rank::P], len(exp))))
    return _first_per_key(out, "(world size, rank) pairs")


def _oracle_extra(c, r):
    out = []
    if c["kind"] == "longrow":
        return _oracle_longrow(c, r)
    if c["kind"] == "zrow":
        return _oracle_zrow(c, r)
    if c["kind"] == "ord":
        return _oracle_ord(c, r)
    if c["kind"] == "long":
        if "err" in r:
            return [("long-row", "save/load of a long row raised %s" % r)]
        if not r["roundtrip"]:
            out.append(("roundtrip", "rows %s: save/load does not return the data" % c["lens"]))
        if not r["stride_eq_slice"]:
            out.append(("stride-subset", "rows %s stride %d: load(stride) differs from slicing the full load" % (c["lens"], c["stride"])))
    else:
        for tag in ("first", "second"):
            x = r.get(tag, {})
            if "err" in x or not x.get("lengths_ok") or not x.get("data_ok"):
                out.append(("lac-history" if tag == "second" else "lac-concat",
                            "%s load of files with lengths %s: %s" % (tag, c["lens"] if tag == "first" else c["lens2"], x)))
    return out


def oracle(c, r):
    if "err" in r and str(r["err"]).startswith("Unexpected"):
        return [("harness", str(r))]
    if c["kind"] in ("long", "lachist", "longrow", "ord", "zrow"):
        return _oracle_extra(c, r)
    if c["kind"] == "lac2":
        return _oracle_lac2(c, r)
    if c["kind"] == "ra" and c.get("prev"):
        hist = "; ".join("%s %s%s %s, tag %r" % ("ndarray of" if q["form"] == "nd" else "RaggedArray of %d rows," % len(q["rows"]),
                                                 q["dtype"], q["tail"] or "", [len(x) for x in q["rows"]][:14], q["tag"]) for q in c["prev"])
        now = "%s %s%s rows %s, tag %r" % (c["form"], c["dtype"], c["tail"] or "", [len(x) for x in c["rows"]][:14], c["tag"])
        return [(k, "file history: saved to the same path before: [%s]; then saved %s: %s" % (hist, now, msg))
                for k, msg in _oracle_main(c, r)]
    return _oracle_main(c, r)


def _oracle_main(c, r):
    out = []
    if c["kind"] == "ra":
        rows, s = c["rows"], c["stride"]
        if any(len(x) == 0 for x in rows):
            if "save_err" not in r:
                out.append(("zero-length-row", "saving a zero-length row did not raise: %s" % str(r)[:200]))
            return out
        if "save_err" in r:
            return [("save", "ra.save raised %s" % r["save_err"])]
        if r["names_n"] != len(rows):
            out.append(("node-count", "%d nodes for %d rows" % (r["names_n"], len(rows))))
        # full load: same values, dtype, row order, row lengths
        full = r["full"]
        if "err" in full:
            out.append(("roundtrip", "full load raised %s" % full["err"]))
        else:
            if full["dtype"] != c["dtype"] or full["tail"] != c["tail"]:
                out.append(("roundtrip-dtype", "dtype/shape %s %s" % (full["dtype"], full["tail"])))
            got_rows = _split(full, len(rows))
            if got_rows != rows:
                out.append(("roundtrip", "full load differs from the saved rows (n=%d)" % len(rows)))
        # strided / subset load = slicing the full load
        idxs = list(range(len(rows))) if c["idxs"] is None else c["idxs"]
        exp = [rows[i][::s] for i in idxs]
        m = r["main"]
        if "err" in m:
            out.append(("stride-subset", "load raised %s" % m["err"]))
        else:
            if m["dtype"] != c["dtype"] or m["tail"] != c["tail"]:
                out.append(("stride-subset-dtype", "dtype/shape %s %s" % (m["dtype"], m["tail"])))
            if _split(m, len(idxs)) != exp:
                out.append(("stride-subset", "load(keys=%s, stride=%d) differs from slicing the rows" % (c["idxs"], s)))
        st = r["striped"]
        if "err" in st:
            out.append(("striped-h5", "load_h5_as_striped raised %s" % st["err"]))
        else:
            if st["lengths"] != [_ceil(len(x), s) for x in rows]:
                out.append(("striped-h5-lengths", "global lengths %s" % st["lengths"][:10]))
            if st["data"] != [e for x in rows for e in x[::s]] or st["dtype"] != c["dtype"]:
                out.append(("striped-h5", "striped data differ from the strided rows"))
    elif c["kind"] == "raw":
        exp_names = sorted(nd["name"] for nd in c["nodes"])
        if r["names"] != exp_names:
            out.append(("listing-order", "list_nodes gave %s" % r["names"]))
    elif c["kind"] == "npy":
        fs, s = c["files"], c["stride"]
        consistent = all(f["dtype"] == fs[0]["dtype"] and f["tail"] == fs[0]["tail"] for f in fs)
        if consistent:
            if "err" in r:
                out.append(("striped-npy", "load_npy_as_striped raised %s" % r["err"]))
            else:
                if r["lengths"] != [_ceil(len(f["elems"]), s) for f in fs]:
                    out.append(("striped-npy-lengths", "global lengths %s" % r["lengths"]))
                if r["data"] != [e for f in fs for e in f["elems"][::s]] or r["dtype"] != fs[0]["dtype"]:
                    out.append(("striped-npy", "data differ from the concatenated strided files"))
    else:
        if "ref_err" in r:
            # md.load of one of the files with its own selection raises (an atom named twice): there is no
            # concatenation of individual loads to compare with, the property demands nothing here
            return out
        exp_len = r["indiv_len"]
        for f, n, L in zip(c["files"], r["nframes"], exp_len):
            want = 1 if f["frame"] is not None else _ceil(n, f["stride"])
            if L != want:
                out.append(("mdtraj-contract", "md.load gave %d frames, ceil(%d/%d) = %d" % (L, n, f["stride"], want)))
        for p, run in r["runs"].items():
            if "err" in run:
                out.append(("concat", "processes=%s raised %s" % (p, run["err"])))
                continue
            if run["lengths"] != exp_len:
                out.append(("concat-lengths", "processes=%s lengths %s expected %s" % (p, run["lengths"], exp_len)))
            if run["digest"] != r["expected"] or run["dtype"] != "float32":
                out.append(("concat", "processes=%s: xyz differs from the concatenation of the individual loads" % p))
            if c.get("selform") is not None and run["digest"] != r["expected"]:
                how = ("load_as_concatenated(files, processes=%s, stride=%s, atom_indices=<%s> %s)" % (
                    p, c["files"][0]["stride"], c["selform"], c["files"][0]["sel"]) if c["shared"] else
                       "load_as_concatenated(files, processes=%s, args=[per file: atom_indices=<%s> %s, strides %s])" % (
                    p, c["selform"], [f["sel"] for f in c["files"]], [f["stride"] for f in c["files"]]))
                what = "files %s: %s" % ([f["fn"] for f in c["files"]], how)
                if run["digest"] == r.get("expected_sorted"):
                    out.append(("concat-atom-order", "%s returns the atoms in ASCENDING order of their indices, not in the order "
                                "of the selection as md.load(file, atom_indices=...) of each file does; atom columns %s differ" % (
                                    what, run.get("bad_atom_columns"))))
                else:
                    out.append(("concat-atom-selection", "%s: shape %s, atom columns %s differ from the individual loads with the "
                                "same selection%s" % (what, run.get("shape"), run.get("bad_atom_columns"),
                                                      "" if "shape" in run else " (another atom count)")))
    return out


def _oracle_lac2(c, r):
    out = []
    if "err" in r:
        return [("lac-history", "writing the files raised %s" % r)]
    for k, (st, rec) in enumerate(zip(c["steps"], r["steps"])):
        name = "load_as_concatenated" if st["entry"] == "lac" else "concatenate_trjs"
        where = "load %d of %d in one process: %s(files of %s frames, atoms %s, processes=%d)" % (
            k + 1, len(c["steps"]), name, [c["lens"][i] for i in st["files"]], st["sel"], st["procs"])
        if "err" in rec:
            out.append(("concat", "%s raised %s" % (where, rec["err"])))
            continue
        if "lengths" in rec and rec["lengths"] != rec["lengths_expected"]:
            out.append(("concat-lengths", "%s: lengths %s expected %s" % (where, rec["lengths"], rec["lengths_expected"])))
        if rec["at_return"] != rec["expected"]:
            out.append(("concat", "%s: the result is not the concatenation of the individual loads" % where))
            if c.get("selform") is not None and st["sel"] is not None:
                out.append(("concat-atom-order" if rec["at_return"] == rec.get("expected_sorted") else "concat-atom-selection",
                            "%s with atom_indices=<%s> %s: %s" % (where, c["selform"], st["sel"],
                             "the atoms come back in ASCENDING order of their indices, not in the order of the selection"
                             if rec["at_return"] == rec.get("expected_sorted") else
                             "the atom columns differ from the individual loads with the same selection")))
        elif rec.get("at_end") != rec["expected"]:
            later = [j + 1 for i, j in r["aliased"] if i == k]
            out.append(("concat-kept-result", "%s: correct when returned, but after the later load(s) the SAME array no longer "
                        "holds this concatenation%s; all steps: %s" % (
                            where, " (it shares memory with the result of load %s)" % later if later else "",
                            [(s_["entry"], [c["lens"][i] for i in s_["files"]], s_["sel"]) for s_ in c["steps"]])))
    return out


def _split(m, nrows):
    """canonical load result -> list of rows (a single-array file is one row)"""
    if m["t"] == "nd":
        return [m["data"]]
    rows, pos = [], 0
    for L in m["lengths"]:
        rows.append(m["data"][pos:pos + L])
        pos += L
    if pos != len(m["data"]):
        rows.append(["<%d trailing items>" % (len(m["data"]) - pos)])
    return rows


# ----------------------------------------------------------------------------- Coq side
def _celem(e):
    return clist(e, cz, "Z")


def _celems(es):
    return clist(es, _celem, "elem")


def _cstr(s):
    return clist([ord(ch) for ch in s], cn, "nat")


def _cnl(l):
    return clist(l, cn, "nat")


def _dtc(name):
    return cn(DTYPES.index(name) if name in DTYPES else 99)


def _cloaded(m):
    if "err" in m:
        return "(LErr %s)" % cn(ERRC.get(m["err"], 99))
    if m["t"] == "nd":
        return "(LNd %s %s %s)" % (_dtc(m["dtype"]), _cnl(m["tail"]), _celems(m["data"]))
    return "(LRa %s %s %s %s)" % (_dtc(m["dtype"]), _cnl(m["tail"]), _cnl(m["lengths"]), _celems(m["data"]))


def _carr(c):
    if c["form"] == "nd":
        return "(Nd %s %s %s)" % (_dtc(c["dtype"]), _cnl(c["tail"]), _celems(c["rows"][0]))
    return "(Ra %s %s %s)" % (_dtc(c["dtype"]), _cnl(c["tail"]), clist(c["rows"], _celems, "(list elem)"))


def _cfile(c):
    return clist(c["nodes"], lambda nd: "(mkNode %s %s %s %s)" % (
        _cstr(nd["name"]), _dtc(nd["dtype"]), _cnl(nd["tail"]), _celems(nd["elems"])), "node")


def _czl(l):
    return clist(l, cz, "Z")


def _gen_ra(c, r):
    """the regenerated definitions (Gen/StoreGen.v) evaluated on the case: node names, announced lengths, the
    fill loop / single-key read, the striped lengths"""
    rows, s = c["rows"], cz(c["stride"])
    n = len(rows)
    w = "gen_n_zeros_nd" if c["form"] == "nd" else "(gen_n_zeros %s)" % cz(n)
    out = " && leqb str_eqb (g_names %s %s %s) %s" % (_cstr(c["tag"]), w, cn(n), clist(r["names"], _cstr, "str"))
    m = r["main"]
    sel = rows if c["idxs"] is None else [rows[i] for i in c["idxs"]]
    sel_t = clist(sel, _celems, "(list elem)")
    if "err" not in m and m["t"] == "ra":
        out += " && g_ra_ok %s %s %s %s %s" % (_cnl(c["tail"]), s, sel_t, _czl(m["lengths"]), _celems(m["data"]))
    elif "err" not in m:
        out += " && g_nd_ok %s %s %s" % (s, sel_t, _celems(m["data"]))
    st = r["striped"]
    if "err" not in st:
        out += " && g_h5_ok %s %s %s" % (s, clist(rows, _celems, "(list elem)"), _czl(st["lengths"]))
    return out


def _cres(lengths, data):
    return "(inr (%s, %s))" % (_cnl(lengths), _celems(data))


def _lac_term(c, r):
    files = clist(list(zip(c["files"], r["nframes"], r["indiv_bits"])), lambda t: "(mkTrj %s %s %s %s)" % (
        cn(t[1]), cz(t[0]["stride"]), cb(t[0]["frame"] is not None), _celems(t[2])), "trjfile")
    hint = copt(r["indiv_len"] if c["hint"] else None, _cnl, "(list nat)")
    k = len(r["indiv_bits"][0][0]) if r["indiv_bits"] and r["indiv_bits"][0] else 0
    zero = clist([0] * k, cz, "Z")
    return "load_as_concatenated %s %s %s %s" % (_cnl(c["sched"]), hint, zero, files)


def _ord_npy_files(c):
    return clist(c["files"], lambda f: "(%s, %s, %s)" % (_dtc(c["dtype"]), _cnl(c["tail"]), _celems(f["elems"])),
                 "(nat * list nat * list elem)")


def _ord_arr(c):
    return "(Ra %s %s %s)" % (_dtc(c["dtype"]), _cnl(c["tail"]), clist([f["elems"] for f in c["files"]], _celems, "(list elem)"))


def _ord_term(c, r):
    """every rank of every world size: the model's striped loaders (rank, size as arguments) and the regenerated stripe
    expression against what that rank of the real code returned"""
    parts = ["leqb str_eqb (arr_keys %s %s) %s" % (_cstr("arr"), _ord_arr(c), clist(r["names"], _cstr, "str"))]
    files_t, s = _ord_npy_files(c), cz(c["stride"])
    rows_t = clist([f["elems"] for f in c["files"]], _celems, "(list elem)")
    for name in ("npy", "lf_npy", "h5", "lf_h5"):
        for P, per_rank in r[name].items():
            for rank, x in enumerate(per_rank):
                exp = ("(inl %s)" % _cloaded(x)) if "err" in x else _cres(x["lengths"], x["data"])
                if name in ("npy", "lf_npy"):
                    parts.append("res_eqb (load_npy_as_striped %s %s %s %s) %s" % (cn(rank), cn(int(P)), files_t, s, exp))
                else:
                    parts.append("match save %s %s with Some f => res_eqb (load_h5_as_striped %s %s f %s) %s | None => false end" % (
                        _cstr("arr"), _ord_arr(c), cn(rank), cn(int(P)), s, exp))
                if "err" not in x and name == "npy":
                    parts.append("g_npy_ok_at %s %s %s %s %s %s %s" % (
                        cz(rank), cz(int(P)), _cnl(c["tail"]), s, rows_t, _czl(x["lengths"]), _celems(x["data"])))
    return " && ".join("(%s)" % p for p in parts)


def _zrow_file(c):
    return clist(c["nodes"], lambda nd: "(mkNode %s %s %s %s)" % (
        _cstr(nd["name"]), _dtc(c["dtype"]), _cnl(c["tail"]), _celems(nd["elems"])), "node")


def _zrow_term(c, r):
    """the model's loaders on the file as a node list (zero-row nodes included): serial loads and every rank of every world"""
    f, s = _zrow_file(c), cz(c["stride"])
    parts = ["leqb str_eqb (sort_keys (map nkey f)) %s" % clist(r["names"], _cstr, "str"),
             "loaded_eqb (load f None 1%%Z) %s" % _cloaded(r["full"]),
             "loaded_eqb (load f None %s) %s" % (s, _cloaded(r["strided"]))]
    for P, per_rank in r["h5"].items():
        for rank, x in enumerate(per_rank):
            exp = ("(inl %s)" % _cloaded(x)) if "err" in x else _cres(x["lengths"], x["data"])
            parts.append("res_eqb (load_h5_as_striped %s %s f %s) %s" % (cn(rank), cn(int(P)), s, exp))
    return "(let f := %s in %s)" % (f, " && ".join("(%s)" % p for p in parts))


def coq_show(c):
    if c["kind"] in ("long", "lachist", "longrow", "lac2"):
        return "tt"
    if c["kind"] == "zrow":
        return "map (fun P => map (fun r => load_h5_as_striped r P %s %s) (seq 0 P)) %s" % (
            _zrow_file(c), cz(c["stride"]), _cnl(c["worlds"]))
    if c["kind"] == "ord":
        return "map (fun P => map (fun r => load_npy_as_striped r P %s %s) (seq 0 P)) %s" % (
            _ord_npy_files(c), cz(c["stride"]), _cnl(c["worlds"]))
    if c["kind"] == "ra":
        return "(save_load_rows %s %s %s %s, save_striped %s %s %s)" % (
            _cstr(c["tag"]), _carr(c), copt(c["idxs"], _cnl, "(list nat)"), cz(c["stride"]),
            _cstr(c["tag"]), _carr(c), cz(c["stride"]))
    if c["kind"] == "raw":
        return "load %s %s %s" % (_cfile(c), copt(c["keys"], lambda ks: clist(ks, _cstr, "str"), "(list str)"),
                                  cz(c["stride"]))
    if c["kind"] == "npy":
        return "load_npy_as_striped 0 1 %s %s" % (clist(c["files"], lambda f: "(%s, %s, %s)" % (
            _dtc(f["dtype"]), _cnl(f["tail"]), _celems(f["elems"])), "(nat * list nat * list elem)"), cz(c["stride"]))
    return "length (offsets %s)" % _cnl([1] * len(c["files"]))


def coq_check(c, r):
    if c["kind"] in ("long", "lachist", "longrow", "lac2"):
        return None        # oracle-only cases (sizes / file histories outside the Coq model's evaluation)
    if "err" in r and str(r["err"]).startswith("Unexpected"):
        return None
    if c["kind"] == "ord":
        return _ord_term(c, r)
    if c["kind"] == "zrow":
        return _zrow_term(c, r) if "h5" in r else None
    if c["kind"] == "ra":
        args = "%s %s" % (_cstr(c["tag"]), _carr(c))
        if "save_err" in r:
            return "opt_eqb loaded_eqb (save_load_rows %s None 1%%Z) None" % args
        st = r["striped"]
        st_t = ("(inl %s)" % _cloaded(st)) if "err" in st else _cres(st["lengths"], st["data"])
        return ("opt_eqb loaded_eqb (save_load_rows %s %s %s) (Some %s) && "
                "opt_eqb res_eqb (save_striped %s %s) (Some %s)%s") % (
            args, copt(c["idxs"], _cnl, "(list nat)"), cz(c["stride"]), _cloaded(r["main"]),
            args, cz(c["stride"]), st_t, _gen_ra(c, r))
    if c["kind"] == "raw":
        return "loaded_eqb (%s) %s && leqb str_eqb (sort_keys (map nkey %s)) %s" % (
            coq_show(c), _cloaded(r["main"]), _cfile(c), clist(r["names"], _cstr, "str"))
    if c["kind"] == "npy":
        exp = ("(inl %s)" % _cloaded(r)) if "err" in r else _cres(r["lengths"], r["data"])
        gen = ""
        if "err" not in r:
            gen = " && g_npy_ok %s %s %s %s %s" % (
                _cnl(c["files"][0]["tail"]), cz(c["stride"]),
                clist([f["elems"] for f in c["files"]], _celems, "(list elem)"), _czl(r["lengths"]), _celems(r["data"]))
        return "res_eqb (%s) %s%s" % (coq_show(c), exp, gen)
    if "indiv_bits" not in r or "xyz_bits" not in r:
        return None
    run = next((x for x in r["runs"].values() if x.get("digest") == r.get("xyz_digest")), None)
    if run is None:
        return None
    k = len(r["indiv_bits"][0][0]) if r["indiv_bits"] and r["indiv_bits"][0] else 0
    gen = " && g_lac_ok %s %s %s %s %s" % (
        _cnl(c["sched"]), clist([0] * k, cz, "Z"), _czl(run["lengths"]),
        clist(r["indiv_bits"], _celems, "(list elem)"), _celems(r["xyz_bits"]))
    if c["hint"]:
        gen += " && negb (gen_hint_bad %s %s)" % (cz(len(run["lengths"])), cz(len(c["files"])))
    else:       # sounded: the generated ordered-starmap-plus-insert gives the lengths, in file order
        gen += " && leqb Z.eqb (gen_lac_lengths %s) %s" % (
            clist(list(zip(c["files"], r["nframes"])), lambda t: "(%s, %s, %s)" % (
                cz(t[1]), cz(t[0]["stride"]), cb(t[0]["frame"] is not None)), "trjspec"), _czl(run["lengths"]))
    return "res_eqb (%s) %s%s" % (_lac_term(c, r), _cres(run["lengths"], r["xyz_bits"]), gen)


# ----------------------------------------------------------------------------- evidence
def nontrivial(c, r):
    if c["kind"] == "lac2":
        if c.get("selform") is not None:        # the order of the selection decides the expected data in some step
            return ("steps" in r and all("at_end" in x for x in r["steps"]) and
                    any(x["expected"] != x.get("expected_sorted") for x in r["steps"]))
        return "steps" in r and all("at_end" in x for x in r["steps"])
    if c["kind"] == "lac" and c.get("selform") is not None:
        return "expected" in r and r["expected"] != r.get("expected_sorted")
    if c["kind"] in ("long", "lachist", "longrow"):
        return True
    if c["kind"] == "ord":
        return len(c["files"]) >= 2 and [f["rel"] for f in c["files"]] != sorted(f["rel"] for f in c["files"])
    if c["kind"] == "zrow":
        return "h5" in r and any(len(nd["elems"]) == 0 for nd in c["nodes"]) and any(len(nd["elems"]) for nd in c["nodes"])
    if c["kind"] == "ra":
        rows = c["rows"]
        return (len({len(x) for x in rows}) >= 2 or c["stride"] > 1 or
                (c["idxs"] is not None and c["idxs"] != list(range(len(rows)))))
    if c["kind"] == "raw":
        return len(c["nodes"]) >= 2
    if c["kind"] == "npy":
        return len({_ceil(len(f["elems"]), c["stride"]) for f in c["files"]}) >= 2
    return len(set(r.get("indiv_len", []))) >= 2


def tags(c, r):
    t = [c["kind"]]
    if c["kind"] == "longrow":
        if "probes" in r:
            if max(c["lens"]) > (1 << 21):
                t.append("row>2^21")
            if max(c["lens"]) > (1 << 24):
                t.append("row>2^24")
            if c["tail"]:
                t.append("longrow-multi-dim")
            if any(p["keys"] is not None and len(p["keys"]) > 1 for p in c["probes"]):
                t.append("longrow-key-subset")
            if any(p["stride"] > (1 << 19) for p in c["probes"]):
                t.append("longrow-stride>2^19")
            if any(sp["P"] > 1 for sp in c["striped"]):
                t.append("longrow-striped-world-2")
    elif c["kind"] == "ord":
        if "npy" in r:
            t.append("ord-" + c["layout"])
            t.append("ord-equal-lengths" if c["equal"] else "ord-unequal-lengths")
            for P in c["worlds"]:
                t.append("ord-world-%d" % P)
            if "trj" in r:
                t.append("ord-trajectories")
            if any("err" not in x and len(x["lengths"]) and len(c["files"][rank::int(P)]) == 1
                   for P, pr in r["h5"].items() for rank, x in enumerate(pr)):
                t.append("ord-h5-rank-owns-one-row")
    elif c["kind"] == "zrow":
        if "h5" in r and all("err" not in x for pr in r["h5"].values() for x in pr):
            z = [i for i, nd in enumerate(c["nodes"]) if not nd["elems"]]
            n = len(c["nodes"])
            if 0 in z:
                t.append("zrow-first")
            if n - 1 in z:
                t.append("zrow-last")
            if any(0 < i < n - 1 for i in z):
                t.append("zrow-middle")
            if len(z) >= 2:
                t.append("zrow-two-empty-tables")
            for P in c["worlds"]:
                t.append("zrow-world-%d" % P)
                if any(all(i in z for i in range(n)[rank::P]) for rank in range(P)):
                    t.append("zrow-rank-holds-no-row")
            if c["stride"] > 1:
                t.append("zrow-stride>1")
            if c["tail"]:
                t.append("zrow-multi-dim")
            if not c["nodes"][0]["name"].startswith("arr_"):
                t.append("zrow-other-tag")
    elif c["kind"] == "lac2":
        if "steps" in r and all("at_end" in x for x in r["steps"]):
            t.append("lac2-" + c["variant"])
            shapes = [(sum(c["lens"][i] for i in st["files"]), None if st["sel"] is None else len(st["sel"])) for st in c["steps"]]
            if any(shapes[i] == shapes[j] for i in range(len(shapes)) for j in range(i + 1, len(shapes))):
                t.append("lac2-equal-overall-shape")
            if any(shapes[i] == shapes[i + 1] and c["steps"][i]["files"] != c["steps"][i + 1]["files"] for i in range(len(shapes) - 1)):
                t.append("lac2-equal-shape-other-files")
            if len(c["steps"]) >= 3:
                t.append("lac2-three-loads")
            if any(st["entry"] == "ctrjs" for st in c["steps"]):
                t.append("lac2-concatenate-trjs")
            if len({st["procs"] for st in c["steps"]}) >= 2:
                t.append("lac2-worker-counts-differ")
            if c.get("selform") is not None and any(x["expected"] != x.get("expected_sorted") for x in r["steps"]):
                t.append("lac2-sel-unsorted")
                if c.get("same_atoms") and len({tuple(sorted(st["sel"])) for st in c["steps"]}) == 1 and \
                        len({tuple(st["sel"]) for st in c["steps"]}) >= 2:
                    t.append("lac2-sel-same-atoms-other-order")
                if any(st["entry"] == "lac" and x["expected"] != x.get("expected_sorted")
                       for st, x in zip(c["steps"], r["steps"])):
                    t.append("lac2-sel-unsorted-bulk-load")
    elif c["kind"] == "ra":
        n = len(c["rows"])
        t.append("form-" + c["form"])
        if c.get("prev") and "names" in r:
            t.append("resave")
            t.append("resave-" + c["resave"])
            if len(c["prev"]) >= 2:
                t.append("resave-three-saves")
            if any(q["tag"] != c["tag"] for q in c["prev"]):
                t.append("resave-other-tag")
            if any(q["dtype"] != c["dtype"] for q in c["prev"]):
                t.append("resave-other-dtype")
        if c["form"] == "ra":
            t.append("rows-1" if n == 1 else "rows-2..9" if n < 10 else "rows-10..99" if n < 100 else "rows>=100")
        if c["stride"] > 1:
            t.append("stride>1")
        if c["idxs"] is not None:
            t.append("key-subset" if len(c["idxs"]) != 1 else "single-key")
            n_ = len(c["rows"])
            if sorted(c["idxs"]) == list(range(n_)) and c["idxs"] != list(range(n_)):
                st_ = [x[::c["stride"]] for x in c["rows"]]
                if [st_[i] for i in c["idxs"]] != st_:      # the reordering changes the loaded data
                    t.append("keys-permuted")
                    if len({len(x) for x in st_}) == 1:
                        t.append("keys-permuted-equal-lengths")
                    if c["idxs"] == list(range(n_))[::-1]:
                        t.append("keys-reversed")
        if c["tail"]:
            t.append("multi-dim-elements")
        if any(len(x) == 0 for x in c["rows"]):
            t.append("zero-length-row-rejected")
        if "main" in r and r["main"].get("t") == "nd" and c["stride"] > 1:
            t.append("single-array-strided")
        t.append("dtype-" + np.dtype(c["dtype"]).kind)
    elif c["kind"] == "raw":
        t.append("raw-" + ("err-" + r["main"]["err"] if "err" in r["main"] else "value"))
    elif c["kind"] == "npy":
        t.append("npy-" + ("err-" + r["err"] if "err" in r else "value"))
        if c["stride"] > 1 and "err" not in r:
            t.append("npy-stride>1")
    elif c["kind"] == "lac":
        if any(f["frame"] is not None for f in c["files"]):
            t.append("lac-frame-kw")
        if c["hint"]:
            t.append("lac-lengths-hint")
        if c.get("distinct") and len(set(r.get("indiv_len", []))) == len(c["files"]):
            t.append("lac-sounded-distinct-lengths")
        if "3" in r.get("runs", {}):
            t.append("lac-processes-3")
        if c["shared"]:
            t.append("lac-shared-kwargs")
        if "xyz_bits" in r:
            t.append("lac-compared-in-coq")
        if len(c["files"]) >= 2 and c["sched"] != sorted(c["sched"]):
            t.append("lac-out-of-order-schedule")
        if c.get("selform") is not None:
            if "ref_err" in r:
                t.append("lac-sel-repeat-reference-raises")
                if any("err" not in x for x in r["runs"].values()):
                    t.append("lac-sel-repeat-bulk-load-returns")
            elif r.get("expected") != r.get("expected_sorted") and all("err" not in x for x in r["runs"].values()):
                t.append("lac-sel-unsorted")
                t.append("lac-sel-shared" if c["shared"] else "lac-sel-per-file")
                t.append("lac-sel-form-" + c["selform"])
                t.append("lac-sel-" + c["selorder"])
                if not c["shared"]:
                    if c["files"][0]["sel"] == sorted(c["files"][0]["sel"]):
                        t.append("lac-sel-first-file-ascending")
                    if len({tuple(f["sel"]) for f in c["files"]}) >= 2:
                        t.append("lac-sel-per-file-selections-differ")
                    if len({f["fn"] for f in c["files"]}) >= 2:
                        t.append("lac-sel-mixed-formats")
                else:
                    t.append("lac-sel-shared-" + c["files"][0]["fn"].split(".")[-1])
                if "xyz_bits" in r:
                    t.append("lac-sel-compared-in-coq")
    return t


ESSENTIAL_TAGS = ["form-ra", "form-nd", "rows-10..99", "rows>=100", "stride>1", "key-subset", "single-key",
                  "multi-dim-elements", "single-array-strided", "zero-length-row-rejected", "raw-value",
                  "raw-err-NoSuchNodeError", "raw-err-DataInvalid", "npy-stride>1", "lac-compared-in-coq",
                  "lac-out-of-order-schedule", "lac-frame-kw", "lac-lengths-hint",
                  "longrow", "row>2^21", "longrow-multi-dim", "longrow-key-subset", "longrow-stride>2^19",
                  "longrow-striped-world-2", "ord-unpadded", "ord-dirs-rev", "ord-dup-names", "ord-shuffled",
                  "ord-equal-lengths", "ord-unequal-lengths", "ord-world-1", "ord-world-2", "ord-world-3", "ord-world-4",
                  "ord-h5-rank-owns-one-row", "ord-trajectories", "keys-permuted", "keys-permuted-equal-lengths", "keys-reversed",
                  "lac-sounded-distinct-lengths", "lac-processes-3",
                  # round 3s
                  "resave", "resave-fewer", "resave-width", "resave-nd-after-ra", "resave-ra-after-nd", "resave-same",
                  "resave-three-saves", "resave-other-tag", "resave-other-dtype",
                  "lac2", "lac2-other-files", "lac2-other-selection", "lac2-other-files-unequal-total",
                  "lac2-equal-overall-shape", "lac2-equal-shape-other-files", "lac2-three-loads", "lac2-concatenate-trjs",
                  "lac2-worker-counts-differ",
                  # round 3s, second wave
                  "zrow", "zrow-first", "zrow-middle", "zrow-last", "zrow-two-empty-tables", "zrow-world-1", "zrow-world-2",
                  "zrow-world-3", "zrow-world-4", "zrow-rank-holds-no-row", "zrow-stride>1", "zrow-multi-dim", "zrow-other-tag",
                  # round 3s, third wave: atom selections that are not ascending
                  "lac-sel-unsorted", "lac-sel-shared", "lac-sel-per-file", "lac-sel-desc", "lac-sel-rot", "lac-sel-swap",
                  "lac-sel-shuffle", "lac-sel-all-desc", "lac-sel-first-file-ascending", "lac-sel-per-file-selections-differ",
                  "lac-sel-mixed-formats", "lac-sel-shared-xtc", "lac-sel-shared-h5", "lac-sel-compared-in-coq",
                  "lac-sel-repeat-reference-raises", "lac2-sel-unsorted", "lac2-sel-same-atoms-other-order",
                  "lac2-sel-unsorted-bulk-load"] + ["lac-sel-form-" + f for f in _SEL_FORMS]


def search(rng, tier):
    """deeper search used when a proof / the correspondence broke: row counts across the digit boundaries with
    every small stride, plus parallel loads"""
    found = []
    for n in [1, 2, 9, 10, 11, 12, 19, 20, 21, 99, 100, 101, 110, 111]:
        for s in (1, 2, 3):
            for idx in (None, [0], [n - 1], [n - 1, 0]):
                c = _ra_case(rng, n, True)
                c["stride"], c["idxs"] = s, idx
                r = run_impl(c)
                for key, msg in oracle(c, r):
                    found.append((key, msg, c, r))
                if found:
                    return found
    for c in ([_ra_case(rng, n, True, perm=pm, equal=eq) for n in (2, 3, 11) for pm in ("rev", "perm") for eq in (False, True)] +
              [_ord_case(rng, lay, eq) for lay in _ORD_LAYOUTS for eq in (False, True)] +
              [_longrow_case(rng, "quick") for _ in range(2)] + [_lac_distinct_case(rng) for _ in range(10)] +
              [_resave_case(rng, sh) for sh in _RESAVE_SHAPES] + [_lac2_case(rng) for _ in range(10)] +
              [_zrow_case(rng, wh) for wh in _ZROW_WHERE] + [_lac_sel_case(rng, j) for j in range(10)] +
              [_lac2_sel_case(rng, j) for j in range(4)]):
        r = run_impl(c)
        for key, msg in oracle(c, r):
            found.append((key, msg, c, r))
        if found:
            return found
    for _ in range(40):
        c = _npy_case(rng) if rng.random() < 0.5 else _lac_case(rng, True)
        r = run_impl(c)
        for key, msg in oracle(c, r):
            found.append((key, msg, c, r))
        if found:
            return found
    return found
