"""C03: transition counts equal the exact number of lagged state pairs."""
import os, sys
import numpy as np
from core import cz, cn, cb, clist, copt, VERIF
sys.path.insert(0, os.path.join(VERIF, "translator"))
import tr_counts

PID = "C03"
PROPS_FILE = "Props/C03.v"
MODEL_TARGETS = ["Model/Counts.vo"]
GEN_FILES = ["Gen/CountsGen.v"]
CASE_HEADER = "From Coq Require Import List ZArith.\nFrom EV Require Import PySlice CountsGen Counts.\nImport ListNotations.\n"
RULE = ("random sets of 1..5 state trajectories (lengths 1..10, incl. shorter than the lag), 2..5 states, lag 1..6, "
        "both window modes, explicit/inferred state count, trailing -1 padding, a quarter of the cases in int8/uint8/int16/int32 with state ids near n_states^2 overflow; each case is run on the real "
        "assigns_to_counts as RaggedArray, as -1-padded ndarray, with the trajectories reversed and split in two "
        "halves; non-trivial := at least one trajectory longer than the lag and >= 2 distinct states. "
        "Stream hist: ONE container object (-1-padded 2-D ndarray in int64/int32/int16, C or F order, or RaggedArray) is counted, edited in place "
        "(frames written into the padding, rows truncated, states lumped X[X==s]=d, single frames / whole rows overwritten, rows swapped, "
        "RaggedArray.append) and counted again with varying lag/window/max_n_states, also after `del` + reallocation of an equally "
        "shaped container and interleaved with counts of an unrelated object; every count is compared with the brute-force pair count "
        "of the content at that moment (and with the Coq model), and every call is bracketed by argument snapshots. "
        "Stream flag: sliding_window given as True/False, np.True_/np.False_ (also read out of a bool array), 1/0, np.int64/np.uint8 0/1 with lag >= 2 mostly, "
        "through assigns_to_counts (ragged and padded) and MSM(..., sliding_window=flag).fit(X).tcounts_. "
        "Stream refit: one MSM estimator (max_n_states inferred or given) fitted on 2..4 data sets with differing numbers of observed states; "
        "tcounts_ after every fit is compared with the brute-force count of that data set alone; in over half of the refit cases lag_time / "
        "sliding_window / max_n_states are changed between construction and a fit (set_params, attribute assignment, sklearn clone + set_params) "
        "and the counts must be those of the options the estimator shows at fit time; every flag case also fits an MSM constructed with other "
        "options and set to the case's options before the fit. "
        "Stream unsigned: uint8/uint16/uint32 (and int8/int16) assignments (RaggedArray, 2-D ndarray when the rows are equally long, -1-padded in the "
        "signed dtypes) whose states include the dtype's largest value (255 / 65535 / 4294967295, the values -1 wraps to; 127 / 32767), "
        "max_n_states = that value + 1 (+0..2) or inferred; counts are read as "
        "(row, col, value) triplets of the sparse result and must equal the brute-force pair count and the result for the same "
        "trajectories held as int64 (ragged and -1-padded); oracle only (the matrices have up to 2^32 rows)")
TRUSTED = ["translator/tr_counts.py (slice expressions of _transitions_helper -> PySlice.slice_list)",
           "modelled not verified: scipy coo_matrix duplicate summation, NumPy fancy indexing a[np.where(a != -1)]"]
ASSUMPTIONS = ["-1 occurs only as trailing padding (property wording); state ids are >= 0"]
EXHAUSTIVE = {"thorough": False}


def translate(repo):
    return tr_counts.translate(repo)


def generate(rng, tier):
    n = 400 if tier == "quick" else 4000
    cases = []
    for _ in range(n):
        ns = rng.randint(2, 5)
        ntr = rng.randint(1, 5)
        trjs = [[rng.randrange(ns) for _ in range(rng.choice([1, 1, 2, 3, 4, 5, 6, 7, 8, 10]))] for _ in range(ntr)]
        lag = rng.choice([1, 1, 2, 2, 3, 3, 4, 5, 6]) if rng.random() > 0.04 else rng.choice([0, -1, -3])   # malformed: lag < 1
        c = {"trjs": trjs, "lag": lag, "sliding": rng.random() < 0.5,
             "maxn": rng.choice([None, None, ns, ns + 2])}
        if rng.random() < 0.25:
            # narrow integer dtypes with state ids near their limits (n_states^2 overflows the dtype)
            c["dtype"] = rng.choice(["int8", "uint8", "int16", "int32"])
            big = {"int8": rng.randint(12, 20), "uint8": rng.randint(17, 24), "int16": rng.randint(5, 12),
                   "int32": rng.randint(5, 12)}[c["dtype"]]
            for t in trjs:
                for i in range(len(t)):
                    if rng.random() < 0.4:
                        t[i] = big - rng.randrange(3)
            c["maxn"] = rng.choice([None, big + 1])
        cases.append(c)
    k = 1 if tier == "quick" else 8
    for _ in range(200 * k):
        cases.append(_gen_hist(rng))
    for _ in range(120 * k):
        cases.append(_gen_flag(rng))
    for _ in range(60 * k):
        cases.append(_gen_refit(rng))
    for i in range(64 * k):
        cases.append(_gen_unsigned(rng, i))
    if tier == "thorough":
        # exhaustive small scope: <= 2 trajectories of length <= 4 over 2 states, lag <= 4, both modes
        import itertools
        seqs = [list(s) for L in range(1, 5) for s in itertools.product(range(2), repeat=L)]
        for a in seqs:
            for b in seqs[::3]:
                for lag in (1, 2, 3, 4):
                    for sl in (True, False):
                        cases.append({"trjs": [a, b], "lag": lag, "sliding": sl, "maxn": 2})
    return cases


# ---------------------------------------------------------------------------------------------
# streams: histories on one container object, forms of the sliding_window flag, estimator refits
# ---------------------------------------------------------------------------------------------
FLAG_TRUTH = {"True": True, "False": False, "np.True_": True, "np.False_": False, "1": True, "0": False,
              "np.int64(1)": True, "np.int64(0)": False, "np.uint8(1)": True, "np.uint8(0)": False,
              "boolarr[0]": True, "boolarr[1]": False}


def _flag(form):
    return {"True": True, "False": False, "np.True_": np.True_, "np.False_": np.False_, "1": 1, "0": 0,
            "np.int64(1)": np.int64(1), "np.int64(0)": np.int64(0), "np.uint8(1)": np.uint8(1),
            "np.uint8(0)": np.uint8(0), "boolarr[0]": np.array([True, False])[0],
            "boolarr[1]": np.array([True, False])[1]}[form]


def _apply(cur, st):
    """Effect of one history step on the content (list of state lists); pure."""
    cur = [list(t) for t in cur]
    op = st["op"]
    if op == "extend":
        cur[st["row"]] += st["vals"]
    elif op == "truncate":
        cur[st["row"]] = cur[st["row"]][:st["n"]]
    elif op == "lump":
        cur = [[st["dst"] if x == st["src"] else x for x in t] for t in cur]
    elif op == "set":
        cur[st["row"]][st["col"]] = st["val"]
    elif op == "setrow":
        cur[st["row"]] = list(st["vals"])
    elif op == "swap":
        i, j = st["i"], st["j"]
        cur[i], cur[j] = cur[j], cur[i]
    elif op == "append":
        cur += [list(t) for t in st["rows"]]
    elif op == "realloc":
        cur = [list(t) for t in st["trjs"]]
    return cur


def _count_params(rng, ns, lags=(1, 1, 2, 2, 3, 4)):
    return {"lag": rng.choice(lags), "sliding": rng.random() < 0.6, "maxn": rng.choice([None, None, ns, ns + 1])}


def _gen_hist(rng):
    cont = rng.choice(["padded", "padded", "ragged"])
    ns = rng.randint(2, 5)
    ntr = rng.randint(1, 4)
    c = {"kind": "hist", "container": cont, "dtype": rng.choice(["int64", "int64", "int32", "int16"]), "ns": ns}
    if cont == "padded":
        W = rng.randint(4, 12)
        c["width"], c["order"] = W, rng.choice(["C", "C", "F"])
        cur = [[rng.randrange(ns) for _ in range(rng.randint(1, W))] for _ in range(ntr)]
    else:
        W = None
        cur = [[rng.randrange(ns) for _ in range(rng.randint(1, 9))] for _ in range(ntr)]
    c["trjs"] = [list(t) for t in cur]
    first = dict(_count_params(rng, ns), op="count")
    steps = [first]
    last = first

    def mutation():
        ops = ["lump", "set", "setrow", "realloc"]
        if cont == "padded":
            ops += ["extend", "extend", "truncate"] + (["swap"] if len(cur) >= 2 else [])
        else:
            ops += ["append"]
        for _ in range(20):
            op = rng.choice(ops)
            row = rng.randrange(len(cur))
            if op == "extend":
                room = W - len(cur[row])
                if room > 0:
                    return {"op": op, "row": row, "vals": [rng.randrange(ns) for _ in range(rng.randint(1, min(room, 4)))]}
            elif op == "truncate":
                if len(cur[row]) > 1:
                    return {"op": op, "row": row, "n": rng.randint(1, len(cur[row]) - 1)}
            elif op == "lump":
                present = sorted({x for t in cur for x in t})
                src = rng.choice(present)
                dst = rng.choice([x for x in range(ns) if x != src])
                return {"op": op, "src": src, "dst": dst}
            elif op == "set":
                col = rng.randrange(len(cur[row]))
                return {"op": op, "row": row, "col": col, "val": (cur[row][col] + rng.randint(1, ns - 1)) % ns}
            elif op == "setrow":
                return {"op": op, "row": row, "vals": [rng.randrange(ns) for _ in cur[row]]}
            elif op == "swap":
                j = rng.choice([x for x in range(len(cur)) if x != row])
                return {"op": op, "i": row, "j": j}
            elif op == "append":
                if len(cur) < 7:
                    return {"op": op, "rows": [[rng.randrange(ns) for _ in range(rng.randint(1, 6))]
                                               for _ in range(rng.randint(1, 2))]}
            elif op == "realloc":
                # a new container of exactly the same shape (often lands at the same address once the old one is dropped)
                return {"op": op, "trjs": [[rng.randrange(ns) for _ in t] for t in cur]}
        return {"op": "set", "row": 0, "col": 0, "val": (cur[0][0] + 1) % ns}

    for _ in range(rng.randint(2, 6)):
        for _ in range(rng.choice([1, 1, 1, 2])):
            st = mutation()
            cur = _apply(cur, st)
            steps.append(st)
        if rng.random() < 0.25:
            steps.append(dict(_count_params(rng, ns), op="other",
                              trjs=[[rng.randrange(ns) for _ in range(rng.randint(1, 8))] for _ in range(rng.randint(1, 3))]))
        # mostly the very same call as before the edit (a stale answer is then plainly visible)
        last = dict(last) if rng.random() < 0.5 else dict(_count_params(rng, ns), op="count")
        steps.append(last)
        if rng.random() < 0.2:
            last = dict(_count_params(rng, ns), op="count")
            steps.append(last)
    c["steps"] = steps
    return c


def _gen_flag(rng):
    ns = rng.randint(2, 5)
    trjs = [[rng.randrange(ns) for _ in range(rng.choice([1, 2, 3, 4, 5, 6, 7, 8, 10]))] for _ in range(rng.randint(1, 4))]
    return {"kind": "flag", "trjs": trjs, "lag": rng.choice([1, 2, 2, 2, 3, 3, 4, 5]),
            "maxn": rng.choice([None, None, ns, ns + 2]),
            "flag": rng.choice(sorted(FLAG_TRUTH) + ["np.False_", "0", "False", "False", "False", "boolarr[1]", "np.int64(0)"])}


def _gen_refit(rng):
    fits = []
    for _ in range(rng.randint(2, 4)):
        ns = rng.randint(2, 6)
        trjs = [[rng.randrange(ns) for _ in range(rng.randint(1, 8))] for _ in range(rng.randint(1, 3))]
        fits.append({"trjs": trjs, "form": rng.choice(["ragged", "padded"])})
    top = max(x for f in fits for t in f["trjs"] for x in t) + 1
    c = {"kind": "refit", "fits": fits, "lag": rng.choice([1, 1, 2, 3]),
         "flag": rng.choice(["True", "False", "np.False_", "0", "1"]),
         "maxn": None if rng.random() < 0.8 else top + rng.randint(0, 1)}
    if rng.random() < 0.6:
        # options changed between construction and a fit (and between fits): fit must read them when it runs
        lag, flag, maxn = c["lag"], c["flag"], c["maxn"]
        for k, f in enumerate(fits):
            if rng.random() < (0.8 if k == 0 else 0.4):
                opts = {}
                for name in rng.sample(["lag_time", "sliding_window", "max_n_states"], rng.choice([1, 1, 2, 3])):
                    if name == "lag_time":
                        lag = opts[name] = rng.choice([x for x in (1, 2, 3, 4) if x != lag])
                    elif name == "sliding_window":
                        flag = opts[name] = rng.choice([x for x in ("True", "False", "np.False_", "0", "1", "np.True_")
                                                        if FLAG_TRUTH[x] != FLAG_TRUTH[flag]])
                    else:
                        maxn = opts[name] = rng.choice([x for x in (None, top, top + 1, top + 3) if x != maxn])
                f["set"] = {"how": rng.choice(["set_params", "set_params", "attr", "clone"]), "opts": opts}
    return c


def _refit_params(c):
    """(lag, flag form, max_n_states, changed-since-construction) in force at each fit of a refit case."""
    lag, flag, maxn, changed = c["lag"], c["flag"], c["maxn"], []
    out = []
    for f in c["fits"]:
        for name, v in sorted(f.get("set", {}).get("opts", {}).items()):
            if name == "lag_time":
                lag = v
            elif name == "sliding_window":
                flag = v
            else:
                maxn = v
            changed.append(name)
        out.append((lag, flag, maxn, sorted(set(changed))))
    return out


UMAX = {"uint8": 255, "uint16": 65535, "uint32": 4294967295, "int8": 127, "int16": 32767}     # largest state a dtype can hold


UDECK = ["uint8", "uint16", "uint32", "uint8", "uint16", "uint32", "int8", "int16"]


def _gen_unsigned(rng, i=None):
    """dtype and layout are dealt in turn (i = running number), so that every dtype meets every layout under every seed"""
    i = rng.randrange(16) if i is None else i
    dt = UDECK[i % len(UDECK)]
    top = UMAX[dt]
    with_top = i % 7 != 6          # one case in seven is a control without the top state
    pool = [0, 1, 2, top, top, top - 1] if with_top else [0, 1, top - 1, top - 2]
    ntr = rng.randint(1, 4)
    if (i // len(UDECK)) % 2 == 0:
        L = rng.randint(2, 8)
        lens = [L] * ntr
    else:
        lens = [rng.choice([1, 2, 3, 4, 5, 6, 8]) for _ in range(ntr)]
        if ntr == 1:
            lens.append(lens[0] + 1)
    trjs = [[rng.choice(pool) for _ in range(n)] for n in lens]
    lag = rng.choice([1, 1, 2, 2, 3])
    if with_top and not any(top in t and len(t) > lag for t in trjs):
        t = max(trjs, key=len)
        if len(t) < 2:
            for x in trjs:           # (all rows, so that an equal-length set stays one)
                x.append(rng.choice(pool))
        lag = min(lag, len(t) - 1)
        t[rng.randrange(len(t))] = top
    return {"kind": "unsigned", "dtype": dt, "trjs": trjs, "lag": lag, "sliding": rng.random() < 0.6,
            "maxn": None if rng.random() < 0.3 else top + 1 + rng.choice([0, 0, 0, 1, 2])}


def _snap(x):
    """Everything a caller can observe of an argument."""
    if isinstance(x, np.ndarray):
        return ("ndarray", x.dtype.str, x.shape, x.strides, bool(x.flags.writeable), x.tobytes())
    if hasattr(x, "_data") and hasattr(x, "lengths"):
        return ("RaggedArray", x._data.dtype.str, np.asarray(x._data).tobytes(), [int(v) for v in x.lengths],
                [np.asarray(r).tolist() for r in x._array])
    return None


def _brute_of(trjs, lag, sl, maxn):
    n = maxn if maxn is not None else max(x for t in trjs for x in t) + 1
    M = [[0] * n for _ in range(n)]
    for t in trjs:
        for p in range(len(t) - lag):
            if sl or p % lag == 0:
                M[t[p]][t[p + lag]] += 1
    return M


def _mk_padded(trjs, W, dtype, order="C"):
    X = np.full((len(trjs), W), -1, dtype=dtype)
    for i, t in enumerate(trjs):
        X[i, :len(t)] = t
    return np.asfortranarray(X) if order == "F" else X


def _mk_ragged(trjs, dtype):
    from enspara.ra.ra import RaggedArray
    return RaggedArray([np.array(t, dtype=dtype) for t in trjs])


def _msm_counts(X, lag, flag, maxn, est=None):
    import functools
    from enspara.msm import MSM, builders
    if est is None:
        est = MSM(lag_time=lag, method=functools.partial(builders.normalize, calculate_eq_probs=False),
                  sliding_window=flag, max_n_states=maxn)
    est.fit(X)
    return est.tcounts_


def _run_hist(c):
    from enspara.msm.transition_matrices import assigns_to_counts
    dt = c["dtype"]
    padded = c["container"] == "padded"
    mk = (lambda trjs: _mk_padded(trjs, c["width"], dt, c["order"])) if padded else (lambda trjs: _mk_ragged(trjs, dt))
    X = mk(c["trjs"])
    lens = [len(t) for t in c["trjs"]]       # only used to address the padding of a padded buffer
    out = []
    for k, st in enumerate(c["steps"]):
        op = st["op"]
        if op == "count":
            content = [[int(v) for v in row if v != -1] for row in X]
            res = _call(assigns_to_counts, X, st["lag"], max_n_states=st["maxn"], sliding_window=st["sliding"])
            out.append({"i": k, "content": content, "res": res})
        elif op == "other":
            Y = _mk_ragged(st["trjs"], dt) if k % 2 else _mk_padded(st["trjs"], max(len(t) for t in st["trjs"]) + 1, dt)
            out.append({"i": k, "res": _call(assigns_to_counts, Y, st["lag"], max_n_states=st["maxn"],
                                             sliding_window=st["sliding"])})
            del Y
        elif op == "extend":
            r, v = st["row"], st["vals"]
            X[r, lens[r]:lens[r] + len(v)] = v
            lens[r] += len(v)
        elif op == "truncate":
            X[st["row"], st["n"]:] = -1
            lens[st["row"]] = st["n"]
        elif op == "lump":
            X[X == st["src"]] = st["dst"]
        elif op == "set":
            X[st["row"], st["col"]] = st["val"]
        elif op == "setrow":
            if padded:
                X[st["row"], :len(st["vals"])] = st["vals"]
            else:
                X[st["row"]] = np.array(st["vals"], dtype=dt)
        elif op == "swap":
            i, j = st["i"], st["j"]
            X[[i, j]] = X[[j, i]]
            lens[i], lens[j] = lens[j], lens[i]
        elif op == "append":
            X.append([np.array(t, dtype=dt) for t in st["rows"]])
        elif op == "realloc":
            del X
            X = mk(st["trjs"])
            lens = [len(t) for t in st["trjs"]]
    return {"steps": out}


def _run_flag(c):
    from enspara.msm.transition_matrices import assigns_to_counts
    trjs, lag, maxn = c["trjs"], c["lag"], c["maxn"]
    W = max(len(t) for t in trjs)
    return {"ragged": _call(assigns_to_counts, _mk_ragged(trjs, "int64"), lag, max_n_states=maxn, sliding_window=_flag(c["flag"])),
            "padded": _call(assigns_to_counts, _mk_padded(trjs, W, "int64"), lag, max_n_states=maxn, sliding_window=_flag(c["flag"])),
            "msm": _call(_msm_counts, _mk_ragged(trjs, "int64"), lag, _flag(c["flag"]), maxn),
            "msm_padded": _call(_msm_counts, _mk_padded(trjs, W + 1, "int64"), lag, _flag(c["flag"]), maxn),
            "msm_set": _call(_msm_counts_set, _mk_ragged(trjs, "int64"), lag, _flag(c["flag"]), maxn,
                             FLAG_TRUTH[c["flag"]], ("set_params", "attr", "clone")[(lag + len(trjs)) % 3])}


def _msm_counts_set(X, lag, flag, maxn, truth, how):
    """An estimator constructed with other counting options and given the wanted ones before the fit."""
    import functools
    from enspara.msm import MSM, builders
    top = max(int(v) for row in X for v in row) + 1
    est = MSM(lag_time=lag + 1, method=functools.partial(builders.normalize, calculate_eq_probs=False),
              sliding_window=not truth, max_n_states=(top + 2 if maxn is None else None))
    est = _set_opts(est, how, {"lag_time": lag, "sliding_window": flag, "max_n_states": maxn})
    est.fit(X)
    return est.tcounts_


def _set_opts(est, how, opts):
    if how == "attr":
        for name, v in opts.items():
            setattr(est, name, v)
        return est
    if how == "clone":
        import sklearn.base
        est = sklearn.base.clone(est)
    est.set_params(**opts)
    return est


def _run_refit(c):
    import functools
    from enspara.msm import MSM, builders
    est = MSM(lag_time=c["lag"], method=functools.partial(builders.normalize, calculate_eq_probs=False),
              sliding_window=_flag(c["flag"]), max_n_states=c["maxn"])
    out = []
    for f in c["fits"]:
        X = _mk_ragged(f["trjs"], "int64") if f["form"] == "ragged" else \
            _mk_padded(f["trjs"], max(len(t) for t in f["trjs"]), "int64")
        if "set" in f:
            est = _set_opts(est, f["set"]["how"], {k: (_flag(v) if k == "sliding_window" else v)
                                                   for k, v in f["set"]["opts"].items()})
        res = _call(_msm_counts, X, None, None, None, est=est)
        # what the estimator itself shows as its options when it is fitted
        res["shown"] = [int(est.lag_time), bool(est.sliding_window), None if est.max_n_states is None else int(est.max_n_states)]
        out.append(res)
    return {"fits": out}


def _trip(C):
    C = C.tocoo()
    acc = {}
    for i, j, v in zip(C.row.tolist(), C.col.tolist(), C.data.tolist()):
        acc[(int(i), int(j))] = acc.get((int(i), int(j)), 0) + int(v)
    return {"shape": [int(x) for x in C.shape], "trip": sorted([i, j, v] for (i, j), v in acc.items() if v != 0)}


def _call_sparse(fn, *a, **k):
    """Like _call, the result kept as (row, col, value) triplets (the matrices of the unsigned stream have up to 2^32 rows)."""
    import warnings
    before = [_snap(x) for x in a]
    try:
        with warnings.catch_warnings():
            warnings.simplefilter("ignore")
            res = _trip(fn(*a, **k))
    except Exception as ex:
        res = {"err": type(ex).__name__}
    for i, (b, x) in enumerate(zip(before, a)):
        if b is not None and _snap(x) != b:
            res["argmod"] = "argument %d (%s) was %s and is %s after the call" % (i, b[0], str(b[1:])[:300], str(_snap(x)[1:])[:300])
    return res


def _run_unsigned(c):
    from enspara.msm.transition_matrices import assigns_to_counts
    trjs, dt = c["trjs"], c["dtype"]
    kw = dict(max_n_states=c["maxn"], sliding_window=c["sliding"])
    L = max(len(t) for t in trjs)
    res = {"ragged": _call_sparse(assigns_to_counts, _mk_ragged(trjs, dt), c["lag"], **kw),
           "ragged64": _call_sparse(assigns_to_counts, _mk_ragged(trjs, "int64"), c["lag"], **kw),
           "padded64": _call_sparse(assigns_to_counts, _mk_padded(trjs, L + 1, "int64"), c["lag"], **kw)}
    if not dt.startswith("u"):
        res["padded"] = _call_sparse(assigns_to_counts, _mk_padded(trjs, L + 1, dt), c["lag"], **kw)
    if len({len(t) for t in trjs}) == 1:
        res["rect"] = _call_sparse(assigns_to_counts, np.array(trjs, dtype=dt), c["lag"], **kw)
        res["rectF"] = _call_sparse(assigns_to_counts, np.asfortranarray(np.array(trjs, dtype=dt)), c["lag"], **kw)
    return res


def _oracle_unsigned(c, r):
    out = []
    trjs, lag, sl = c["trjs"], c["lag"], c["sliding"]
    n = c["maxn"] if c["maxn"] is not None else max(x for t in trjs for x in t) + 1
    acc = {}
    for t in trjs:
        for p in range(len(t) - lag):
            if sl or p % lag == 0:
                acc[(t[p], t[p + lag])] = acc.get((t[p], t[p + lag]), 0) + 1
    want = {"shape": [n, n], "trip": sorted([i, j, v] for (i, j), v in acc.items())}
    for form in ("ragged", "rect", "rectF", "padded", "ragged64", "padded64"):
        if form not in r:
            continue
        got = {k: v for k, v in r[form].items() if k != "argmod"}
        if got != want:
            key = "counts-int64-twin" if form.endswith("64") else "counts-unsigned"
            tot = sum(v for _, _, v in got.get("trip", []))
            out.append((key, "%s assignments %s held as %s, lag %d, sliding %s, max_n_states %s: got %s (total %d), expected the pair counts "
                        "%s (total %d)%s" % (c["dtype"] if not form.endswith("64") else "int64", trjs,
                                             {"ragged": "RaggedArray", "rect": "2-D ndarray", "rectF": "2-D ndarray (F order)", "padded": "-1-padded ndarray",
                                              "ragged64": "RaggedArray", "padded64": "-1-padded ndarray"}[form],
                                             lag, sl, c["maxn"], got, tot, want, sum(v for _, _, v in want["trip"]),
                                             "" if form.endswith("64") or "trip" not in r["ragged64"] or got == {k: v for k, v in r["ragged64"].items() if k != "argmod"}
                                             else "; the same trajectories held as int64 give %s" % r["ragged64"])))
    return out


def _argmods(r):
    """All sub-results that carry an `argmod` note."""
    found = []
    def walk(x):
        if isinstance(x, dict):
            if "argmod" in x:
                found.append(x["argmod"])
            for v in x.values():
                walk(v)
        elif isinstance(x, list):
            for v in x:
                walk(v)
    walk(r)
    return found


def _hist_expected(c):
    """[(step index, content at that moment, same-object-since)] for every count step of a history."""
    cur = [list(t) for t in c["trjs"]]
    out, epoch = {}, 0
    for k, st in enumerate(c["steps"]):
        if st["op"] == "count":
            out[k] = (cur, epoch)
        elif st["op"] == "realloc":
            epoch += 1
            cur = _apply(cur, st)
        elif st["op"] != "other":
            cur = _apply(cur, st)
    return out


def _hist_sensitive(c):
    """Would an answer computed from the content at an earlier count of the same object be wrong at a later one?"""
    exp = _hist_expected(c)
    ks = sorted(exp)
    for a in range(len(ks)):
        for b in range(a + 1, len(ks)):
            (ca, ea), (cb_, eb) = exp[ks[a]], exp[ks[b]]
            st = c["steps"][ks[b]]
            if ea == eb and ca != cb_ and _brute_of(ca, st["lag"], st["sliding"], st["maxn"]) != \
                    _brute_of(cb_, st["lag"], st["sliding"], st["maxn"]):
                return True
    return False


def _oracle_hist(c, r):
    out = []
    exp = _hist_expected(c)
    seen = []      # (step, content, params) of earlier counts, to name a stale answer
    for rec in r["steps"]:
        k = rec["i"]
        st = c["steps"][k]
        res = rec["res"]
        if st["op"] == "other":
            want = _brute_of(st["trjs"], st["lag"], st["sliding"], st["maxn"])
            if res.get("mat") != want:
                out.append(("counts-history-other", "step %d counts an unrelated object %s (lag %d, sliding %s, max_n_states %s): got %s expected %s"
                            % (k, st["trjs"], st["lag"], st["sliding"], st["maxn"], res, want)))
            continue
        content, _ = exp[k]
        if rec["content"] != content:
            out.append(("history-edit", "step %d: container holds %s, the edits so far should give %s" % (k, rec["content"], content)))
            continue
        want = _brute_of(content, st["lag"], st["sliding"], st["maxn"])
        if res.get("mat") != want:
            stale = [j for j, cj in seen if cj != content and
                     _brute_of(cj, st["lag"], st["sliding"], st["maxn"]) == res.get("mat")]
            note = (" (these are the counts of what the same object held at step %d: %s)" % (stale[-1], dict(seen)[stale[-1]])) if stale else ""
            out.append(("counts-history", "%s %s container counted at step %d after in-place steps %s: content now %s, lag %d, sliding %s, "
                        "max_n_states %s: got %s expected %s%s" % (
                            c["container"], c["dtype"], k, [s for s in c["steps"][:k] if s["op"] not in ("count", "other")],
                            content, st["lag"], st["sliding"], st["maxn"], res, want, note)))
        seen.append((k, content))
    return out


def _oracle_flag(c, r):
    out = []
    sl = FLAG_TRUTH[c["flag"]]
    want = _brute_of(c["trjs"], c["lag"], sl, c["maxn"])
    if r["msm_set"].get("mat") != want:
        out.append(("counts-msm-set-params", "MSM constructed with lag_time=%d, sliding_window=%s and then given lag_time=%d, sliding_window=%s, "
                    "max_n_states=%s before fit on %s: tcounts_ is %s, expected %s" % (
                        c["lag"] + 1, not sl, c["lag"], c["flag"], c["maxn"], c["trjs"], r["msm_set"], want)))
    for form in ("ragged", "padded", "msm", "msm_padded"):
        if r[form].get("mat") != want:
            key = "counts-msm" if form.startswith("msm") else "counts-flag"
            out.append((key, "sliding_window=%s (%s), lag %d, max_n_states %s, %s on %s input %s: got %s expected %s" % (
                c["flag"], "on" if sl else "off", c["lag"], c["maxn"],
                "MSM(...).fit(X).tcounts_" if form.startswith("msm") else "assigns_to_counts",
                "padded" if "padded" in form else "ragged", c["trjs"], r[form], want)))
    return out


def _oracle_refit(c, r):
    out = []
    for k, (f, res, (lag, flag, maxn, changed)) in enumerate(zip(c["fits"], r["fits"], _refit_params(c))):
        if res.get("shown") != [lag, FLAG_TRUTH[flag], maxn]:
            out.append(("msm-options-shown", "after %s the estimator shows (lag_time, sliding_window, max_n_states) = %s, expected %s"
                        % ([g.get("set") for g in c["fits"][:k + 1]], res.get("shown"), [lag, FLAG_TRUTH[flag], maxn])))
            continue
        want = _brute_of(f["trjs"], lag, FLAG_TRUTH[flag], maxn)
        if res.get("mat") != want:
            out.append(("counts-msm-set-params" if changed else "counts-msm-refit",
                        "one MSM(lag_time=%d, sliding_window=%s, max_n_states=%s) fitted on %s in turn, options changed before the fits: %s; "
                        "at fit #%d (data %s) the estimator shows lag_time=%d, sliding_window=%s, max_n_states=%s but tcounts_ is %s, expected %s"
                        % (c["lag"], c["flag"], c["maxn"], [g["trjs"] for g in c["fits"][:k + 1]],
                           [g.get("set") for g in c["fits"][:k + 1]], k, f["trjs"], lag, flag, maxn,
                           {x: res[x] for x in res if x != "shown"}, want)))
    return out


def _cmp_term(sl, lag, maxn, trjs, m):
    if "mat" in m:
        exp = "(Some %s)" % clist(m["mat"], lambda row: clist(row, cn, "nat"), "(list nat)")
    else:
        exp = "(@None (list (list nat)))"
    args = "%s %s %s %s" % (cb(sl), cz(lag), copt(maxn, cz, "Z"), clist(trjs, lambda t: clist(t, cz, "Z"), "(list Z)"))
    return "CaseLib.opt_eqb (CaseLib.list_eqb CaseLib.nl_eqb) (assigns_to_counts %s) %s" % (args, exp)


def _conj(terms):
    t = "true"
    for x in reversed(terms):
        t = "andb (%s) (%s)" % (x, t)
    return t


def _call(fn, *a, **k):
    before = [_snap(x) for x in a]
    try:
        m = fn(*a, **k)
        m = m.toarray() if hasattr(m, "toarray") else np.asarray(m)
        res = {"mat": m.tolist()}
    except Exception as ex:
        res = {"err": type(ex).__name__}
    for i, (b, x) in enumerate(zip(before, a)):
        if b is not None and _snap(x) != b:
            res["argmod"] = "argument %d (%s) was %s and is %s after the call" % (i, b[0], str(b[1:])[:300], str(_snap(x)[1:])[:300])
    return res


def run_impl(c):
    if c.get("kind") == "hist":
        return _run_hist(c)
    if c.get("kind") == "flag":
        return _run_flag(c)
    if c.get("kind") == "refit":
        return _run_refit(c)
    if c.get("kind") == "unsigned":
        return _run_unsigned(c)
    from enspara.msm.transition_matrices import assigns_to_counts
    from enspara.ra.ra import RaggedArray
    trjs, lag, sl, maxn = c["trjs"], c["lag"], c["sliding"], c["maxn"]
    kw = dict(max_n_states=maxn, sliding_window=sl)
    L = max(len(t) for t in trjs)
    dt = c.get("dtype", "int64")
    pdt = dt if not dt.startswith("u") else "int64"      # -1 padding needs a signed type
    padded = np.array([t + [-1] * (L - len(t)) for t in trjs], dtype=pdt)
    rows = [np.array(t, dtype=dt) for t in trjs]
    res = {"ragged": _call(assigns_to_counts, RaggedArray(rows), lag, **kw),
           "padded": _call(assigns_to_counts, padded, lag, **kw),
           "reversed": _call(assigns_to_counts, RaggedArray(rows[::-1]), lag, **kw)}
    if len(trjs) >= 2:
        n = maxn if maxn is not None else max(max(t) for t in trjs) + 1
        h = len(trjs) // 2
        res["A"] = _call(assigns_to_counts, RaggedArray(trjs[:h]), lag, max_n_states=n, sliding_window=sl)
        res["B"] = _call(assigns_to_counts, RaggedArray(trjs[h:]), lag, max_n_states=n, sliding_window=sl)
    return res


def _brute(c):
    trjs, lag, sl, maxn = c["trjs"], c["lag"], c["sliding"], c["maxn"]
    n = maxn if maxn is not None else max(max(t) for t in trjs) + 1
    M = [[0] * n for _ in range(n)]
    for t in trjs:
        for p in range(len(t) - lag):
            if sl or p % lag == 0:
                M[t[p]][t[p + lag]] += 1
    return M


def oracle(c, r):
    out = [("argument-modified", m) for m in _argmods(r)]
    if c.get("kind") == "hist":
        return out + _oracle_hist(c, r)
    if c.get("kind") == "flag":
        return out + _oracle_flag(c, r)
    if c.get("kind") == "refit":
        return out + _oracle_refit(c, r)
    if c.get("kind") == "unsigned":
        return out + _oracle_unsigned(c, r)
    if c["lag"] < 1:
        return out + ([] if all("err" in r[f] for f in ("ragged", "padded", "reversed")) else [("lag-accepted", "lag %d accepted: %s" % (c["lag"], str(r)[:200]))])
    exp = _brute(c)
    for form in ("ragged", "padded", "reversed"):
        if r[form].get("mat") != exp:
            out.append(("counts-" + form, "%s input: got %s expected %s" % (form, r[form], exp)))
    if c["sliding"] and "mat" in r["ragged"]:
        tot = sum(map(sum, r["ragged"]["mat"]))
        if tot != sum(max(0, len(t) - c["lag"]) for t in c["trjs"]):
            out.append(("total", "total %d" % tot))
    if "A" in r and "mat" in r["ragged"]:
        if "mat" not in r["A"] or "mat" not in r["B"] or \
                (np.array(r["A"]["mat"]) + np.array(r["B"]["mat"])).tolist() != r["ragged"]["mat"]:
            out.append(("additive", "counts(A)+counts(B) != counts(A+B): %s %s" % (r["A"], r["B"])))
    return out


def _args(c):
    return "%s %s %s %s" % (cb(c["sliding"]), cz(c["lag"]), copt(c["maxn"], cz, "Z"),
                            clist(c["trjs"], lambda t: clist(t, cz, "Z"), "(list Z)"))


def coq_check(c, r):
    if c.get("kind") == "hist":
        exp = _hist_expected(c)
        return _conj([_cmp_term(c["steps"][rec["i"]]["sliding"], c["steps"][rec["i"]]["lag"], c["steps"][rec["i"]]["maxn"],
                                exp[rec["i"]][0] if c["steps"][rec["i"]]["op"] == "count" else c["steps"][rec["i"]]["trjs"], rec["res"])
                      for rec in r["steps"]])
    if c.get("kind") == "flag":
        return _conj([_cmp_term(FLAG_TRUTH[c["flag"]], c["lag"], c["maxn"], c["trjs"], r[f]) for f in ("ragged", "msm", "msm_set")])
    if c.get("kind") == "refit":
        return _conj([_cmp_term(FLAG_TRUTH[flag], lag, maxn, f["trjs"], m)
                      for f, m, (lag, flag, maxn, _) in zip(c["fits"], r["fits"], _refit_params(c))])
    if c.get("kind") == "unsigned":
        return None      # up to 2^32 x 2^32 matrices: oracle only
    m = r["ragged"]
    if "mat" in m:
        exp = "(Some %s)" % clist(m["mat"], lambda row: clist(row, cn, "nat"), "(list nat)")
    else:
        exp = "(@None (list (list nat)))"
    return "CaseLib.opt_eqb (CaseLib.list_eqb CaseLib.nl_eqb) (assigns_to_counts %s) %s" % (_args(c), exp)


def coq_show(c):
    if c.get("kind") == "hist":
        exp = _hist_expected(c)
        ks = sorted(exp)
        return "[%s]" % "; ".join("assigns_to_counts %s %s %s %s" % (
            cb(c["steps"][k]["sliding"]), cz(c["steps"][k]["lag"]), copt(c["steps"][k]["maxn"], cz, "Z"),
            clist(exp[k][0], lambda t: clist(t, cz, "Z"), "(list Z)")) for k in ks)
    if c.get("kind") == "flag":
        return "assigns_to_counts %s %s %s %s" % (cb(FLAG_TRUTH[c["flag"]]), cz(c["lag"]), copt(c["maxn"], cz, "Z"),
                                                  clist(c["trjs"], lambda t: clist(t, cz, "Z"), "(list Z)"))
    if c.get("kind") == "refit":
        return "[%s]" % "; ".join("assigns_to_counts %s %s %s %s" % (
            cb(FLAG_TRUTH[flag]), cz(lag), copt(maxn, cz, "Z"),
            clist(f["trjs"], lambda t: clist(t, cz, "Z"), "(list Z)")) for f, (lag, flag, maxn, _) in zip(c["fits"], _refit_params(c)))
    if c.get("kind") == "unsigned":
        return "true"
    return "assigns_to_counts %s" % _args(c)


def nontrivial(c, r):
    if c.get("kind") == "hist":
        return _hist_sensitive(c)
    if c.get("kind") == "flag":
        return any(len(t) > c["lag"] for t in c["trjs"]) and len({x for t in c["trjs"] for x in t}) >= 2
    if c.get("kind") == "refit":
        return len({max(x for t in f["trjs"] for x in t) for f in c["fits"]}) >= 2 or bool(_refit_visible(c))
    if c.get("kind") == "unsigned":
        return any(UMAX[c["dtype"]] in t and len(t) > c["lag"] for t in c["trjs"])
    return c["lag"] >= 1 and any(len(t) > c["lag"] for t in c["trjs"]) and len({x for t in c["trjs"] for x in t}) >= 2


def _refit_visible(c):
    """Names of the options whose change between construction and a fit alters that fit's counts."""
    vis = set()
    lag0, flag0, maxn0 = c["lag"], c["flag"], c["maxn"]
    for f, (lag, flag, maxn, changed) in zip(c["fits"], _refit_params(c)):
        want = _brute_of(f["trjs"], lag, FLAG_TRUTH[flag], maxn)
        for name, old in (("lag_time", (lag0, flag, maxn)), ("sliding_window", (lag, flag0, maxn)), ("max_n_states", (lag, flag, maxn0))):
            if name in changed:
                try:
                    stale = _brute_of(f["trjs"], old[0], FLAG_TRUTH[old[1]], old[2])
                except IndexError:
                    stale = None
                if stale != want:
                    vis.add(name)
    return sorted(vis)


def tags(c, r):
    if c.get("kind") == "hist":
        t = ["hist-" + c["container"]] + sorted({"hist-" + s["op"] for s in c["steps"] if s["op"] != "count"})
        if _hist_sensitive(c):
            t.append("hist-sensitive")
        if c.get("order") == "F":
            t.append("hist-F-order")
        return t
    if c.get("kind") == "flag":
        f = c["flag"]
        t = ["msm", "flag-on" if FLAG_TRUTH[f] else "flag-off",
             "flag-py-bool" if f in ("True", "False") else "flag-np-bool" if ("_" in f or "arr" in f) else "flag-int"]
        if not FLAG_TRUTH[f] and c["lag"] >= 2 and any(len(x) > c["lag"] + 1 for x in c["trjs"]):
            t.append("flag-np-false-visible" if t[2] == "flag-np-bool" else "flag-zero-visible" if t[2] == "flag-int" else "flag-False-visible")
        return t
    if c.get("kind") == "refit":
        t = ["msm", "msm-refit"]
        tops = [max(x for tr in f["trjs"] for x in tr) for f in c["fits"]]
        if c["maxn"] is None:
            if any(b < a for a, b in zip(tops, tops[1:])):
                t.append("msm-refit-fewer-states")
            if any(b > a for a, b in zip(tops, tops[1:])):
                t.append("msm-refit-more-states")
        for f in c["fits"]:
            if "set" in f:
                t.append("msm-set-how-" + f["set"]["how"])
        t += ["msm-set-" + name + "-visible" for name in _refit_visible(c)]
        return sorted(set(t))
    if c.get("kind") == "unsigned":
        top = UMAX[c["dtype"]]
        t = ["unsigned", "unsigned-" + c["dtype"], "unsigned-rect" if len({len(x) for x in c["trjs"]}) == 1 else "unsigned-ragged-only",
             "unsigned-maxn-inferred" if c["maxn"] is None else "unsigned-maxn-given"]
        if any(top in x and len(x) > c["lag"] for x in c["trjs"]):
            t.append("unsigned-top-state-in-a-pair")
            t.append("unsigned-top-state-" + c["dtype"])
        elif not any(top in x for x in c["trjs"]):
            t.append("unsigned-top-state-absent")
        return t
    t = ["sliding" if c["sliding"] else "strided", "maxn-given" if c["maxn"] is not None else "maxn-inferred"]
    if c["lag"] < 1:
        t.append("lag-below-one")
    if "dtype" in c:
        t.append("narrow-dtype")
    if any(len(x) <= c["lag"] for x in c["trjs"]):
        t.append("traj-shorter-than-lag")
    return t


ESSENTIAL_TAGS = ["sliding", "strided", "traj-shorter-than-lag", "maxn-inferred", "narrow-dtype", "lag-below-one",
                  "hist-padded", "hist-ragged", "hist-sensitive", "hist-extend", "hist-lump", "hist-set", "hist-realloc", "hist-append",
                  "flag-np-false-visible", "flag-zero-visible", "flag-False-visible", "msm",
                  "msm-refit-fewer-states", "msm-refit-more-states",
                  "msm-set-lag_time-visible", "msm-set-sliding_window-visible", "msm-set-max_n_states-visible",
                  "msm-set-how-set_params", "msm-set-how-attr", "msm-set-how-clone",
                  "unsigned-top-state-uint8", "unsigned-top-state-uint16", "unsigned-top-state-uint32", "unsigned-top-state-int8", "unsigned-top-state-int16",
                  "unsigned-rect", "unsigned-ragged-only", "unsigned-maxn-inferred"]
