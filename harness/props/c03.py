"""C03: transition counts equal the exact number of lagged state pairs."""
import os, sys
import numpy as np
from core import cz, cn, cb, clist, copt, VERIF
sys.path.insert(0, os.path.join(VERIF, "translator"))
import tr_counts

PID = "C03"
PROPS_FILE = "Props/C03.v"
MODEL_TARGETS = ["Model/Counts.vo"]
GEN_FILES = ["Gen/CountsGen.v"]
CASE_HEADER = "From Coq Require Import List ZArith.\nFrom EV Require Import PySlice CountsGen Counts.\nImport ListNotations.\n"
RULE = ("random sets of 1..5 state trajectories (lengths 1..10, incl. shorter than the lag), 2..5 states, lag 1..6, "
        "both window modes, explicit/inferred state count, trailing -1 padding, a quarter of the cases in int8/uint8/int16/int32 with state ids near n_states^2 overflow; each case is run on the real "
        "assigns_to_counts as RaggedArray, as -1-padded ndarray, with the trajectories reversed and split in two "
        "halves; non-trivial := at least one trajectory longer than the lag and >= 2 distinct states")
TRUSTED = ["translator/tr_counts.py (slice expressions of _transitions_helper -> PySlice.slice_list)",
           "modelled not verified: scipy coo_matrix duplicate summation, NumPy fancy indexing a[np.where(a != -1)]"]
ASSUMPTIONS = ["-1 occurs only as trailing padding (property wording); state ids are >= 0"]
EXHAUSTIVE = {"thorough": False}


def translate(repo):
    return tr_counts.translate(repo)


def generate(rng, tier):
    n = 400 if tier == "quick" else 4000
    cases = []
    for _ in range(n):
        ns = rng.randint(2, 5)
        ntr = rng.randint(1, 5)
        trjs = [[rng.randrange(ns) for _ in range(rng.choice([1, 1, 2, 3, 4, 5, 6, 7, 8, 10]))] for _ in range(ntr)]
        lag = rng.choice([1, 1, 2, 2, 3, 3, 4, 5, 6]) if rng.random() > 0.04 else rng.choice([0, -1, -3])   # malformed: lag < 1
        c = {"trjs": trjs, "lag": lag, "sliding": rng.random() < 0.5,
             "maxn": rng.choice([None, None, ns, ns + 2])}
        if rng.random() < 0.25:
            # narrow integer dtypes with state ids near their limits (n_states^2 overflows the dtype)
            c["dtype"] = rng.choice(["int8", "uint8", "int16", "int32"])
            big = {"int8": rng.randint(12, 20), "uint8": rng.randint(17, 24), "int16": rng.randint(5, 12),
                   "int32": rng.randint(5, 12)}[c["dtype"]]
            for t in trjs:
                for i in range(len(t)):
                    if rng.random() < 0.4:
                        t[i] = big - rng.randrange(3)
            c["maxn"] = rng.choice([None, big + 1])
        cases.append(c)
    if tier == "thorough":
        # exhaustive small scope: <= 2 trajectories of length <= 4 over 2 states, lag <= 4, both modes
        import itertools
        seqs = [list(s) for L in range(1, 5) for s in itertools.product(range(2), repeat=L)]
        for a in seqs:
            for b in seqs[::3]:
                for lag in (1, 2, 3, 4):
                    for sl in (True, False):
                        cases.append({"trjs": [a, b], "lag": lag, "sliding": sl, "maxn": 2})
    return cases


def _call(fn, *a, **k):
    try:
        return {"mat": fn(*a, **k).toarray().tolist()}
    except Exception as ex:
        return {"err": type(ex).__name__}


def run_impl(c):
    from enspara.msm.transition_matrices import assigns_to_counts
    from enspara.ra.ra import RaggedArray
    trjs, lag, sl, maxn = c["trjs"], c["lag"], c["sliding"], c["maxn"]
    kw = dict(max_n_states=maxn, sliding_window=sl)
    L = max(len(t) for t in trjs)
    dt = c.get("dtype", "int64")
    pdt = dt if not dt.startswith("u") else "int64"      # -1 padding needs a signed type
    padded = np.array([t + [-1] * (L - len(t)) for t in trjs], dtype=pdt)
    rows = [np.array(t, dtype=dt) for t in trjs]
    res = {"ragged": _call(assigns_to_counts, RaggedArray(rows), lag, **kw),
           "padded": _call(assigns_to_counts, padded, lag, **kw),
           "reversed": _call(assigns_to_counts, RaggedArray(rows[::-1]), lag, **kw)}
    if len(trjs) >= 2:
        n = maxn if maxn is not None else max(max(t) for t in trjs) + 1
        h = len(trjs) // 2
        res["A"] = _call(assigns_to_counts, RaggedArray(trjs[:h]), lag, max_n_states=n, sliding_window=sl)
        res["B"] = _call(assigns_to_counts, RaggedArray(trjs[h:]), lag, max_n_states=n, sliding_window=sl)
    return res


def _brute(c):
    trjs, lag, sl, maxn = c["trjs"], c["lag"], c["sliding"], c["maxn"]
    n = maxn if maxn is not None else max(max(t) for t in trjs) + 1
    M = [[0] * n for _ in range(n)]
    for t in trjs:
        for p in range(len(t) - lag):
            if sl or p % lag == 0:
                M[t[p]][t[p + lag]] += 1
    return M


def oracle(c, r):
    out = []
    if c["lag"] < 1:
        return [] if all("err" in r[f] for f in ("ragged", "padded", "reversed")) else [("lag-accepted", "lag %d accepted: %s" % (c["lag"], str(r)[:200]))]
    exp = _brute(c)
    for form in ("ragged", "padded", "reversed"):
        if r[form].get("mat") != exp:
            out.append(("counts-" + form, "%s input: got %s expected %s" % (form, r[form], exp)))
    if c["sliding"] and "mat" in r["ragged"]:
        tot = sum(map(sum, r["ragged"]["mat"]))
        if tot != sum(max(0, len(t) - c["lag"]) for t in c["trjs"]):
            out.append(("total", "total %d" % tot))
    if "A" in r and "mat" in r["ragged"]:
        if "mat" not in r["A"] or "mat" not in r["B"] or \
                (np.array(r["A"]["mat"]) + np.array(r["B"]["mat"])).tolist() != r["ragged"]["mat"]:
            out.append(("additive", "counts(A)+counts(B) != counts(A+B): %s %s" % (r["A"], r["B"])))
    return out


def _args(c):
    return "%s %s %s %s" % (cb(c["sliding"]), cz(c["lag"]), copt(c["maxn"], cz, "Z"),
                            clist(c["trjs"], lambda t: clist(t, cz, "Z"), "(list Z)"))


def coq_check(c, r):
    m = r["ragged"]
    if "mat" in m:
        exp = "(Some %s)" % clist(m["mat"], lambda row: clist(row, cn, "nat"), "(list nat)")
    else:
        exp = "(@None (list (list nat)))"
    return "CaseLib.opt_eqb (CaseLib.list_eqb CaseLib.nl_eqb) (assigns_to_counts %s) %s" % (_args(c), exp)


def coq_show(c):
    return "assigns_to_counts %s" % _args(c)


def nontrivial(c, r):
    return c["lag"] >= 1 and any(len(t) > c["lag"] for t in c["trjs"]) and len({x for t in c["trjs"] for x in t}) >= 2


def tags(c, r):
    t = ["sliding" if c["sliding"] else "strided", "maxn-given" if c["maxn"] is not None else "maxn-inferred"]
    if c["lag"] < 1:
        t.append("lag-below-one")
    if "dtype" in c:
        t.append("narrow-dtype")
    if any(len(x) <= c["lag"] for x in c["trjs"]):
        t.append("traj-shorter-than-lag")
    return t


ESSENTIAL_TAGS = ["sliding", "strided", "traj-shorter-than-lag", "maxn-inferred", "narrow-dtype", "lag-below-one"]
