"""C02: k-centers picks farthest points, never widens the radius, stops exactly on cue."""
import itertools
from fractions import Fraction as F
import cluster_common as cc
from cluster_common import CASE_HEADER, MODEL_TARGETS, GEN_FILES
import os, sys
from core import VERIF
sys.path.insert(0, os.path.join(VERIF, "translator"))
import tr_kcguard


def translate(repo):
    return cc.translate_all(repo)


PID = "C02"
PROPS_FILE = "Props/C02.v"
TRUSTED = cc.TRUSTED
ASSUMPTIONS = ["metrics obeying the triangle inequality for the shortcut / 2-approximation clauses; cutoff >= 0; n_clusters >= 1"]
RULE = ("k-centers only (function and estimator form): 2..12 distinct integer points or an arbitrary symmetric integer matrix "
        "(half of them metric closures), every combination of count / radius / both, radii chosen at, just below and just above "
        "the radii the greedy run attains, cold start and warm start from 1..3 frames, with and without the triangle shortcut. "
        "Oracle: independent replay of farthest-first with first-maximum ties on the implementation's own distance matrix, "
        "exact stop rule, plain == shortcut, brute-force optimum over all k-subsets for the 2-approximation. "
        "Warm starts from 1..3 supplied centres that are NOT frames of the data (quarter-grid points for the library metrics, "
        "further points of the table for table metrics on ndarray / md.Trajectory data; every supplied centre attracts a frame): "
        "the distance matrix, replay and model cover data + supplied points (virtual frames n..), the first centre indices must be "
        "the first nearest frame of each supplied centre, each function-form case is run with both settings of the shortcut on "
        "the same arguments and the two results must be identical; the 2-approximation is not demanded there; a few of them on a line, built so that a frame lies between the supplied "
        "centre and the new centre where the bound of the shortcut decides. The shortcut on md.Trajectory data (frame centres) with "
        "and without a buffer-reusing metric. Supplied non-frame centres on a small batch (2..5 frames) with a stopping rule asking for "
        "more centres than the batch has frames (n+1..n+k0 centres, and / or a radius below every distance of the data): supplied "
        "centres count, the run ends with more centres than frames, never earlier than the stop clause says. "
        "non-trivial := n >= 4 and >= 2 centres"
        " Input-class axes, each forced in every run for every entry point (cluster_common.gen_axis_streams): memory layout of the data (column subset / strided rows / Fortran / transposed / negative stride / strided columns / read-only; same values, the metric is evaluated on a fresh contiguous copy); container of the warm-start centres (2-D array or md.Trajectory slice, Python list of frames, the .centers list of an earlier result) with argument-unchanged checks on the list and the earlier result; a metric that returns its result in one reused float64 buffer; estimator-reuse histories (constructed with other parameters, optional earlier fit on the same or other data, parameters changed through set_params / attribute assignment, second fit) compared with the function form called with the current parameters; tiny length scales (x 2^-14..2^-20) incl. k-medoids started from labels+distances without centre indices. Every run of the real code is bounded by a watchdog (10 s; key does-not-terminate)."
        " Estimator attributes are read after every fit of a history (attributes / fit_predict / predict; warm start from est.centers_) and "
        "compared with that fit's result_. One fixed witness of the known finding empty-initial-centre (a supplied centre that attracts no "
        "frame) is replayed in every run, judged by the label / distance / centre-count / centre-list clauses, outside the Coq comparison.")
SHARD = 60
FINDING_F1 = "two-approx-with->=2-initial-centers"
FINDING_EMPTY = "empty-initial-centre"
# witness of the finding, replayed in every run: the supplied centre [100] attracts no frame
EMPTY_INIT_WITNESS = {"kind": "kcenters", "metric": "euclidean", "X": [[0], [1], [2], [10], [11], [20]], "dtype": "float64", "n": 6,
                      "vinit": 3, "init": [6, 7, 8], "init_pts": [[0.0], [100.0], [1.0]], "init_form": "array", "form": "func",
                      "nclu": 4, "cutoff": None, "ti": False, "empty_init": True}


def _greedy_radii(D, n, init):
    """radii after 1,2,.. centres for the plain farthest-first rule (first maximum)."""
    if init:
        ctrs = list(init)
        dst = [min(D[c][f] for c in ctrs) for f in range(n)]
    else:
        ctrs = [0]
        dst = [D[0][f] for f in range(n)]
    radii = [max(dst)]
    while max(dst) > 0:
        m = max(range(n), key=lambda f: (dst[f], -f))
        ctrs.append(m)
        dst = [min(dst[f], D[m][f]) for f in range(n)]
        radii.append(max(dst))
    return radii


def _pyD(c):
    import math
    if c["metric"] == "matrix":
        return [[float(F(v)) for v in row] for row in c["M"]]
    X = c["X"]
    if c["metric"] == "manhattan":
        return [[sum(abs(a - b) for a, b in zip(p, q)) for q in X] for p in X]
    return [[math.sqrt(sum((a - b) ** 2 for a, b in zip(p, q))) for q in X] for p in X]


def generate(rng, tier):
    N = 200 if tier == "quick" else 2500
    cases = [{"kind": "kcenters", "metric": "euclidean", "X": [[0], [1], [100]], "dtype": "float64", "n": 3,
              "nclu": 2, "cutoff": None, "init": [0, 1], "form": "func", "ti": False},   # finding F1, always replayed
             dict(EMPTY_INIT_WITNESS)]
    for _ in range(N):
        if rng.random() < 0.15:
            cases.append(cc.gen_ti_boundary(rng))
            continue
        if rng.random() < 0.1:
            cases.append(cc.gen_traj_kcenters(rng))
            continue
        c = cc.gen_kcenters(rng)
        if c["cutoff"] is not None and rng.random() < 0.7:
            radii = _greedy_radii(_pyD(c), c["n"], c["init"])
            r = rng.choice(radii)
            c["cutoff"] = float(max(0.0, r + rng.choice([0, 0, -0.25, 0.25, -1e-9, 1e-9])))
            if c["cutoff"] == 0 and c["nclu"] is None:
                c["cutoff"] = 0.5
        cases.append(c)
    cases += cc.gen_axis_streams(rng, ["kcenters", "traj"], reps=2 if tier == "quick" else 12)
    # warm starts from supplied centres that are not frames of the data; every metric kind in every run, each
    # function-form case is run with both settings of the shortcut on the same argument objects
    for i in range(60 if tier == "quick" else 600):
        kind = ["euclidean", "manhattan", "matrix", "traj", None][i % 5]
        forced = i < 20 or i % 10 < 2
        while True:
            c = cc.gen_nonframe_warm(rng, kind=kind)
            if not forced or c["metric"] != "matrix" or c["tri"]:
                break
        if forced:                      # the shortcut on a metric obeying the triangle inequality, in every run
            c["ti"], c["form"] = True, "func"
            if kind == "traj":          # one metric call per centre on md.Trajectory data: results must not be kept as views
                c["buf"] = (i % 2 == 0)
        cases.append(c)
    # ... and constructed so that the bound of the shortcut decides (a frame between the supplied centre and the new one)
    for i in range(8 if tier == "quick" else 80):
        cases.append(cc.gen_nonframe_line(rng, ["euclidean", "manhattan", "matrix", "traj"][i % 4]))
    # the shortcut on md.Trajectory data with centres that ARE frames (cold start / warm start from frames), with and
    # without a buffer-reusing metric: the table of a non-frame case read as data only
    for i in range(12 if tier == "quick" else 120):
        while True:
            v = cc.gen_nonframe_warm(rng, kind="traj")
            if v["tri"]:
                break
        n = len(v["M"])
        c = {"kind": "kcenters", "metric": "matrix", "M": v["M"], "tri": True, "traj": True, "n": n, "form": "func", "ti": True,
             "init": None, "nclu": v["nclu"], "cutoff": v["cutoff"]}
        if i % 3:
            c["init"] = rng.sample(range(n), rng.randint(1, 3))
            c["init_form"] = cc.gen_init_form(rng)
            if c["nclu"] is not None:
                c["nclu"] = min(n, len(c["init"]) + rng.randint(1, 3))
        if i % 2:
            c["buf"] = True
        cases.append(c)
    # supplied non-frame centres on a SMALL batch of data (2..5 frames): supplied centres + centres still needed exceed
    # the number of frames (count, radius below every distance, both); function form with both settings of the shortcut,
    # every sixth case through the estimator
    for i in range(30 if tier == "quick" else 300):
        c = cc.gen_nonframe_warm(rng, kind=["euclidean", "manhattan", "matrix", "traj", None][i % 5], small=True)
        if i % 6 == 5:
            c["ti"], c["form"] = False, "class"
        elif c.get("form") == "class":
            c["form"] = "func"
        cases.append(c)
    return cases


run_impl = cc.run_case


def _replay(D, n, nclu, cutoff, init):
    """plain farthest-first with first-maximum ties and the exact stop rule"""
    if init:
        ctrs = list(init)
        asg, dst = [], []
        for f in range(n):
            j = min(range(len(ctrs)), key=lambda i: (D[ctrs[i]][f], i))
            asg.append(j)
            dst.append(D[ctrs[j]][f])
    else:
        ctrs = [0]
        asg = [0] * n
        dst = [D[0][f] for f in range(n)]
    radii = [max(dst)]
    while (nclu is None or len(ctrs) < nclu) and max(dst) > cutoff:
        m = max(range(n), key=lambda f: (dst[f], -f))
        for f in range(n):
            if D[m][f] < dst[f]:
                dst[f] = D[m][f]
                asg[f] = len(ctrs)
        ctrs.append(m)
        radii.append(max(dst))
    return ctrs, asg, dst, radii


def oracle(c, out):
    if "err" in out:
        if c["kind"] == "kcenters" and c["nclu"] is None and c["cutoff"] is None and out["err"] == "ImproperlyConfigured":
            return []      # no stopping criterion at all: rejection is the documented behaviour
        return [cc.err_failure(out)]
    fails = []
    D = [[F(v) for v in row] for row in out["D"]]
    n = c["n"]
    cutoff = F(c["cutoff"]) if c["cutoff"] is not None else F(0)
    ctrs, asg, dst, radii = _replay(D, n, c["nclu"], cutoff, c["init"])
    res = out["res"]
    if c.get("vinit"):
        # supplied centres that are not frames (virtual frames n.. of D): the implementation names each by the first
        # frame of least distance among those it attracts (util.find_cluster_centers); the generator makes every
        # supplied centre attract a frame -- anything else is outside this stream
        k0 = c["vinit"]
        _, a0, d0, _ = _replay(D, n, k0, cutoff, c["init"])      # n_clusters = k0: the state before the first iteration
        if sorted(set(a0)) != list(range(k0)):
            # some supplied centre attracts no frame (or duplicates another one): outside the generated stream; the one
            # witness case is judged by the clauses on labels, distances, number of centres and the centre list,
            # reported under the narrow key of the known finding
            if not c.get("empty_init"):
                return []
            empty = [j for j in range(k0) if j not in set(a0)]
            what = "supplied centres %s on data %s, n_clusters=%s: supplied centre(s) %s attract no frame; " % (
                c.get("init_pts"), c.get("X"), c["nclu"], empty)
            if (res["asg"], [F(v) for v in res["dst"]]) != (asg, dst):
                fails.append((FINDING_EMPTY, what + "expected labels %s distances %s (labels index the centre list), got labels %s distances %s" % (
                    asg, [float(v) for v in dst], res["asg"], [float(F(v)) for v in res["dst"]])))
            if out.get("n_centers") is not None and out["n_centers"] != len(ctrs):
                fails.append((FINDING_EMPTY, what + "%d centres came back, the stopping rule gives %d" % (out["n_centers"], len(ctrs))))
            if out.get("centers_kept") is False:
                fails.append((FINDING_EMPTY, what + "result.centers (%s entries) is not the supplied points followed by the frames at "
                              "the new centre indices (%d indices)" % (out.get("n_centers"), len(res["ctrs"]))))
            return fails
        ctrs = [min((f for f in range(n) if a0[f] == j), key=lambda f: (d0[f], f)) for j in range(k0)] + ctrs[k0:]
    got = (res["ctrs"], res["asg"], [F(v) for v in res["dst"]])
    metric = cc.is_metric_space(D)
    if c.get("ti") and not metric:
        pass  # the shortcut is only claimed for metrics obeying the triangle inequality
    elif got != (ctrs, asg, dst):
        key = "shortcut-differs" if c.get("ti") else "greedy"
        fails.append((key, "expected centres %s labels %s, got %s %s" % (ctrs, asg, res["ctrs"], res["asg"])))
    if any(b > a for a, b in zip(radii, radii[1:])):
        fails.append(("radius-grows", str(radii)))
    k = len(res["ctrs"])
    k0 = len(c["init"]) if c["init"] else 1
    if not (c.get("ti") and not metric):
        # exact stop: first k >= k0 with k >= nclu or radius_k <= cutoff
        exp_k = len(ctrs)
        if k != exp_k:
            fails.append(("stop", "stopped with %d centres, exact rule gives %d" % (k, exp_k)))
    # 2-approximation against the brute-force optimum
    # (a supplied centre that is not a frame takes one of the k places without being one of the covered points:
    #  the pigeonhole argument, and the clause, are about centres taken from the data -- not demanded there)
    if metric and n <= 9 and k <= n and not c.get("vinit"):
        R = max(F(v) for v in res["dst"])
        best = min(max(min(D[s][f] for s in S) for f in range(n)) for S in itertools.combinations(range(n), k))
        if R > 2 * best:
            key = FINDING_F1 if (c["init"] and len(c["init"]) >= 2) else "two-approx"
            fails.append((key, "radius %s > 2 x optimum %s for k=%d" % (R, best, k)))
    if c.get("vinit"):
        if metric and out.get("other") is not None and out["other"] != res:
            o = out["other"]
            fails.append(("shortcut-differs", "initial centres that are not frames: use_triangle_inequality=%s gives centres %s "
                          "labels %s distances %s, use_triangle_inequality=%s gives %s %s %s" % (
                              bool(c.get("ti")), res["ctrs"], res["asg"], [float(F(v)) for v in res["dst"]],
                              not c.get("ti"), o["ctrs"], o["asg"], [float(F(v)) for v in o["dst"]])))
        if out.get("centers_kept") is False:
            fails.append(("center-not-frame", "result.centers is not the supplied points followed by the frames at the new centre indices"))
        if not out.get("X_unchanged", True):
            fails.append(("input-modified", "the data array was modified"))
        for msg in out.get("arg_problems", []):
            fails.append(("input-modified", msg))
    elif not (c.get("ti") and not metric):
        fails += cc.inv_failures(out)
    fails += cc.hist_failures(c, out)
    fails += cc.attr_failures(out)
    return fails


coq_check = cc.coq_check


def coq_show(c):
    return cc.coq_show(c)


def nontrivial(c, out):
    return "res" in out and c["n"] >= 4 and len(out["res"]["ctrs"]) >= 2


def tags(c, out):
    t = cc.common_tags(c, out)
    t.append("count" if c["cutoff"] is None else "radius" if c["nclu"] is None else "both")
    if c.get("line"):
        t.append("non-frame-init-bound-decides")
    if c.get("empty_init"):
        t.append("empty-initial-centre-witness")
    if c.get("ti") and c.get("traj"):
        t.append("ti-md-trajectory")
        if c.get("buf"):
            t.append("ti-md-trajectory-buffer-reusing-metric")
    return t


ESSENTIAL_TAGS = ["non-frame-init-more-centres-requested-than-frames", "non-frame-init-ends-with-more-centres-than-frames", "empty-initial-centre-witness", "init-estimator", "estimator-read-attrs-then-refit", "estimator-read-fit_predict-then-refit",
                  "estimator-read-predict-then-refit", "non-frame-init-bound-decides", "ti-md-trajectory", "ti-md-trajectory-buffer-reusing-metric", "non-frame-init", "non-frame-init-ti", "non-frame-init-euclidean", "non-frame-init-manhattan", "non-frame-init-matrix",
                  "non-frame-init-md-trajectory", "init-array", "init-list", "init-result", "warm-init-md-trajectory", "non-contiguous-data", "buffer-reusing-metric",
                  "estimator-history", "estimator-refit-same", "estimator-refit-other",
                  "md-trajectory-input", "near-half-boundary", "count", "radius", "both", "warm-init", "ti", "estimator-form", "matrix", "euclidean", "manhattan"]
