"""C02: k-centers picks farthest points, never widens the radius, stops exactly on cue."""
import itertools
from fractions import Fraction as F
import cluster_common as cc
from cluster_common import CASE_HEADER, MODEL_TARGETS, GEN_FILES
import os, sys
from core import VERIF
sys.path.insert(0, os.path.join(VERIF, "translator"))
import tr_kcguard


def translate(repo):
    return cc.translate_all(repo)


PID = "C02"
PROPS_FILE = "Props/C02.v"
TRUSTED = cc.TRUSTED
ASSUMPTIONS = ["metrics obeying the triangle inequality for the shortcut / 2-approximation clauses; cutoff >= 0; n_clusters >= 1"]
RULE = ("k-centers only (function and estimator form): 2..12 distinct integer points or an arbitrary symmetric integer matrix "
        "(half of them metric closures), every combination of count / radius / both, radii chosen at, just below and just above "
        "the radii the greedy run attains, cold start and warm start from 1..3 frames, with and without the triangle shortcut. "
        "Oracle: independent replay of farthest-first with first-maximum ties on the implementation's own distance matrix, "
        "exact stop rule, plain == shortcut, brute-force optimum over all k-subsets for the 2-approximation. "
        "non-trivial := n >= 4 and >= 2 centres"
        " Input-class axes, each forced in every run for every entry point (cluster_common.gen_axis_streams): memory layout of the data (column subset / strided rows / Fortran / transposed / negative stride / strided columns / read-only; same values, the metric is evaluated on a fresh contiguous copy); container of the warm-start centres (2-D array or md.Trajectory slice, Python list of frames, the .centers list of an earlier result) with argument-unchanged checks on the list and the earlier result; a metric that returns its result in one reused float64 buffer; estimator-reuse histories (constructed with other parameters, optional earlier fit on the same or other data, parameters changed through set_params / attribute assignment, second fit) compared with the function form called with the current parameters; tiny length scales (x 2^-14..2^-20) incl. k-medoids started from labels+distances without centre indices. Every run of the real code is bounded by a watchdog (10 s; key does-not-terminate).")
SHARD = 60
FINDING_F1 = "two-approx-with->=2-initial-centers"


def _greedy_radii(D, n, init):
    """radii after 1,2,.. centres for the plain farthest-first rule (first maximum)."""
    if init:
        ctrs = list(init)
        dst = [min(D[c][f] for c in ctrs) for f in range(n)]
    else:
        ctrs = [0]
        dst = [D[0][f] for f in range(n)]
    radii = [max(dst)]
    while max(dst) > 0:
        m = max(range(n), key=lambda f: (dst[f], -f))
        ctrs.append(m)
        dst = [min(dst[f], D[m][f]) for f in range(n)]
        radii.append(max(dst))
    return radii


def _pyD(c):
    import math
    if c["metric"] == "matrix":
        return [[float(F(v)) for v in row] for row in c["M"]]
    X = c["X"]
    if c["metric"] == "manhattan":
        return [[sum(abs(a - b) for a, b in zip(p, q)) for q in X] for p in X]
    return [[math.sqrt(sum((a - b) ** 2 for a, b in zip(p, q))) for q in X] for p in X]


def generate(rng, tier):
    N = 200 if tier == "quick" else 2500
    cases = [{"kind": "kcenters", "metric": "euclidean", "X": [[0], [1], [100]], "dtype": "float64", "n": 3,
              "nclu": 2, "cutoff": None, "init": [0, 1], "form": "func", "ti": False}]   # finding F1, always replayed
    for _ in range(N):
        if rng.random() < 0.15:
            cases.append(cc.gen_ti_boundary(rng))
            continue
        if rng.random() < 0.1:
            cases.append(cc.gen_traj_kcenters(rng))
            continue
        c = cc.gen_kcenters(rng)
        if c["cutoff"] is not None and rng.random() < 0.7:
            radii = _greedy_radii(_pyD(c), c["n"], c["init"])
            r = rng.choice(radii)
            c["cutoff"] = float(max(0.0, r + rng.choice([0, 0, -0.25, 0.25, -1e-9, 1e-9])))
            if c["cutoff"] == 0 and c["nclu"] is None:
                c["cutoff"] = 0.5
        cases.append(c)
    cases += cc.gen_axis_streams(rng, ["kcenters", "traj"], reps=2 if tier == "quick" else 12)
    return cases


run_impl = cc.run_case


def _replay(D, n, nclu, cutoff, init):
    """plain farthest-first with first-maximum ties and the exact stop rule"""
    if init:
        ctrs = list(init)
        asg, dst = [], []
        for f in range(n):
            j = min(range(len(ctrs)), key=lambda i: (D[ctrs[i]][f], i))
            asg.append(j)
            dst.append(D[ctrs[j]][f])
    else:
        ctrs = [0]
        asg = [0] * n
        dst = [D[0][f] for f in range(n)]
    radii = [max(dst)]
    while (nclu is None or len(ctrs) < nclu) and max(dst) > cutoff:
        m = max(range(n), key=lambda f: (dst[f], -f))
        for f in range(n):
            if D[m][f] < dst[f]:
                dst[f] = D[m][f]
                asg[f] = len(ctrs)
        ctrs.append(m)
        radii.append(max(dst))
    return ctrs, asg, dst, radii


def oracle(c, out):
    if "err" in out:
        if c["kind"] == "kcenters" and c["nclu"] is None and c["cutoff"] is None and out["err"] == "ImproperlyConfigured":
            return []      # no stopping criterion at all: rejection is the documented behaviour
        return [cc.err_failure(out)]
    fails = []
    D = [[F(v) for v in row] for row in out["D"]]
    n = c["n"]
    cutoff = F(c["cutoff"]) if c["cutoff"] is not None else F(0)
    ctrs, asg, dst, radii = _replay(D, n, c["nclu"], cutoff, c["init"])
    res = out["res"]
    got = (res["ctrs"], res["asg"], [F(v) for v in res["dst"]])
    metric = cc.is_metric_space(D)
    if c.get("ti") and not metric:
        pass  # the shortcut is only claimed for metrics obeying the triangle inequality
    elif got != (ctrs, asg, dst):
        key = "shortcut-differs" if c.get("ti") else "greedy"
        fails.append((key, "expected centres %s labels %s, got %s %s" % (ctrs, asg, res["ctrs"], res["asg"])))
    if any(b > a for a, b in zip(radii, radii[1:])):
        fails.append(("radius-grows", str(radii)))
    k = len(res["ctrs"])
    k0 = len(c["init"]) if c["init"] else 1
    if not (c.get("ti") and not metric):
        # exact stop: first k >= k0 with k >= nclu or radius_k <= cutoff
        exp_k = len(ctrs)
        if k != exp_k:
            fails.append(("stop", "stopped with %d centres, exact rule gives %d" % (k, exp_k)))
    # 2-approximation against the brute-force optimum
    if metric and n <= 9 and k <= n:
        R = max(F(v) for v in res["dst"])
        best = min(max(min(D[s][f] for s in S) for f in range(n)) for S in itertools.combinations(range(n), k))
        if R > 2 * best:
            key = FINDING_F1 if (c["init"] and len(c["init"]) >= 2) else "two-approx"
            fails.append((key, "radius %s > 2 x optimum %s for k=%d" % (R, best, k)))
    if not (c.get("ti") and not metric):
        fails += cc.inv_failures(out)
    fails += cc.hist_failures(c, out)
    return fails


coq_check = cc.coq_check


def coq_show(c):
    return cc.coq_show(c)


def nontrivial(c, out):
    return "res" in out and c["n"] >= 4 and len(out["res"]["ctrs"]) >= 2


def tags(c, out):
    t = cc.common_tags(c, out)
    t.append("count" if c["cutoff"] is None else "radius" if c["nclu"] is None else "both")
    return t


ESSENTIAL_TAGS = ["init-array", "init-list", "init-result", "warm-init-md-trajectory", "non-contiguous-data", "buffer-reusing-metric",
                  "estimator-history", "estimator-refit-same", "estimator-refit-other",
                  "md-trajectory-input", "near-half-boundary", "count", "radius", "both", "warm-init", "ti", "estimator-form", "matrix", "euclidean", "manhattan"]
