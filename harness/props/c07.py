"""C07: committors and mean first-passage times satisfy their first-step equations."""
import itertools, os, sys
from fractions import Fraction as F
import numpy as np
from core import cn, cq, clist, VERIF
sys.path.insert(0, os.path.join(VERIF, "translator"))
import tr_tpt

PID = "C07"
PROPS_FILE = "Props/C07.v"
MODEL_TARGETS = ["Model/TPT.vo", "Gen/TptGen.vo", "Model/TPTGen.vo"]
GEN_FILES = ["Gen/TptGen.v"]
CASE_HEADER = ("From Coq Require Import List ZArith QArith Bool.\nFrom EV Require Import TPT TptBase TptGen TPTGen.\n"
               "Import ListNotations.\n")


def translate(repo):
    return tr_tpt.translate(repo)


RULE = ("irreducible row-stochastic matrices with 3..7 states (thorough: ..9) from small integer count matrices with "
        "zeros (symmetric = reversible, and non-symmetric; half of them with power-of-two row sums so that the double "
        "matrix is exactly stochastic), plus a few reducible chains whose states all reach the absorbing set; source and "
        "sink sets disjoint with 1..3 members each (thorough: every such pair for small chains), plus overlapping / "
        "duplicated sets and empty source sets (correspondence only) and out-of-range indices (error clause); lag in {1, 2.5, 10}; "
        "populations computed or supplied; round 2: sink sets of 2..3 members with direct transitions between the sinks, "
        "irreducible PERIODIC chains (cyclic classes, period 2, 3 or n, dyadic and not) mostly through the all-pairs path "
        "with populations=None, and sequence cases (several calls in one process with the same number of states: "
        "mfpts(T, A) then mfpts(T', B) with A not a subset of B, committors/mfpts interleaved, and the all-pairs table "
        "built column by column in a random order) whose every call is checked like a stand-alone case; round 3s: every "
        "periodic shape as a fixed list (bipartite a+b blocks, k-cyclic blocks, n-cycles = permutation matrices with and "
        "without shuffled labels, even rings), each through the all-pairs table with populations=None and one other entry "
        "point; history probes (one caller keeps ONE matrix object, index-set objects and populations object per container: "
        "call, overwrite the returned array in place (scale / 1-q / fill), call again unchanged, overwrite the matrix "
        "buffer in place with another model on the same graph (dense X[...]=T', LIL row assignment, CSR/CSC/COO .data), "
        "call, put the first model back, call, give the index-set objects other members in place, call; plus a caller that "
        "releases the matrix and allocates the next one at the same address) whose every call is checked like a "
        "stand-alone case on what the objects held; every case is run on the real committors/mfpts with dense, csr, csc, coo and "
        "lil input and (round 3s) on the dense memory layouts Fortran order, transposed view, every-second-element view of a "
        "larger array (cells in between checked untouched), negative strides, read-only, np.matrix and -- for dyadic chains, "
        "where it is exact, outside the single-precision eigen-solver path -- float32, with the index sets as list / tuple / "
        "int64 / read-only int32 array / column vector; argument preservation covers matrix values, container type, dtype, "
        "strides, flags, nnz, index sets and populations; the definitions REGENERATED from the current source (Gen/TptGen.v, vm_compute over Q) must agree to 1e-9 relative "
        "and, for chains with at most 4 states, coincide exactly with the hand-written model (for all inputs that is a theorem), the oracle evaluates the "
        "first-step equations, bounds, column agreement, lag linearity, container agreement and input preservation on "
        "the implementation's output. Round 3s second wave: (a) stream `intdtype`: cyclic permutation matrices (3..7 states, thorough ..9, labels "
        "shuffled) -- and every other 0/1 chain of the run -- also held as int64 / int32 / bool / uint8 ndarray and int64 / int32 / bool csr, csc, "
        "coo, lil matrices (bool / uint8 not through the all-pairs table with populations=None: scipy's eigen-solver promotes them to single "
        "precision), lag times 1/2, 5/2, 3 through mfpts single sink / sink set / all pairs (populations computed and given) and committors; "
        "(b) stream `nearsym` (24 quick / 192 thorough): rare-event chains symmetric except for entries below 2^-27: two exactly symmetric basins "
        "(entries c/16) joined by 1..3 crossings of probability m 2^-e one way, m' 2^-e' the other (e != e' in 28..35: unequal basin weights), "
        "labels shuffled, through the all-pairs table with populations=None (5 of 6) or given, on every container and layout, checked by the "
        "first-step equations, column agreement with the single-sink routine and container agreement at the ABSOLUTE tolerance "
        "2^-44 S^2 lag (S = largest exact mean first-passage time in steps <= 2^37; at most 0.8 % of S; the unchanged code's table is off by "
        "<= 2.5 * 2^-52 S^2, i.e. the tolerance is 85..100 x the worst deviation seen over 1200 chains; crossings below 2^-35 are not "
        "generated because there the unchanged table itself is 1e-4..1e-3 off); oracle only; (c) stream `large` (10 quick / 40 thorough): "
        "60..300 states with 3..10 % of the transitions present (a cycle through all states plus random transitions, reversible or not) "
        "through committors, mfpts to sink sets and (60..90 states) the all-pairs table on ndarray (C and Fortran order) and csr / csc / coo / "
        "lil / dok / bsr / dia, at the ordinary 1e-9: first-step equations exactly in rationals, sparse against dense; oracle only (exact "
        "elimination in Coq is kept to <= 9 states). Round 3s third wave: (d) stream `rare` (18 quick / 144 thorough): 3..7-state chains "
        "(counts with row sum 2^K, exactly stochastic doubles) with one or two states that are entered with probability 2^-27..2^-36 only "
        "(smallest exact equilibrium population in [2^-36, 1e-8)) through the all-pairs table, lag times 1/2, 5/2, 3, populations given "
        "(the exact stationary vector) or computed, on every container and layout: lag linearity at 1e-9; first-step equations, column "
        "agreement with the single-sink routine and container agreement at a tolerance relative to the column's largest exact entry: "
        "2^-46 / min population (given; the unchanged code is off by <= 0.5 * 2^-52 / min population, its single-sink columns by <= 1.5 of "
        "these units, measured over 1900 chains) or 2^-42 / min population (computed: <= 18 units); oracle only; (e) stream `big` (4 quick / "
        "12 thorough): slowly mixing chains with 1000..1100 states -- a nearest-neighbour walk in a double-well potential (barrier 0.5..4 kT) "
        "and two sparse random basins joined by a few weak links -- through mfpts to sink sets of 1..3 members (lag 1/2, 5/2, 3; populations "
        "handed in to keep the eigen-solver out) and committors, ndarray and csr (thorough: + Fortran order, csc), judged by the first-step "
        "equations evaluated in extended precision at 2^-45 of the largest mean first-passage time (the unchanged code's residual is <= 6 * 2^-52 "
        "of it: the tolerance is 22 x the worst seen; committors: 1e-9), sink zeros, lag linearity, container agreement; BLAS limited to one thread; oracle only. "
        "Round 3s fifth wave: (f) every case (in stream `big`: coo_array, thorough also csr_array) is also run on SciPy's sparse ARRAY classes csr_array, csc_array, coo_array, "
        "lil_array, dok_array, bsr_array, dia_array (all the installed SciPy offers; `*` is elementwise on them), 0/1 chains also on integer / "
        "boolean ones, the history probes overwriting their buffers in place (data arrays, LIL rows, DOK items), index sets additionally as "
        "int16 arrays; (g) stream `negidx` (82 quick / 650 thorough): source / sink sets naming states the NumPy way from the end (i - n; -1 the "
        "last state, -n the first, both frequent), alone and mixed with non-negative members, for committors and mfpts to sink sets on every "
        "container and every index-set form (list, tuple, int64 / int32 / int16 / read-only arrays, column vector), in history probes (sets "
        "negative from the start, or given negative names in place between calls), on 80..250-state sparse chains, plus a state named once "
        "in each set under its two names (correspondence only) and indices below -n (error clause: IndexError); model and oracle work on the "
        "states meant (i), and the call with the non-negative names is an extra reference (`negative-index-equivalence`, 1e-9). non-trivial := at least 3 states and at least one state that is neither source "
        "nor sink with a committor strictly between 0 and 1 (committors) / at least two non-sink states (mfpts)")
TRUSTED = ["translator/tr_tpt.py (fail-closed symbolic reading of _I_m_Q / committors / mfpts into Gen/TptGen.v) and the meaning "
           "of the array vocabulary Base/TptBase.v (NumPy fancy indexing, item assignment, broadcasting, axis sums) -- both "
           "exercised by the correspondence on every case; translator/tr_tpt_selftest.py replays 35 source mutations",
           "modelled not verified: scipy.sparse.linalg.spsolve, np.linalg.solve, np.linalg.inv (model: exact Gauss-Jordan "
           "over Q, now proved sound and total on matrices with trivial kernel (Proof/TPTExist.v); its output is still "
           "re-checked by is_solution before use), eq_probs / scipy.linalg.eig (model: exact "
           "stationary vector, re-checked), NumPy fancy indexing and scipy.sparse container conversions",
           "for double matrices that are not exactly row-stochastic (row sums not a power of two) the populations=None "
           "cases hand the eigen-solver's eq_probs output to the model as the populations argument",
           "comparison of doubles with exact rationals at relative tolerance 1e-9"]
ASSUMPTIONS = ["the model's state indices are non-negative: an index i - n (NumPy's counting from the end, -n <= i - n < 0) is read as the state i "
               "by the harness before it reaches the model; the real code is handed the negative index",
               "theorems assume duplicate-free, disjoint source and sink lists and exact rational arithmetic",
               "near-symmetric rare-event stream: crossing probabilities 2^-28..2^-35 and largest mean first-passage time <= 2^37 steps "
               "(beyond that the unchanged code's all-pairs table is itself 1e-4..1e-3 off); tolerance relative to the square of the time scale",
               "boolean / 8-bit integer transition matrices: not through mfpts(populations=None) (single-precision eigen-solve, like float32)",
               "rare-state stream: smallest equilibrium population >= 2^-36 and largest mean first-passage time <= 2^38 steps (below that the "
               "eigen-solver's populations and the single-sink solves are themselves off by more than 1e-5); tolerance proportional to 1 / min population",
               "1000+-state stream: first-step residual judged relative to the largest mean first-passage time (the solve is backward stable, not "
               "componentwise accurate)"]
SHARD = 12     # nondyadic 9-state all-pairs cases cost ~1 min each in Coq: 24 of them in one file came close to the per-file time limit on a loaded machine
EXHAUSTIVE = {"thorough": False}
ESSENTIAL_TAGS = ["comm", "comm-multi-sink", "comm-multi-source", "mfpt-sinks", "mfpt-multi-sink", "mfpt-all",
                  "mfpt-all-pops-given", "reversible", "nonreversible", "dyadic", "nondyadic", "index-error",
                  "lag-not-1", "interior-committor", "periodic", "periodic-all-pairs-pops-none", "sink-to-sink",
                  "seq-sinks-not-nested", "seq-column-by-column", "seq-committors-and-mfpts", "seq-all-calls-returned",
                  # round 3s
                  "periodic-bipartite-all-pairs", "periodic-k-cyclic-all-pairs", "periodic-permutation-all-pairs",
                  "periodic-ring-all-pairs", "layouts-committors", "layouts-mfpt-sinks", "layouts-mfpt-all",
                  "float32-committors", "float32-mfpt-sinks", "float32-mfpt-all",
                  "hist-committors", "hist-mfpt-sinks", "hist-mfpt-all", "hist-same-call-again",
                  "hist-matrix-overwritten-in-place", "hist-sets-overwritten-in-place",
                  "hist-populations-overwritten-in-place", "hist-all-calls-returned",
                  "hist-result-scale", "hist-result-reverse", "hist-result-fill",
                  # round 3s, second wave
                  "int-dtype-committors", "int-dtype-mfpt-sinks", "int-dtype-mfpt-all", "int-dtype-noninteger-lag-mfpt-sinks",
                  "int-dtype-noninteger-lag-mfpt-multi-sink", "int-dtype-noninteger-lag-mfpt-all",
                  "nearsym-all-pairs-pops-none", "nearsym-all-pairs-pops-given",
                  "large-sparse-committors", "large-sparse-mfpt-sinks", "large-sparse-mfpt-all",
                  "large-sparse-200plus-committors", "large-sparse-200plus-mfpt-sinks",
                  # round 3s, third wave
                  "rare-all-pairs-pops-none", "rare-all-pairs-pops-given", "rare-all-pairs-noninteger-lag", "rare-all-pairs-integer-lag-not-1",
                  "big-1000plus-mfpt-sinks", "big-1000plus-committors", "big-double-well", "big-two-basins", "big-1000plus-sparse-input",
                  # round 3s, fifth wave
                  "sparse-array-classes-committors", "sparse-array-classes-mfpt-sinks", "sparse-array-classes-mfpt-all",
                  "sparse-array-classes-large", "sparse-array-classes-int-dtype",
                  "neg-index-committors", "neg-index-mfpt-sinks", "neg-index-source", "neg-index-sink",
                  "neg-index-mixed-with-non-negative", "neg-index-minus-one", "neg-index-minus-n", "neg-index-large",
                  "hist-neg-index", "hist-neg-index-put-in-place", "index-error-below-minus-n"]
CONTAINERS = ["dense", "csr", "csc", "coo", "lil"]
TOL = F(1, 10 ** 9)


# ----------------------------------------------------------------------------- generators
def _strongly_connected(C):
    n = len(C)

    def reach(adj):
        seen, st = {0}, [0]
        while st:
            i = st.pop()
            for j in range(n):
                if adj(i, j) and j not in seen:
                    seen.add(j)
                    st.append(j)
        return len(seen) == n
    return reach(lambda i, j: C[i][j] > 0) and reach(lambda i, j: C[j][i] > 0)


def _all_reach(C, A):
    """every state reaches the set A (breadth-first search along reversed transitions)"""
    n = len(C)
    pred = [[i for i in range(n) if C[i][j] > 0] for j in range(n)]
    seen = set(a for a in A if 0 <= a < n)
    st = list(seen)
    while st:
        j = st.pop()
        for i in pred[j]:
            if i not in seen:
                seen.add(i)
                st.append(i)
    return len(seen) == n


def _counts(rng, n, reversible, dyadic):
    for _ in range(200):
        dens = rng.choice([0.45, 0.6, 0.8, 1.0])
        C = [[(rng.randint(1, 6) if rng.random() < dens else 0) for _ in range(n)] for _ in range(n)]
        if reversible:
            for i in range(n):
                for j in range(i):
                    C[i][j] = C[j][i]
        if dyadic:
            _top_up(C)
        if all(sum(r) > 0 for r in C) and _strongly_connected(C):
            return C
    return [[1] * n for _ in range(n)]


def _top_up(C):
    """make every row sum a power of two by topping up the diagonal (keeps symmetry)"""
    for i in range(len(C)):
        t = sum(C[i])
        p = 8
        while p < t + (0 if C[i][i] else 1):
            p *= 2
        C[i][i] += p - t


def _period(C):
    """period of an irreducible chain: gcd over the edges i->j of level[i] + 1 - level[j] (BFS levels from state 0)"""
    from math import gcd
    n = len(C)
    lev, st = {0: 0}, [0]
    while st:
        nxt = []
        for i in st:
            for j in range(n):
                if C[i][j] > 0 and j not in lev:
                    lev[j] = lev[i] + 1
                    nxt.append(j)
        st = nxt
    g = 0
    for i in range(n):
        for j in range(n):
            if C[i][j] > 0 and i in lev and j in lev:
                g = gcd(g, lev[i] + 1 - lev[j])
    return abs(g)


def _periodic_counts(rng, n, dyadic):
    """irreducible chain of period d >= 2: the states are split into d cyclic classes and every transition goes from a
    class to the next one (d = n: a deterministic cycle, i.e. a permutation matrix)"""
    for _ in range(200):
        d = min(n, rng.choice([2, 2, 3, n]))
        perm = list(range(n))
        rng.shuffle(perm)
        cls = {i: k % d for k, i in enumerate(perm)}
        C = [[0] * n for _ in range(n)]
        for i in range(n):
            nxt = [j for j in range(n) if cls[j] == (cls[i] + 1) % d]
            tg = rng.sample(nxt, rng.randint(1, len(nxt)))
            if dyadic:
                w = {j: 1 for j in tg}
                for _ in range(8 - len(tg)):
                    w[rng.choice(tg)] += 1
            else:
                w = {j: rng.randint(1, 6) for j in tg}
            for j, x in w.items():
                C[i][j] = x
        if _strongly_connected(C) and _period(C) > 1:
            return C
    return [[1 if j == (i + 1) % n else 0 for j in range(n)] for i in range(n)]


def _cyclic_blocks(rng, sizes, dyadic, full=False):
    """irreducible chain whose states fall into len(sizes) cyclic classes of the given sizes (every transition goes
    from a class to the next one): period = len(sizes) exactly.  States are assigned to the classes at random."""
    n, d = sum(sizes), len(sizes)
    for _ in range(200):
        perm = list(range(n))
        rng.shuffle(perm)
        cls, k = {}, 0
        for ci, sz in enumerate(sizes):
            for _ in range(sz):
                cls[perm[k]] = ci
                k += 1
        C = [[0] * n for _ in range(n)]
        for i in range(n):
            nxt = [j for j in range(n) if cls[j] == (cls[i] + 1) % d]
            tg = nxt if full else rng.sample(nxt, rng.randint(1, len(nxt)))
            if dyadic:
                w = {j: 1 for j in tg}
                for _ in range(8 - len(tg)):
                    w[rng.choice(tg)] += 1
            else:
                w = {j: rng.randint(1, 6) for j in tg}
            for j, x in w.items():
                C[i][j] = x
        if _strongly_connected(C) and _period(C) == d:
            return C
    return None


def _ring(rng, n, dyadic):
    """nearest-neighbour walk on a ring with an even number of states (no self transitions): reversible-pattern, period 2"""
    C = [[0] * n for _ in range(n)]
    for i in range(n):
        a = rng.randint(1, 7) if dyadic else rng.randint(1, 6)
        b = 8 - a if dyadic else rng.randint(1, 6)
        C[i][(i + 1) % n] = a
        C[i][(i - 1) % n] = b
    return C


def _periodic_shapes(rng, big):
    """the periodic chains as a systematic stream: (shape label, counts)"""
    out = []
    bip = [(1, 2), (2, 1), (2, 2), (1, 3), (2, 3), (3, 3), (4, 2)] + ([(1, 5), (3, 4), (5, 4), (4, 4)] if big else [])
    cyc = [(1, 1, 2), (1, 2, 2), (2, 2, 2), (1, 2, 3), (1, 1, 1, 2), (2, 1, 2, 1)] + ([(3, 3, 3), (1, 1, 1, 1, 3), (2, 2, 2, 2)] if big else [])
    for sizes in bip:
        for dy in (True, False):
            out.append(("bipartite", _cyclic_blocks(rng, sizes, dy)))
        out.append(("bipartite", _cyclic_blocks(rng, sizes, True, full=True)))
    for sizes in cyc:
        for dy in (True, False):
            out.append(("k-cyclic", _cyclic_blocks(rng, sizes, dy)))
    for n in [3, 4, 5, 6, 7] + ([8, 9] if big else []):
        out.append(("permutation", _cyclic_blocks(rng, (1,) * n, True)))        # a single n-cycle, labels shuffled
        out.append(("permutation", [[1 if j == (i + 1) % n else 0 for j in range(n)] for i in range(n)]))
    for n in [4, 6] + ([8] if big else []):
        for dy in (True, False):
            out.append(("ring", _ring(rng, n, dy)))
    return [(lab, C) for lab, C in out if C is not None]


def _same_pattern(rng, C, rev, dyadic):
    """another model on the same graph: new counts wherever C has one (so that a CSR/CSC/COO data array can be
    overwritten in place); symmetric when C is to stay reversible; dyadic row sums through the diagonal when C's are
    (then C's diagonal is fully populated, see _top_up)"""
    n = len(C)
    for _ in range(50):
        D = [[(rng.randint(1, 6) if C[i][j] else 0) for j in range(n)] for i in range(n)]
        if rev:
            for i in range(n):
                for j in range(i):
                    D[i][j] = D[j][i]
        if dyadic:
            for i in range(n):
                D[i][i] = 0
            _top_up(D)
        if D != C and all((D[i][j] > 0) == (C[i][j] > 0) for i in range(n) for j in range(n)):
            return D
    return None


def _sym_block(rng, n, k):
    """connected symmetric count matrix whose every row sums to 2^k (diagonal topped up): divided by 2^k an exactly
    symmetric, doubly sub-stochastic block"""
    for _ in range(200):
        C = [[0] * n for _ in range(n)]
        for i in range(n):
            for j in range(i + 1, n):
                if rng.random() < 0.8:
                    C[i][j] = C[j][i] = rng.randint(1, 3)
        if n > 1 and not _strongly_connected(C):
            continue
        if all(sum(r) < 2 ** k for r in C):
            for i in range(n):
                C[i][i] = 2 ** k - sum(C[i])
            return C
    return None


def _exact_mfpt_steps(C):
    """exact all-pairs mean first-passage times in steps (Fractions; None when a column system is singular)"""
    n = len(C)
    T = [[F(x, sum(r)) for x in r] for r in C]
    out = [[F(0)] * n for _ in range(n)]
    for j in range(n):
        idx = [i for i in range(n) if i != j]
        m = len(idx)
        A = [[(1 if r == c else 0) - T[r][c] for c in idx] + [F(1)] for r in idx]
        for col in range(m):
            piv = next((r for r in range(col, m) if A[r][col] != 0), None)
            if piv is None:
                return None
            A[col], A[piv] = A[piv], A[col]
            p = A[col][col]
            A[col] = [x / p for x in A[col]]
            for r in range(m):
                if r != col and A[r][col] != 0:
                    f = A[r][col]
                    A[r] = [x - f * y for x, y in zip(A[r], A[col])]
        for r, i in enumerate(idx):
            out[i][j] = A[r][m]
    return out


NEARSYM_MAX_STEPS = 2 ** 37     # see _nearsym_atol


def _nearsym(rng):
    """rare-event chain that is symmetric except for entries below 1e-8: two exactly symmetric basins (dyadic entries
    c/16) joined by 1..3 crossings with probability m 2^-e1 one way and m' 2^-e2 the other way (e1 != e2 in 28..35, so
    the basins carry unequal weight: the stationary vector is far from uniform although max|T - T^T| < 2^-27); state
    labels shuffled.  Counts with row sum 2^K: the double matrix is exactly stochastic."""
    for _ in range(100):
        a, b, k = rng.randint(2, 4), rng.randint(2, 4), 4
        e1 = rng.randint(28, 35)
        e2 = e1 + rng.choice([-3, -2, -1, 1, 2, 3])
        if not 28 <= e2 <= 35:
            continue
        A, B = _sym_block(rng, a, k), _sym_block(rng, b, k)
        if A is None or B is None:
            continue
        n, K = a + b, max(e1, e2) + k
        C = [[0] * n for _ in range(n)]
        for i in range(a):
            for j in range(a):
                C[i][j] = A[i][j] << (K - k)
        for i in range(b):
            for j in range(b):
                C[a + i][a + j] = B[i][j] << (K - k)
        for _ in range(rng.choice([1, 1, 2, 3])):
            i, j = rng.randrange(a), a + rng.randrange(b)
            if C[i][j]:
                continue
            C[i][j] = rng.randint(1, 2) << (K - e1)
            C[j][i] = rng.randint(1, 2) << (K - e2)
            C[i][i] -= C[i][j]
            C[j][j] -= C[j][i]
        if min(C[i][i] for i in range(n)) <= 0 or not all(sum(r) == 2 ** K for r in C):
            continue
        perm = list(range(n))
        rng.shuffle(perm)
        C = [[C[perm[i]][perm[j]] for j in range(n)] for i in range(n)]
        if max(abs(C[i][j] - C[j][i]) for i in range(n) for j in range(n)) >= 2 ** (K - 27):
            continue
        E = _exact_mfpt_steps(C)
        if E is None or max(max(r) for r in E) > NEARSYM_MAX_STEPS:
            continue
        return C
    return None


def _nearsym_atol(c):
    """Tolerance of the near-symmetric rare-event stream (absolute, for every entry of the table): these chains are stiff
    (I - T + W has condition ~ S, the largest mean first-passage time in steps), the unchanged code's all-pairs table
    is off by up to 2.5 * 2^-52 * S^2 steps (measured over 600 chains, single-sink columns 0.16 * 2^-52 * S^2); allowed:
    2^-44 * S^2 (100 x the worst seen), which with S <= 2^37 is below 0.8 % of S.  (At crossings of 2^-40 the
    unchanged table is itself 1e-3 off, which is why the stream stops at 2^-35 and S <= 2^37.)"""
    E = _exact_mfpt_steps(c["counts"])
    S = max(max(r) for r in E)
    return F(c["lag"]) * S * S / 2 ** 44


def _large_counts(rng, n, dens, rev):
    """irreducible chain on many states with few transitions per state: a cycle through all states in a shuffled order
    (both directions when symmetric) plus random transitions at the given density, a self transition on half of the
    states"""
    order = list(range(n))
    rng.shuffle(order)
    C = [[0] * n for _ in range(n)]
    for a, b in zip(order, order[1:] + order[:1]):
        C[a][b] = rng.randint(1, 6)
        if rev:
            C[b][a] = C[a][b]
    for i in range(n):
        for j in range(i + 1 if rev else 0, n):
            if rng.random() < dens:
                C[i][j] = rng.randint(1, 6)
                if rev:
                    C[j][i] = C[i][j]
        if rng.random() < 0.5:
            C[i][i] = rng.randint(1, 6)
    return C


def _cycle(rng, n):
    """a single n-cycle with shuffled labels: the irreducible 0/1 stochastic matrices (legal with an integer or
    boolean dtype)"""
    order = list(range(n))
    rng.shuffle(order)
    C = [[0] * n for _ in range(n)]
    for a, b in zip(order, order[1:] + order[:1]):
        C[a][b] = 1
    return C


def _round3s2_cases(rng, big):
    out = []
    # (a) integer / boolean transition matrices (cyclic permutation matrices) x lag times 1/2, 5/2, 3, every entry point
    forms = ["sink1", "sinks", "all-none", "all-given", "comm"]
    k = 0
    for n in [3, 4, 5, 6, 7] + ([8, 9] if big else []):
        for lag in ["1/2", "5/2", "3"]:
            for rep in range(2 if not big else 4):
                C = _cycle(rng, n)
                form = forms[k % 5]
                k += 1
                if form == "comm" and rep == 0:
                    src, snk = _sets(rng, n)
                    out.append({"kind": "comm", "n": n, "counts": C, "src": src, "snk": snk, "stream": "intdtype"})
                    form = forms[k % 5]
                    k += 1
                if form == "comm":
                    form = "sinks"
                if form in ("sink1", "sinks"):
                    snk = [rng.randrange(n)] if form == "sink1" or n < 4 else rng.sample(range(n), rng.randint(2, min(3, n - 1)))
                    out.append({"kind": "mfpt_s", "n": n, "counts": C, "snk": snk, "lag": lag, "stream": "intdtype"})
                else:
                    out.append({"kind": "mfpt_a", "n": n, "counts": C, "lag": lag, "pops": form[4:], "stream": "intdtype"})
    # (b) near-symmetric rare-event chains through the all-pairs table (populations computed, mostly)
    for k in range(24 * (8 if big else 1)):
        C = _nearsym(rng)
        if C is not None:
            out.append({"kind": "mfpt_a", "n": len(C), "counts": C, "lag": rng.choice(["1", "5/2", "10"]),
                        "pops": "given" if k % 6 == 5 else "none", "stream": "nearsym"})
    # (c) many states, few transitions per state: sparse solves that are not small (oracle only)
    plan = [("comm", 60), ("comm", 90), ("comm", 130), ("comm", 200), ("comm", 300), ("mfpt_s", 70), ("mfpt_s", 160),
            ("mfpt_s", 260), ("mfpt_a", 60), ("mfpt_a", 80)]
    for rep in range(4 if big else 1):
        for kind, n in plan:
            if rep:
                n = rng.randint(60, 300 if kind != "mfpt_a" else 90)
            C = _large_counts(rng, n, rng.choice([0.03, 0.05, 0.07, 0.10]), rng.random() < 0.5)
            if kind == "comm":
                perm = rng.sample(range(n), 6)
                ks, kt = rng.randint(1, 3), rng.randint(1, 3)
                out.append({"kind": "comm", "n": n, "counts": C, "src": perm[:ks], "snk": perm[3:3 + kt], "stream": "large"})
            elif kind == "mfpt_s":
                out.append({"kind": "mfpt_s", "n": n, "counts": C, "snk": rng.sample(range(n), rng.randint(1, 3)),
                            "lag": rng.choice(["1", "5/2", "10"]), "stream": "large"})
            else:
                out.append({"kind": "mfpt_a", "n": n, "counts": C, "lag": rng.choice(["1", "5/2"]),
                            "pops": "none" if len(out) % 2 else "given", "stream": "large"})
    return out


def _stationary_exact(C):
    """exact stationary vector of an irreducible count matrix (Fractions)"""
    n = len(C)
    T = [[F(x, sum(r)) for x in r] for r in C]
    A = [[(1 if i == j else 0) - T[j][i] for j in range(n)] + [F(0)] for i in range(n)]
    A[-1] = [F(1)] * n + [F(1)]
    for col in range(n):
        piv = next((r for r in range(col, n) if A[r][col] != 0), None)
        if piv is None:
            return None
        A[col], A[piv] = A[piv], A[col]
        p = A[col][col]
        A[col] = [x / p for x in A[col]]
        for r in range(n):
            if r != col and A[r][col] != 0:
                f = A[r][col]
                A[r] = [x - f * y for x, y in zip(A[r], A[col])]
    return [A[i][n] for i in range(n)]


RARE_MIN_POP = F(1, 2 ** 36)
RARE_MAX_STEPS = 2 ** 38


def _rare(rng):
    """chain with one or two rarely visited states: counts with row sum 2^K (exactly stochastic doubles), every
    transition INTO a rare state has probability m 2^-e (e in 27..36), the rare states leave as fast as the others; the
    smallest exact equilibrium population lies in [2^-36, 1e-8), the largest mean first-passage time below 2^38 steps"""
    for _ in range(200):
        n = rng.randint(3, 7)
        e = rng.randint(27, 34)
        K = e + 6
        nr = rng.choice([1, 1, 2]) if n >= 5 else 1
        C = [[(rng.randint(1, 3) if rng.random() < 0.7 else 0) for _ in range(n)] for _ in range(n)]
        if rng.random() < 0.5:
            for i in range(n):
                for j in range(i):
                    C[i][j] = C[j][i]
        for i in range(n):
            C[i][i] = 0
        _top_up(C)
        rs = [sum(r) for r in C]
        C = [[x << (K - (rs[i].bit_length() - 1)) for x in C[i]] for i in range(n)]
        rares = rng.sample(range(n), nr)
        for r in rares:
            for i in range(n):
                if i == r:
                    continue
                old, new = C[i][r], 0
                if i not in rares and (old or rng.random() < 0.3) and rng.random() < 0.85:
                    new = rng.randint(1, 3) << (K - e - rng.randint(0, 2))
                C[i][r] = new
                C[i][i] += old - new
        if min(C[i][i] for i in range(n)) < 0 or not _strongly_connected(C) or not all(sum(r) == 2 ** K for r in C):
            continue
        pi = _stationary_exact(C)
        if pi is None or not (RARE_MIN_POP <= min(pi) < F(1, 10 ** 8)):
            continue
        E = _exact_mfpt_steps(C)
        if E is None or max(max(r) for r in E) > RARE_MAX_STEPS:
            continue
        return C
    return None


def _rare_ctol(c):
    """Tolerance of the rare-state stream, per column of the table (absolute): the all-pairs route divides by the
    populations, the single-sink route solves a system of condition ~ 1 / min population, the eigen-solver's smallest
    component carries a relative error of ~ 2^-52 / min population.  Measured on the unchanged code over 1900 chains, in
    units of u = 2^-52 / min population relative to the column's largest exact entry: table with exact populations given
    <= 0.5 u, single-sink columns <= 1.5 u, table with computed populations <= 18 u.  Allowed: 64 u (given), 1024 u
    (computed): at the smallest admitted population 2^-36 that is 1e-3 / 1.6e-2 of the column's scale."""
    C = c["counts"]
    E = _exact_mfpt_steps(C)
    mp = min(_stationary_exact(C))
    u = F(1, 2 ** (46 if c["pops"] == "given" else 42)) / mp
    n = len(C)
    return [u * F(c["lag"]) * max(E[k][j] for k in range(n)) for j in range(n)]


def _big_dwell(rng, n):
    """nearest-neighbour walk in a double-well potential U(x) = h (x^2 - 1)^2 on n grid points of [-1.5, 1.5]
    (Metropolis rates, step probability <= 1/4 each way): reversible, aperiodic, slowly mixing.  Sparse integer counts
    with row sum 2^30 (exactly stochastic doubles): rows[i] = [[j, count], ...]"""
    import math
    h = rng.choice([0.5, 1.0, 2.0, 3.0, 4.0]) * rng.uniform(0.9, 1.1)
    K = 30
    xs = [-1.5 + 3.0 * i / (n - 1) for i in range(n)]
    U = [h * (x * x - 1) ** 2 for x in xs]
    rows = []
    for i in range(n):
        up = int(round(2 ** (K - 2) * min(1.0, math.exp(-(U[i + 1] - U[i]))))) if i + 1 < n else 0
        dn = int(round(2 ** (K - 2) * min(1.0, math.exp(-(U[i - 1] - U[i]))))) if i > 0 else 0
        row = []
        if dn:
            row.append([i - 1, dn])
        row.append([i, 2 ** K - up - dn])
        if up:
            row.append([i + 1, up])
        rows.append(row)
    return rows


def _big_basins(rng, n):
    """two sparse random basins (a ring through each basin plus 2..4 random transitions per state, weight w = 2^4..2^8
    times a small count) joined by 6..30 links of count 1..3: mixing inside a basin takes a few steps, crossing takes
    thousands"""
    a = n // 2 + rng.randint(-60, 60)
    perm = list(range(n))
    rng.shuffle(perm)
    A, B = perm[:a], perm[a:]
    w = 2 ** rng.randint(4, 8)
    rev = rng.random() < 0.5
    cnt = [dict() for _ in range(n)]

    def put(i, j, x):
        cnt[i][j] = x
        if rev:
            cnt[j][i] = x
    for grp in (A, B):
        for k, i in enumerate(grp):
            put(i, grp[(k + 1) % len(grp)], w * rng.randint(1, 6))
            for _ in range(rng.randint(2, 4)):
                put(i, rng.choice(grp), w * rng.randint(1, 6))
            if rng.random() < 0.5:
                cnt[i][i] = w * rng.randint(1, 6)
    for _ in range(rng.randint(6, 30)):
        i, j = rng.choice(A), rng.choice(B)
        cnt[i][j] = rng.randint(1, 3)
        cnt[j][i] = cnt[i][j] if rev else rng.randint(1, 3)
    return [[[j, x] for j, x in sorted(r.items())] for r in cnt], A, B


def _round3s3_cases(rng, big):
    out = []
    # (d) rare states: the all-pairs table where an equilibrium population is below 1e-8, lag times 1/2, 5/2, 3
    lags = ["1/2", "5/2", "3"]
    for k in range(18 * (8 if big else 1)):
        C = _rare(rng)
        if C is not None:
            out.append({"kind": "mfpt_a", "n": len(C), "counts": C, "lag": lags[k % 3], "pops": "given" if k % 2 else "none",
                        "stream": "rare"})
    # (e) 1000..1100 states, slowly mixing: sink-set mfpts and committors, dense and sparse input
    for rep in range(3 if big else 1):
        for chain in ("dwell", "basins"):
            n = rng.choice([1000, 1024]) if rep == 0 else rng.randint(1000, 1100)
            if chain == "dwell":
                rows = _big_dwell(rng, n)
                lo, hi = list(range(n // 8, 3 * n // 8)), list(range(5 * n // 8, 7 * n // 8))
                far = [0, n - 1, n // 2]
            else:
                rows, lo, hi = _big_basins(rng, n)
                far = []
            ks = rng.choice([1, 2, 3])
            pool = (far + hi) if rng.random() < 0.5 else (far + lo)
            snk = rng.sample(far, 1) + rng.sample(hi, ks - 1) if far and rng.random() < 0.5 else rng.sample(pool, ks)
            out.append({"kind": "big", "what": "mfpt_s", "n": n, "chain": chain, "rows": rows, "snk": snk,
                        "lag": lags[(rep + (chain == "dwell")) % 3], "stream": "big", "more": big})
            out.append({"kind": "big", "what": "comm", "n": n, "chain": chain, "rows": rows,
                        "src": rng.sample(lo, rng.choice([1, 2])), "snk": rng.sample(hi, rng.choice([1, 2, 3])), "stream": "big", "more": big})
    return out


def _neg_flags(rng, xs, mode):
    """which members of an index set are written from the end (i - n): all / none / mixed (both kinds when there are two
    members or more)"""
    k = len(xs)
    if mode in ("all", "none") or k == 1:
        return [0 if mode == "none" else 1] * k
    while True:
        f = [rng.randint(0, 1) for _ in xs]
        if any(f) and not all(f):
            return f


NEG_MODES = [("all", "none"), ("none", "all"), ("all", "all"), ("mixed", "mixed"), ("mixed", "none"), ("none", "mixed")]


def _negidx_cases(rng, big, sizes, lags):
    """round 3s, fifth wave: states named by NEGATIVE indices (NumPy's way of counting from the end: -1 is the last state,
    -n the first) in the source and sink sets -- alone and mixed with non-negative members.  c["src"] / c["snk"] keep the
    states meant; c["neg"] says which of them the caller writes as i - n (see _given)."""
    out = []
    for k in range(60 * (8 if big else 1)):
        n = rng.choice(sizes)
        C = _counts(rng, n, rng.random() < 0.5, rng.random() < 0.5)
        ms, mt = NEG_MODES[k % 6]
        src, snk = _multi_sets(rng, n) if (k % 5 == 4 and n >= 4) else _sets(rng, n)
        if k % 3 == 2:
            if ms == "none":
                mt = rng.choice(["all", "mixed"])
            if mt == "none":
                mt = "all"
            snk = (snk + src)[:max(len(snk), 2 if n >= 4 else 1)] if k % 6 == 5 else snk
            c = {"kind": "mfpt_s", "n": n, "counts": C, "snk": snk, "lag": rng.choice(lags)}
            sets = [("snk", mt)]
        else:
            c = {"kind": "comm", "n": n, "counts": C, "src": src, "snk": snk}
            sets = [("src", ms), ("snk", mt)]
        # the ends of the index range often: the last state as -1, the first as -n
        edge = {0: n - 1, 1: 0}.get(k % 4)
        if edge is not None:
            key = rng.choice([kk for kk, m in sets if m != "none"])
            if edge not in c[key]:
                other = [x for kk, _ in sets for x in c[kk]]
                if edge in other:      # swap the two states' roles
                    for kk, _ in sets:
                        c[kk] = [c[key][0] if x == edge else x for x in c[kk]]
                c[key] = [edge] + c[key][1:]
        c["neg"] = {kk: _neg_flags(rng, c[kk], m) for kk, m in sets}
        for kk, m in sets:
            if edge is not None and m != "none" and edge in c[kk]:
                c["neg"][kk][c[kk].index(edge)] = 1
        c["stream"] = "negidx"
        out.append(c)
    # outside the quantifier (correspondence only): a state in both sets, once under each name
    for k in range(4 * (8 if big else 1)):
        n = rng.choice(sizes)
        C = _counts(rng, n, rng.random() < 0.5, rng.random() < 0.5)
        src, snk = _sets(rng, n)
        src = src + [snk[0]]
        out.append({"kind": "comm", "n": n, "counts": C, "src": src, "snk": snk, "stream": "negidx",
                    "neg": {"src": [0] * (len(src) - 1) + [1], "snk": [0] * len(snk)}})
    # error clause: a negative index below -n
    for k in range(9 * (8 if big else 1)):
        n = rng.choice(sizes)
        C = _counts(rng, n, rng.random() < 0.5, rng.random() < 0.5)
        src, snk = _sets(rng, n)
        bad = -n - 1 - rng.choice([0, 0, 1, 5])
        if k % 3 == 0:
            c = {"kind": "comm", "n": n, "counts": C, "src": src, "snk": snk, "badneg": ["src", bad]}
        elif k % 3 == 1:
            c = {"kind": "comm", "n": n, "counts": C, "src": src, "snk": snk, "badneg": ["snk", bad]}
        else:
            c = {"kind": "mfpt_s", "n": n, "counts": C, "snk": snk, "lag": "1", "badneg": ["snk", bad]}
        c["stream"] = "negidx"
        out.append(c)
    # history probes: the caller's index-set objects hold negative members from the start, or are given them in place
    hs = [h for h in _hist_cases(rng, 9 * (4 if big else 1), [3, 4, 4, 5], lags) if h["phases"][0]["kind"] != "mfpt_a"]
    for k, h in enumerate(hs):
        for j, ph in enumerate(h["phases"]):
            if k % 2 == 0 or j == len(h["phases"]) - 1:
                keys = [kk for kk in ("src", "snk") if kk in ph]
                ph["neg"] = {kk: _neg_flags(rng, ph[kk], "all" if (k // 2) % 2 == 0 else "mixed") for kk in keys}
        h["stream"] = "negidx"
        out.append(h)
    # many states (oracle only)
    for kind, n in [("comm", 80), ("mfpt_s", 120), ("comm", 250)] * (3 if big else 1):
        C = _large_counts(rng, n, rng.choice([0.03, 0.05, 0.07]), rng.random() < 0.5)
        perm = rng.sample(range(n), 6)
        if kind == "comm":
            c = {"kind": "comm", "n": n, "counts": C, "src": perm[:rng.randint(1, 3)], "snk": perm[3:3 + rng.randint(1, 3)]}
            c["neg"] = {"src": _neg_flags(rng, c["src"], rng.choice(["all", "mixed", "none"])),
                        "snk": _neg_flags(rng, c["snk"], rng.choice(["all", "mixed"]))}
        else:
            c = {"kind": "mfpt_s", "n": n, "counts": C, "snk": perm[:rng.randint(1, 3)], "lag": rng.choice(lags)}
            c["neg"] = {"snk": _neg_flags(rng, c["snk"], rng.choice(["all", "mixed"]))}
        c["stream"] = "large"
        out.append(c)
    return out


def _hist_cases(rng, count, sizes, lags):
    """history probes: the caller keeps ONE matrix object / index-set objects / populations object and
       call 0: computes; then overwrites the returned array in place (as after every call)
       call 1: asks again, nothing changed                        -> must be a fresh, correct answer
       call 2: has put another model into the same matrix object  -> must be the answer for that model
       call 3: has put the first model back                       -> the first answer again
       call 4: has put other members into the same index-set objects (committors / sink form)"""
    out = []
    k = 0
    while len(out) < count and k < 20 * count:
        k += 1
        n = rng.choice(sizes)
        rev, dy = rng.random() < 0.5, rng.random() < 0.5
        C1 = _counts(rng, n, rev, dy)
        if dy and not all(C1[i][i] > 0 for i in range(n)):
            continue
        C2 = _same_pattern(rng, C1, rev, dy)
        if C2 is None:
            continue
        which = ["comm", "mfpt_s", "mfpt_a"][len(out) % 3]
        if which == "comm":
            src, snk = _sets(rng, n)
            src2, snk2 = src, snk
            for _ in range(50):
                perm = list(range(n))
                rng.shuffle(perm)
                src2, snk2 = perm[:len(src)], perm[len(src):len(src) + len(snk)]
                if (sorted(src2), sorted(snk2)) != (sorted(src), sorted(snk)):
                    break
            mk = lambda C, a=src, b=snk: {"kind": "comm", "n": n, "counts": C, "src": list(a), "snk": list(b)}
            phases = [mk(C1), mk(C1), mk(C2), mk(C1), mk(C1, src2, snk2)]
        elif which == "mfpt_s":
            _, snk = _sets(rng, n)
            snk2 = snk
            for _ in range(50):
                snk2 = rng.sample(range(n), len(snk))
                if sorted(snk2) != sorted(snk):
                    break
            lag = rng.choice(lags)
            mk = lambda C, b=snk: {"kind": "mfpt_s", "n": n, "counts": C, "snk": list(b), "lag": lag}
            phases = [mk(C1), mk(C1), mk(C2), mk(C1), mk(C1, snk2)]
        else:
            lag = rng.choice(lags)
            pops = "given" if (len(out) // 3) % 2 == 0 else "none"
            mk = lambda C: {"kind": "mfpt_a", "n": n, "counts": C, "lag": lag, "pops": pops}
            phases = [mk(C1), mk(C1), mk(C2), mk(C1)]
        out.append({"kind": "hist", "n": n, "phases": phases, "mut": ["scale", "reverse", "fill"][(len(out) // 3) % 3]})
    return out


def _multi_sets(rng, n):
    """1..2 sources and 2..3 sinks, at least one state left over (n >= 4)"""
    kt = rng.choice([2, 2, 3]) if n >= 5 else 2
    ks = 2 if (n - kt >= 3 and rng.random() < 0.4) else 1
    perm = list(range(n))
    rng.shuffle(perm)
    return perm[:ks], perm[ks:ks + kt]


def _link(C, A, rev):
    """direct transitions between the members of A (in both directions when the chain is to stay symmetric)"""
    for a in A:
        for b in A:
            if a != b and C[a][b] == 0:
                C[a][b] = 1
                if rev:
                    C[b][a] = 1


def _reducible_counts(rng, n):
    """states 0..n-2 irreducible-ish, last state only leaves (transient): still every state reaches any A in the core"""
    C = _counts(rng, n - 1, False, False)
    C = [r + [0] for r in C]
    C.append([rng.randint(0, 3) for _ in range(n - 1)] + [rng.randint(0, 3)])
    if sum(C[-1][:-1]) == 0:
        C[-1][0] = 1
    return C


def _sets(rng, n):
    ks = rng.choice([1, 1, 2, 3])
    kt = rng.choice([1, 1, 2, 3])
    while ks + kt > n - 1:
        if ks > 1:
            ks -= 1
        elif kt > 1:
            kt -= 1
        else:
            break
    perm = list(range(n))
    rng.shuffle(perm)
    return perm[:ks], perm[ks:ks + kt]


def generate(rng, tier):
    big = tier == "thorough"
    sizes = [3, 4, 4, 5, 5, 6, 7] + ([8, 9] if big else [])
    lags = ["1", "5/2", "10"]
    cases = []

    def mat():
        n = rng.choice(sizes)
        rev = rng.random() < 0.5
        dy = rng.random() < 0.5
        return n, _counts(rng, n, rev, dy)
    mult = 8 if big else 1
    for _ in range(150 * mult):
        n, C = mat()
        src, snk = _sets(rng, n)
        cases.append({"kind": "comm", "n": n, "counts": C, "src": src, "snk": snk})
    for _ in range(12 * mult):     # reducible, still solvable: a transient state outside the sets
        n = rng.choice([4, 5, 6])
        C = _reducible_counts(rng, n)
        src, snk = _sets(rng, n - 1)
        cases.append({"kind": "comm", "n": n, "counts": C, "src": src, "snk": snk})
    for _ in range(20 * mult):     # outside the quantifier: overlapping / duplicated / empty sets (model mirrors the code)
        n, C = mat()
        src, snk = _sets(rng, n)
        r = rng.random()
        if r < 0.35:
            src = src + [snk[0]]
        elif r < 0.7:
            snk = snk + [snk[0]]
        else:
            src = []
        cases.append({"kind": "comm", "n": n, "counts": C, "src": src, "snk": snk})
    for _ in range(60 * mult):
        n, C = mat()
        _, snk = _sets(rng, n)
        cases.append({"kind": "mfpt_s", "n": n, "counts": C, "snk": snk, "lag": rng.choice(lags)})
    for _ in range(50 * mult):
        n, C = mat()
        cases.append({"kind": "mfpt_a", "n": n, "counts": C, "lag": rng.choice(lags),
                      "pops": rng.choice(["none", "given"])})
    for _ in range(24 * mult):     # error clause: a state index outside the matrix
        n, C = mat()
        src, snk = _sets(rng, n)
        bad = n + rng.choice([0, 0, 1, 5])
        k = rng.choice(["comm-src", "comm-snk", "mfpt_s"])
        if k == "comm-src":
            cases.append({"kind": "comm", "n": n, "counts": C, "src": src + [bad], "snk": snk})
        elif k == "comm-snk":
            cases.append({"kind": "comm", "n": n, "counts": C, "src": src, "snk": [bad] + snk})
        else:
            cases.append({"kind": "mfpt_s", "n": n, "counts": C, "snk": snk + [bad], "lag": "1"})
    big_sizes = [z for z in sizes if z >= 4]
    for k in range(24 * mult):     # sink sets with direct transitions between the sinks (sink rows/columns of T non-zero)
        n = rng.choice(big_sizes)
        rev, dy = rng.random() < 0.5, rng.random() < 0.5
        C = _counts(rng, n, rev, False)
        src, snk = _multi_sets(rng, n)
        _link(C, snk, rev)
        if dy:
            _top_up(C)
        if k % 2 == 0:
            cases.append({"kind": "comm", "n": n, "counts": C, "src": src, "snk": snk})
        else:
            cases.append({"kind": "mfpt_s", "n": n, "counts": C, "snk": snk, "lag": rng.choice(lags)})
    for k in range(32 * mult):     # irreducible PERIODIC chains (period 2, 3 or n): eigenvalues of modulus 1 besides 1
        n = rng.choice(sizes)
        C = _periodic_counts(rng, n, rng.random() < 0.6)
        if k % 4 == 3:
            src, snk = _sets(rng, n)
            cases.append({"kind": "comm", "n": n, "counts": C, "src": src, "snk": snk})
        elif k % 4 == 2:
            _, snk = _sets(rng, n)
            cases.append({"kind": "mfpt_s", "n": n, "counts": C, "snk": snk, "lag": rng.choice(lags)})
        else:
            cases.append({"kind": "mfpt_a", "n": n, "counts": C, "lag": rng.choice(lags),
                          "pops": "none" if k % 8 != 0 else "given"})
    for k in range(15 * mult):     # sequence probe: calls in one process, same number of states, A not a subset of B
        n = rng.choice([3, 4, 4, 5, 6])
        calls = []
        if k % 3 == 2:
            # the all-pairs table built column by column (sinks [j] one after the other, in a random order)
            C = _counts(rng, n, rng.random() < 0.5, rng.random() < 0.5)
            order = list(range(n))
            rng.shuffle(order)
            lag = rng.choice(lags)
            calls = [{"kind": "mfpt_s", "n": n, "counts": C, "snk": [j], "lag": lag} for j in order]
        else:
            C1 = _counts(rng, n, rng.random() < 0.5, rng.random() < 0.5)
            C2 = _counts(rng, n, rng.random() < 0.5, rng.random() < 0.5)
            for _ in range(50):
                _, A = _sets(rng, n)
                sB, B = _sets(rng, n)
                if not set(A) <= set(B):
                    break
            else:
                A, B, sB = [0], [1], [2]
            if k % 3 == 0:
                calls = [{"kind": "mfpt_s", "n": n, "counts": C1, "snk": A, "lag": rng.choice(lags)},
                         {"kind": "mfpt_s", "n": n, "counts": C2, "snk": B, "lag": rng.choice(lags)}]
            else:
                sA = [i for i in range(n) if i not in A][:1]
                calls = [{"kind": "comm", "n": n, "counts": C1, "src": sA, "snk": A},
                         {"kind": "mfpt_s", "n": n, "counts": C1, "snk": A, "lag": "1"},
                         {"kind": "comm", "n": n, "counts": C2, "src": sB, "snk": B},
                         {"kind": "mfpt_s", "n": n, "counts": C2, "snk": B, "lag": "1"}]
        cases.append({"kind": "seq", "n": n, "calls": calls})
    # round 3s: periodic chains of every shape, each through the all-pairs table with populations=None and through one
    # of the other entry points (what is demanded of them is what is demanded of every irreducible chain)
    for k, (lab, C) in enumerate(_periodic_shapes(rng, big)):
        n = len(C)
        lag = lags[k % 3]
        cases.append({"kind": "mfpt_a", "n": n, "counts": C, "lag": lag, "pops": "none", "shape": lab})
        if k % 3 == 0:
            cases.append({"kind": "mfpt_a", "n": n, "counts": C, "lag": lag, "pops": "given", "shape": lab})
        elif k % 3 == 1:
            _, snk = _sets(rng, n)
            cases.append({"kind": "mfpt_s", "n": n, "counts": C, "snk": snk, "lag": lag, "shape": lab})
        else:
            src, snk = _sets(rng, n)
            cases.append({"kind": "comm", "n": n, "counts": C, "src": src, "snk": snk, "shape": lab})
    # round 3s: history probes (result overwritten by the caller, matrix / index sets / populations overwritten in place)
    cases += _hist_cases(rng, 18 * (4 if big else 1), [3, 4, 4, 5] + ([6] if big else []), lags)
    # round 3s (second wave): integer dtypes, near-symmetric rare-event chains, many-state sparse chains
    cases += _round3s2_cases(rng, big)
    if big:
        # small scope, exhaustive in the sets: every disjoint non-empty pair with <= 3 members each
        for n in (3, 4, 5):
            for _ in range(2):
                C = _counts(rng, n, rng.random() < 0.5, rng.random() < 0.5)
                for ks in (1, 2, 3):
                    for src in itertools.combinations(range(n), ks):
                        rest = [i for i in range(n) if i not in src]
                        for kt in (1, 2, 3):
                            for snk in itertools.combinations(rest, kt):
                                cases.append({"kind": "comm", "n": n, "counts": C, "src": list(src), "snk": list(snk)})
                for kt in (1, 2, 3):
                    for snk in itertools.combinations(range(n), kt):
                        if kt < n:
                            cases.append({"kind": "mfpt_s", "n": n, "counts": C, "snk": list(snk), "lag": "5/2"})
    # round 3s (third wave): rarely visited states through the all-pairs table, 1000+-state slowly mixing chains
    cases += _round3s3_cases(rng, big)
    # round 3s (fifth wave): states named by negative indices
    cases += _negidx_cases(rng, big, sizes, lags)
    return cases


# ----------------------------------------------------------------------------- implementation
def _tprob(c):
    C = np.array(c["counts"], dtype=float)
    return C / C.sum(axis=1)[:, None]


# Every case is run on each of these: the five scipy/NumPy containers of round 1/2 and (round 3s) the memory layouts a
# dense caller can hand in.  All of them hold the very same double values (float32 only for dyadic chains, where the
# conversion is exact), so one model value serves for all of them.
SPARSE = ["csr", "csc", "coo", "lil"]
LAYOUTS = ["dense-f", "dense-tview", "dense-strided", "dense-neg", "dense-ro", "dense-f32", "matrix"]
REALLOC = "dense-realloc"   # history probes only: the caller drops the matrix and allocates the next one (same address, usually)
# second wave: integer / boolean dtypes (only for 0/1 matrices, i.e. cyclic permutation matrices: the values are the same)
INT_LAYOUTS = ["dense-i64", "dense-i32", "dense-bool", "dense-u8", "csr-i64", "csc-i32", "coo-bool", "lil-i64", "csr-bool"]
# ... and the remaining scipy containers, used in the many-state stream
MORE_SPARSE = ["dok", "bsr", "dia"]
_DT = {"i64": np.int64, "i32": np.int32, "bool": np.bool_, "u8": np.uint8}
# round 3s, fifth wave: SciPy's sparse ARRAY classes (`*` is elementwise on them, `@` the product; every one the installed
# SciPy offers -- the unchanged code handles all seven), also with an integer / boolean dtype for 0/1 matrices
ARRAYS = ["csr-arr", "csc-arr", "coo-arr", "lil-arr", "dok-arr", "bsr-arr", "dia-arr"]
INT_ARRAYS = ["csc-arr-i64", "coo-arr-i32", "lil-arr-bool", "dok-arr-i64"]
ALL_CONTAINERS = CONTAINERS + LAYOUTS + INT_LAYOUTS + MORE_SPARSE + ARRAYS + INT_ARRAYS + [REALLOC]
GAP = 0.375     # what the cells between the elements of the strided view hold


def _names(c):
    """containers a case is run on"""
    if c["kind"] == "hist":
        out = None
        for ph in c["phases"]:
            nm = _names(ph)
            out = nm if out is None else [x for x in out if x in nm]
        return out
    if c.get("stream") == "large":
        return CONTAINERS + MORE_SPARSE + ["dense-f"] + ARRAYS
    out = CONTAINERS + LAYOUTS + ARRAYS
    if _zero_one(c["counts"]):
        out = out + INT_LAYOUTS + INT_ARRAYS
    # float32 input: only where the conversion is exact (dyadic chain) and the code computes in double anyway (with
    # populations=None the eigen-solver runs in single precision: ~1e-7, nothing the property speaks about)
    single = c["kind"] == "mfpt_a" and c["pops"] == "none"
    if not _dyadic(c["counts"]) or single or not _f32_exact(c):
        out.remove("dense-f32")
    if single:
        # likewise boolean / 8-bit integer input: scipy.linalg.eig promotes them to single precision
        out = [x for x in out if not x.endswith(("-bool", "-u8"))]
    return out


def _parse(name):
    """container name -> (format, sparse ARRAY class?, dtype tag)"""
    parts = name.split("-")
    return parts[0], "arr" in parts[1:], next((p for p in parts[1:] if p in _DT), "")


def _mk(name, T):
    """the container `name` holding the matrix T -> (X, same); same(T') says whether X (still) is that container, with
    that layout / dtype / writeability, holding exactly T' (and nothing around a view was touched)"""
    import scipy.sparse as sp
    n = len(T)
    fmt, arr, dt = _parse(name)
    if fmt in SPARSE + MORE_SPARSE:
        cls = getattr(sp, fmt + ("_array" if arr else "_matrix"))
        X = cls(T.astype(_DT[dt]) if dt else T)
        nnz, dtype = X.nnz, X.dtype
        if dt and not (X.toarray() == T).all():
            raise RuntimeError("%s does not hold the matrix exactly" % name)

        def same(T2):
            return bool(type(X) is cls and sp.issparse(X) and X.format == fmt and X.shape == T2.shape and X.dtype == dtype
                        and (dt or dtype == np.float64) and X.nnz == nnz and (X.toarray() == T2).all())
        return X, same
    base = None
    if name == "dense":
        X = T.copy()
    elif name == "dense-f":
        X = np.asfortranarray(T)
    elif name == "dense-tview":        # transposed view of a C-ordered array (does not own its data)
        base = np.ascontiguousarray(T.T)
        X = base.T
    elif name == "dense-strided":      # every second row / column of a larger array
        base = np.full((2 * n, 2 * n), GAP)
        X = base[::2, ::2]
        X[...] = T
    elif name == "dense-neg":          # negative strides
        base = np.ascontiguousarray(T[::-1, ::-1])
        X = base[::-1, ::-1]
    elif name == "dense-ro":
        X = T.copy()
        X.setflags(write=False)
    elif name == "dense-f32":
        X = T.astype(np.float32)
    elif name == "matrix":
        X = np.matrix(T)
    elif fmt == "dense" and dt in _DT:
        X = T.astype(_DT[dt])
        if not (X == T).all():
            raise RuntimeError("%s does not hold the matrix exactly" % name)
    else:
        raise ValueError(name)
    sig = (type(X), X.dtype, X.shape, X.strides, X.flags.writeable, X.flags.c_contiguous, X.flags.f_contiguous)

    def same(T2):
        if (type(X), X.dtype, X.shape, X.strides, X.flags.writeable, X.flags.c_contiguous, X.flags.f_contiguous) != sig:
            return False
        if not bool((np.asarray(X) == T2).all()):
            return False
        if name == "dense-strided":
            return bool((base[1::2, :] == GAP).all() and (base[:, 1::2] == GAP).all())
        return True
    return X, same


def _overwrite(name, X, T2):
    """the caller puts another model into the SAME object (same buffer, same sparsity pattern)"""
    import scipy.sparse as sp
    fmt = _parse(name)[0]
    if fmt in ("csr", "csc", "coo", "bsr", "dia"):
        Y = type(X)(T2)
        if Y.data.shape != X.data.shape:
            raise RuntimeError("history probe: sparsity patterns differ")
        X.data[...] = Y.data
    elif fmt == "lil":
        for i in range(len(T2)):
            X[i, :] = T2[i]
    elif fmt == "dok":
        for i, j in zip(*np.nonzero(T2)):
            X[int(i), int(j)] = T2[i, j]
    else:
        ro = not X.flags.writeable
        if ro:
            X.setflags(write=True)
        X[...] = T2
        if ro:
            X.setflags(write=False)


def _setform(name, xs):
    """the index sets are handed over in the forms a caller may use (one form per container)"""
    if name in ("csr", "dense-tview", "dia-arr"):
        return np.array(xs, dtype=np.int64)
    if name in ("csc", "dense-neg", "csc-arr", "bsr-arr"):
        return tuple(xs)
    if name in ("coo", "dense-ro", "coo-arr"):
        a = np.array(xs, dtype=np.int32 if name == "coo" else np.int64)
        a.setflags(write=False)
        return a
    if name in ("dense-f", "dok-arr"):
        return np.array(xs, dtype=np.int64).reshape((-1, 1))
    if name == "csr-arr":
        return np.array(xs, dtype=np.int16)
    return list(xs)


def _set_in_place(obj, xs):
    """same object, new members (same number of them); immutable forms are replaced"""
    if isinstance(obj, list):
        obj[:] = xs
        return obj
    if isinstance(obj, np.ndarray):
        ro = not obj.flags.writeable
        obj.setflags(write=True)
        obj[...] = np.array(xs, dtype=obj.dtype).reshape(obj.shape)
        if ro:
            obj.setflags(write=False)
        return obj
    return tuple(xs)


def _set_same(obj, xs):
    if isinstance(obj, np.ndarray):
        return obj.ravel().tolist() == list(xs)
    return type(obj) in (list, tuple) and list(obj) == list(xs)


def _call(fn):
    """-> (canonical result, the object the implementation returned)"""
    try:
        raw = fn()
        v = np.asarray(raw, dtype=float)
    except Exception as ex:
        return {"err": type(ex).__name__}, None
    if not np.isfinite(v).all():
        return {"err": "NonFinite"}, raw
    return {"val": v.tolist()}, raw


def _pops_of(c, T):
    from enspara.msm.transition_matrices import eq_probs
    if c.get("stream") == "rare" and c["pops"] == "given":
        # the caller knows the populations: the exact stationary vector, rounded to doubles
        return np.array([float(x) for x in _stationary_exact(c["counts"])])
    return np.asarray(eq_probs(T.copy()), dtype=float)


def _given(c, key):
    """the index set as the caller hands it over: c[key] holds the states meant (0..n-1; what the model and the oracle
    work with); members flagged in c["neg"][key] are written the NumPy way from the end (i - n), and c["badneg"] adds a
    negative index below -n (error clause)"""
    xs = list(c[key])
    flags = (c.get("neg") or {}).get(key)
    if flags:
        xs = [i - c["n"] if f else i for i, f in zip(xs, flags)]
    bad = c.get("badneg")
    if bad and bad[0] == key:
        xs = xs + [bad[1]]
    return xs


class _Args:
    """argument objects of one caller: created once, reused (and updated in place) over the calls of a history"""

    def __init__(self, c, name, eq):
        self.name = name
        self.src = _setform(name, _given(c, "src")) if "src" in c else None
        self.snk = _setform(name, _given(c, "snk")) if "snk" in c else None
        self.pops = None
        if c["kind"] == "mfpt_a" and c["pops"] == "given":
            self.pops = eq.copy()
            if name == "dense-ro":
                self.pops.setflags(write=False)

    def update(self, c, eq):
        if self.src is not None:
            self.src = _set_in_place(self.src, _given(c, "src"))
        if self.snk is not None:
            self.snk = _set_in_place(self.snk, _given(c, "snk"))
        if self.pops is not None:
            ro = not self.pops.flags.writeable
            self.pops.setflags(write=True)
            self.pops[...] = eq
            if ro:
                self.pops.setflags(write=False)

    def same(self, c, eq):
        ok = True
        if self.src is not None:
            ok = ok and _set_same(self.src, _given(c, "src"))
        if self.snk is not None:
            ok = ok and _set_same(self.snk, _given(c, "snk"))
        if self.pops is not None:
            ok = ok and self.pops.shape == eq.shape and bool((self.pops == eq).all())
        return ok


def _invoke(c, X, a):
    from enspara.tpt import committors, mfpts
    lag = float(F(c["lag"])) if "lag" in c else None
    if c["kind"] == "comm":
        return _call(lambda: committors(X, a.src, a.snk))
    if c["kind"] == "mfpt_s":
        return _call(lambda: mfpts(X, sinks=a.snk, lagtime=lag))
    return _call(lambda: mfpts(X, populations=a.pops, lagtime=lag))


def _references(c, T, eq):
    """what the other clauses compare with: fresh objects, plain C-ordered arrays"""
    from enspara.tpt import mfpts
    res = {}
    lag = float(F(c["lag"])) if "lag" in c else None
    if c["kind"] == "mfpt_a":
        # what the eigen-solver (not modelled) returns for this matrix; passed on explicitly in the "given" cases
        res["pops"] = eq.tolist()
        pops = eq if c["pops"] == "given" else None
        # the same table through the single-sink routine, and in units of the lag time
        res["cols"] = [_call(lambda: mfpts(T.copy(), sinks=[j], lagtime=lag))[0] for j in range(c["n"])]
        res["lag1"] = _call(lambda: mfpts(T.copy(), populations=None if pops is None else pops.copy(), lagtime=1.))[0]
    if c["kind"] == "mfpt_s":
        res["lag1"] = _call(lambda: mfpts(T.copy(), sinks=list(c["snk"]), lagtime=1.))[0]
    if c.get("neg") and not c.get("badneg"):
        # the same call with every state named by its non-negative index
        from enspara.tpt import committors
        if c["kind"] == "comm":
            res["nonneg"] = _call(lambda: committors(T.copy(), list(c["src"]), list(c["snk"])))[0]
        elif c["kind"] == "mfpt_s":
            res["nonneg"] = _call(lambda: mfpts(T.copy(), sinks=list(c["snk"]), lagtime=lag))[0]
    return res


def _clobber(raw, how):
    """the caller goes on computing in the array it was given (its own property now)"""
    if not isinstance(raw, np.ndarray) or not raw.flags.writeable or raw.dtype.kind != "f":
        return
    if how == "scale":
        raw *= 100.0
        raw += 3.0
    elif how == "reverse":
        np.subtract(1.0, raw, out=raw)
    else:
        raw.fill(-7.0)


def run_impl(c):
    if c["kind"] == "seq":
        # consecutive calls in this process: anything kept between calls (a cached work array) shows up in the later ones
        return {"calls": [run_impl(x) for x in c["calls"]]}
    if c["kind"] == "hist":
        return _run_hist(c)
    if c["kind"] == "big":
        return _run_big(c)
    T = _tprob(c)
    eq = _pops_of(c, T) if c["kind"] == "mfpt_a" else None
    res = {}
    for name in _names(c):
        X, same = _mk(name, T)
        a = _Args(c, name, eq)
        r, _ = _invoke(c, X, a)
        r["unchanged"] = bool(same(T) and a.same(c, eq))
        res[name] = r
    res.update(_references(c, T, eq))
    return res


def _run_hist(c):
    """one caller per container: the same matrix object, index-set objects and populations object over all calls;
    between the calls the caller (a) writes into the array it got back, (b) puts the next phase's model / sets into
    the same objects in place.  Every call is then judged like a stand-alone call on what the objects hold."""
    phases = c["phases"]
    Ts = [_tprob(ph) for ph in phases]
    eqs = [_pops_of(ph, T) if ph["kind"] == "mfpt_a" else None for ph, T in zip(phases, Ts)]
    res = [dict() for _ in phases]
    for name in _names(c) + [REALLOC]:
        X, same = _mk("dense" if name == REALLOC else name, Ts[0])
        a = _Args(phases[0], name, eqs[0])
        for k, ph in enumerate(phases):
            if k > 0 and ph != phases[k - 1]:
                if ph["counts"] != phases[k - 1]["counts"] and name == REALLOC:
                    # no object is kept: the old matrix is released before the new one is allocated, which makes the
                    # new one take the old one's place in memory (CPython: same id()) -- a different object all the same
                    X = same = None
                    X, same = _mk("dense", Ts[k])
                elif ph["counts"] != phases[k - 1]["counts"]:
                    _overwrite(name, X, Ts[k])
                    if not same(Ts[k]):
                        raise RuntimeError("history probe: in-place overwrite of %s did not produce the new matrix" % name)
                a.update(ph, eqs[k])
            r, raw = _invoke(ph, X, a)
            r["unchanged"] = bool(same(Ts[k]) and a.same(ph, eqs[k]))
            res[k][name] = r
            _clobber(raw, c["mut"])
            del raw
    for k, ph in enumerate(phases):
        res[k].update(_references(ph, Ts[k], eqs[k]))
    return {"phases": res}


# ---- 1000+-state chains (stream `big`): sparse integer counts, results as plain lists, judged in floating point
BIG_CONTAINERS = ["dense", "csr", "coo-arr"]
BIG_MORE = ["dense-f", "csc", "csr-arr"]       # thorough tier


def _big_tprob(c):
    n = c["n"]
    T = np.zeros((n, n))
    for i, row in enumerate(c["rows"]):
        tot = sum(x for _, x in row)
        for j, x in row:
            T[i, j] = x / tot
    return T


def _one_thread():
    try:
        from threadpoolctl import threadpool_limits
        return threadpool_limits(limits=1)
    except Exception:
        import contextlib
        return contextlib.nullcontext()


def _run_big(c):
    from enspara.tpt import committors, mfpts
    T = _big_tprob(c)
    n = c["n"]
    lag = float(F(c["lag"])) if "lag" in c else None
    res = {}
    with _one_thread():
        for name in BIG_CONTAINERS + (BIG_MORE if c.get("more") else []):
            X, same = _mk(name, T)
            snk = _setform(name, _given(c, "snk"))
            if c["what"] == "comm":
                src = _setform(name, _given(c, "src"))
                r, _ = _call(lambda: committors(X, src, snk))
                ok = _set_same(src, _given(c, "src"))
            else:
                # the populations are handed in (this path does not use them): without them every call would start
                # with an eigen-decomposition of the 1000-state matrix
                pops = np.full(n, 1.0 / n)
                r, _ = _call(lambda: mfpts(X, sinks=snk, populations=pops, lagtime=lag))
                ok = bool((pops == 1.0 / n).all())
            r["unchanged"] = bool(ok and same(T) and _set_same(snk, _given(c, "snk")))
            res[name] = r
        if c["what"] == "mfpt_s":
            res["lag1"] = _call(lambda: mfpts(T.copy(), sinks=list(c["snk"]), populations=np.full(n, 1.0 / n), lagtime=1.))[0]
    return res


BIG_RTOL = 2.0 ** -45     # first-step residual of a mean first-passage time vector, relative to its largest entry


def _oracle_big(c, r):
    """first-step equations of a 1000+-state chain, evaluated in extended precision on the doubles returned.  The dense
    solve is backward stable: its residual is a few units of 2^-52 times the largest mean first-passage time S (measured
    on the unchanged code over 400 chain / sink-set combinations: <= 5.7 * 2^-52 S); allowed 2^-45 S (128 units)."""
    out = []
    n = c["n"]
    names = [x for x in ALL_CONTAINERS if x in r]
    for name in names:
        if not r[name]["unchanged"]:
            out.append(("input-modified", "%s input (matrix, index sets or populations) changed during the call" % name))
    bad = [name for name in names if "val" not in r[name]]
    if bad:
        out.append(("no-result-" + c["what"], "%s input (%d states): %s" % (bad[0], n, r[bad[0]])))
        return out
    T = _big_tprob(c).astype(np.longdouble)
    snk = sorted(c["snk"])
    d = np.array(r["dense"]["val"], dtype=float)
    judged = []
    for name in names:
        v = np.array(r[name]["val"], dtype=float)
        if v.shape != (n,):
            out.append((("comm" if c["what"] == "comm" else "mfpt") + "-shape", "%s: shape %s for %d states" % (name, v.shape, n)))
            continue
        if any((v == w).all() for w in judged):
            continue
        judged.append(v)
        x = v.astype(np.longdouble)
        if c["what"] == "comm":
            src = sorted(c["src"])
            if (v[src] != 0).any():
                out.append(("comm-source", "%s: committor %s on the sources %s" % (name, v[src].tolist(), src)))
            if (v[snk] != 1).any():
                out.append(("comm-sink", "%s: committor %s on the sinks %s" % (name, v[snk].tolist(), snk)))
            if v.min() < -1e-9 or v.max() > 1 + 1e-9:
                out.append(("comm-bounds", "%s: committors range over [%r, %r]" % (name, float(v.min()), float(v.max()))))
            res = np.abs(x - T @ x)
            res[src + snk] = 0
            i = int(res.argmax())
            if not float(res[i]) <= 1e-9:
                out.append(("comm-first-step", "%s, %d states: q[%d]=%r but sum_j T[%d,j] q[j]=%r" % (
                    name, n, i, float(v[i]), i, float((T @ x)[i]))))
            if not float(np.abs(v - d).max()) <= 1e-9:
                out.append(("container-agreement", "%s committors differ from dense by %.3g" % (name, float(np.abs(v - d).max()))))
        else:
            lag = float(F(c["lag"]))
            if (v[snk] != 0).any():
                out.append(("mfpt-sink-zero", "%s: t=%s on the sinks %s" % (name, v[snk].tolist(), snk)))
            S = float(np.abs(v).max())
            rhs = np.longdouble(lag) + T @ x
            res = np.abs(x - rhs)
            res[snk] = 0
            i = int(res.argmax())
            if not float(res[i]) <= BIG_RTOL * S:
                out.append(("mfpt-first-step", "%s, %d states: t[%d]=%r but lag + sum_j T[%d,j] t[j]=%r (residual %.3g = %.3g of the "
                            "largest mean first-passage time %.6g; allowed 2^-45 = 2.8e-14)" % (
                                name, n, i, float(v[i]), i, float(rhs[i]), float(res[i]), float(res[i]) / S, S)))
            if not float(np.abs(v - d).max()) <= 1e-7 * S:
                out.append(("container-agreement", "%s mfpts differ from dense by %.3g (largest %.6g)" % (name, float(np.abs(v - d).max()), S)))
    if c["what"] == "mfpt_s":
        lag = float(F(c["lag"]))
        if "val" in r["lag1"]:
            t1 = np.array(r["lag1"]["val"], dtype=float)
            if t1.shape != d.shape or not (np.abs(d - lag * t1) <= 1e-9 * np.maximum(1, np.abs(d))).all():
                out.append(("mfpt-lag-linear", "mfpts(lagtime=%s) != %s * mfpts(lagtime=1) on %d states" % (c["lag"], c["lag"], n)))
        else:
            out.append(("mfpt-lag-linear", "lagtime=1 run failed: %s" % r["lag1"]))
    seen, uniq = set(), []
    for k, m in out:
        if k not in seen:
            seen.add(k)
            uniq.append((k, m))
    return uniq


# ----------------------------------------------------------------------------- oracle
def _in_scope(c):
    """inside the property's quantifier: valid indices, duplicate-free, disjoint, non-empty sets, all states reach the
    absorbing set (true for every irreducible chain)"""
    n = c["n"]
    if c["kind"] == "comm":
        src, snk = c["src"], c["snk"]
        A = src + snk
        return (len(src) > 0 and len(snk) > 0 and len(set(A)) == len(A) and all(0 <= i < n for i in A)
                and _all_reach(c["counts"], A))
    if c["kind"] == "mfpt_s":
        snk = c["snk"]
        return len(snk) > 0 and len(set(snk)) == len(snk) and all(0 <= i < n for i in snk) and _all_reach(c["counts"], snk)
    return _strongly_connected(c["counts"])


def _bad_index(c):
    n = c["n"]
    return any(i >= n for i in c.get("src", []) + c.get("snk", [])) or bool(c.get("badneg"))


def _close(a, b, tol=TOL):
    return abs(a - b) <= tol * max(1, abs(a), abs(b))


def _flat(v):
    return [x for r in v for x in r] if v and isinstance(v[0], list) else list(v)


def _phase_text(c, k):
    ph = c["phases"]
    if k == 0:
        return "first call"
    if ph[k] == ph[k - 1]:
        return "same objects, same contents as the call before"
    what = []
    if ph[k]["counts"] != ph[k - 1]["counts"]:
        what.append("the same matrix object was overwritten in place with another model")
    if ph[k].get("src") != ph[k - 1].get("src") or ph[k].get("snk") != ph[k - 1].get("snk"):
        what.append("the same index-set objects were given other members in place")
    elif ph[k].get("neg") != ph[k - 1].get("neg"):
        what.append("the same index-set objects were given other names (i - n) of the same states in place")
    return "; ".join(what)


def oracle(c, r):
    if c["kind"] == "seq":
        seen, out = set(), []
        for k, (x, rx) in enumerate(zip(c["calls"], r["calls"])):
            for key, msg in oracle(x, rx):
                if key not in seen:
                    seen.add(key)
                    out.append((key, "call %d of the sequence: %s" % (k, msg)))
        return out
    if c["kind"] == "hist":
        seen, out = set(), []
        for k, (x, rx) in enumerate(zip(c["phases"], r["phases"])):
            for key, msg in oracle(x, rx):
                if key not in seen:
                    seen.add(key)
                    out.append((key, "history probe, call %d (%s; after every call the caller overwrites the array it got "
                                "back: %s): %s" % (k, _phase_text(c, k), c["mut"], msg)))
        return out
    if c["kind"] == "big":
        return _oracle_big(c, r)
    out = []
    n = c["n"]
    CONTAINERS = [x for x in ALL_CONTAINERS if x in r]
    # inputs are not modified (every container, every outcome)
    for name in CONTAINERS:
        if not r[name]["unchanged"]:
            out.append(("input-modified", "%s input (matrix, its layout/dtype/flags, the cells around a strided view, the index sets or the populations) changed during the call" % name))
    if _bad_index(c):
        for name in CONTAINERS:
            if r[name].get("err") != "IndexError":
                out.append(("index-error", "%s: out-of-range state index not rejected with IndexError: %s" % (name, r[name])))
        return out
    if not _in_scope(c):
        return out
    bad = [name for name in CONTAINERS if "val" not in r[name]]
    if bad:
        out.append(("no-result-" + c["kind"], "%s input: %s%s" % (bad[0], r[bad[0]], (
            " (also: %s)" % ", ".join("%s %s" % (b, r[b].get("err")) for b in bad[1:])) if bad[1:] else "")))
    if out:
        return out
    # tolerance: 1e-9 relative, except in the near-symmetric rare-event stream (stiff chains; see _nearsym_atol)
    close = _close
    if c.get("stream") == "nearsym":
        atol = _nearsym_atol(c)
        close = lambda a, b: abs(a - b) <= atol
    # ... and in the rare-state stream: per column of the table (see _rare_ctol)
    ctol = _rare_ctol(c) if c.get("stream") == "rare" else None

    def close_at(j):
        return close if ctol is None else (lambda a, b: abs(a - b) <= ctol[j])
    # a state named from the end (i - n) is the state i
    if "nonneg" in r:
        ref = r["nonneg"]
        if "val" not in ref or len(ref["val"]) != len(r["dense"]["val"]) or not all(
                _close(F(a), F(b)) for a, b in zip(r["dense"]["val"], ref["val"])):
            out.append(("negative-index-equivalence", "%s with sources %s sinks %s gives %s, with the non-negative names of the same states "
                        "(sources %s sinks %s) %s" % (c["kind"], _given(c, "src") if "src" in c else None, _given(c, "snk"),
                                                     r["dense"]["val"][:40], c.get("src"), c["snk"], str(ref)[:600])))
    # dense and sparse inputs give the same values
    d = _flat(r["dense"]["val"])
    for name in CONTAINERS[1:]:
        s = _flat(r[name]["val"])
        if s != d and (len(s) != len(d) or not all(close_at(k % n)(F(a), F(b)) for k, (a, b) in enumerate(zip(d, s)))):
            out.append(("container-agreement", "%s result differs from dense: %s vs %s" % (name, s[:40], d[:40])))
    # the transition matrix, row by row, non-zero entries only (the sums below skip exact zeros)
    T = [[(j, F(x)) for j, x in enumerate(row) if x != 0] for row in _tprob(c).tolist()]
    # a container whose result is bit for bit the one of a container already judged needs no second evaluation
    judged = []

    def fresh(name):
        if any(r[name]["val"] == r[p]["val"] for p in judged):
            return False
        judged.append(name)
        return True
    if c["kind"] == "comm":
        src, snk = c["src"], c["snk"]
        for name in CONTAINERS:
            if not fresh(name):
                continue
            q = [F(x) for x in r[name]["val"]]
            if len(q) != n:
                out.append(("comm-shape", "%s: %d values for %d states" % (name, len(q), n)))
                continue
            for i in range(n):
                if i in src:
                    if q[i] != 0:
                        out.append(("comm-source", "%s: q[%d]=%s on a source" % (name, i, float(q[i]))))
                elif i in snk:
                    if q[i] != 1:
                        out.append(("comm-sink", "%s: q[%d]=%s on a sink" % (name, i, float(q[i]))))
                else:
                    if not (-TOL <= q[i] <= 1 + TOL):
                        out.append(("comm-bounds", "%s: q[%d]=%s outside [0,1]" % (name, i, float(q[i]))))
                    avg = sum(x * q[j] for j, x in T[i])
                    if not _close(q[i], avg):
                        out.append(("comm-first-step", "%s: q[%d]=%s but sum_j T[%d,j] q[j]=%s" % (name, i, float(q[i]), i, float(avg))))
    elif c["kind"] == "mfpt_s":
        snk, lag = c["snk"], F(c["lag"])
        for name in CONTAINERS:
            if not fresh(name):
                continue
            t = [F(x) for x in r[name]["val"]]
            if len(t) != n:
                out.append(("mfpt-shape", "%s: %d values for %d states" % (name, len(t), n)))
                continue
            for i in range(n):
                if i in snk:
                    if t[i] != 0:
                        out.append(("mfpt-sink-zero", "%s: t[%d]=%s on a sink" % (name, i, float(t[i]))))
                else:
                    rhs = lag + sum(x * t[j] for j, x in T[i])
                    if not _close(t[i], rhs):
                        out.append(("mfpt-first-step", "%s: t[%d]=%s but lag + sum_j T[%d,j] t[j]=%s" % (name, i, float(t[i]), i, float(rhs))))
        if "val" in r["lag1"]:
            if not all(_close(F(a), lag * F(b)) for a, b in zip(r["dense"]["val"], r["lag1"]["val"])):
                out.append(("mfpt-lag-linear", "mfpts(lagtime=%s) != %s * mfpts(lagtime=1)" % (lag, lag)))
        else:
            out.append(("mfpt-lag-linear", "lagtime=1 run failed: %s" % r["lag1"]))
    else:
        lag = F(c["lag"])
        for name in CONTAINERS:
            if not fresh(name):
                continue
            M = [[F(x) for x in row] for row in r[name]["val"]]
            if len(M) != n or any(len(row) != n for row in M):
                out.append(("mfpt-shape", "%s: table is not %dx%d" % (name, n, n)))
                continue
            for j in range(n):
                if abs(M[j][j]) > TOL:
                    out.append(("mfpt-all-diagonal", "%s: m[%d,%d]=%s" % (name, j, j, float(M[j][j]))))
                for i in range(n):
                    if i != j:
                        rhs = lag + sum(x * M[k][j] for k, x in T[i] if k != j)
                        if not close_at(j)(M[i][j], rhs):
                            out.append(("mfpt-all-first-step", "%s: m[%d,%d]=%s but lag + sum_{k!=j} T[i,k] m[k,j]=%s" % (name, i, j, float(M[i][j]), float(rhs))))
                col = r["cols"][j]
                if "val" not in col or not all(close_at(j)(M[i][j], F(col["val"][i])) for i in range(n)):
                    out.append(("mfpt-column-agreement", "%s: column %d of the all-pairs table %s != mfpts(sinks=[%d]) %s" % (
                        name, j, [float(M[i][j]) for i in range(n)][:40], j, str(col)[:600])))
        if "val" in r["lag1"]:
            if not all(_close(F(a), lag * F(b)) for a, b in zip(_flat(r["dense"]["val"]), _flat(r["lag1"]["val"]))):
                out.append(("mfpt-lag-linear", "mfpts(lagtime=%s) != %s * mfpts(lagtime=1)" % (lag, lag)))
        else:
            out.append(("mfpt-lag-linear", "lagtime=1 run failed: %s" % r["lag1"]))
    # report each clause once per case
    seen, uniq = set(), []
    for k, m in out:
        if k not in seen:
            seen.add(k)
            uniq.append((k, m))
    return uniq


# ----------------------------------------------------------------------------- model side
def _qmat(c):
    T = _tprob(c).tolist()
    return clist(T, lambda row: clist(row, lambda x: cq(F(x)), "Q"), "(list Q)")


def _nl(xs):
    return clist(xs, cn, "nat")


def _model(c, r=None, g=""):
    """g = "": the hand-written model (Model/TPT.v); g = "_g": the definitions regenerated from the source
    (Gen/TptGen.v through Model/TPTGen.v)"""
    n = cn(c["n"])
    # the states meant (a name i - n has been read as i); an index below -n is as far outside as the index n
    canon = lambda key: c[key] + ([c["n"]] if (c.get("badneg") or [None])[0] == key else [])
    if c["kind"] == "comm":
        return "(committors%s %s %s %s %s)" % (g, n, _qmat(c), _nl(canon("src")), _nl(canon("snk")))
    if c["kind"] == "mfpt_s":
        return "(mfpts_sinks%s %s %s %s %s)" % (g, n, _qmat(c), _nl(canon("snk")), cq(F(c["lag"])))
    if c["pops"] == "none" and _dyadic(c["counts"]):
        # exactly stochastic double matrix: the model computes the stationary vector itself
        return "(mfpts_all_default%s %s %s %s)" % (g, n, _qmat(c), cq(F(c["lag"])))
    pops = r["pops"] if r is not None else run_impl(c)["pops"]
    return "(mfpts_all%s %s %s %s %s)" % (g, n, _qmat(c), clist(pops, lambda x: cq(F(x)), "Q"), cq(F(c["lag"])))


def coq_check(c, r):
    if c["kind"] == "seq":
        return "(%s)" % " && ".join(coq_check(x, rx) for x, rx in zip(c["calls"], r["calls"]))
    if c["kind"] == "hist":
        # every call compared with the model of what the objects held at that call (identical call/result pairs once)
        done, parts = [], []
        for x, rx in zip(c["phases"], r["phases"]):
            if (x, rx) not in done:
                done.append((x, rx))
                parts.append(coq_check(x, rx))
        return "(%s)" % " && ".join(parts)
    if c.get("stream") in ("large", "nearsym", "rare", "big"):
        # (rare states: tolerance proportional to 1 / min population, see _rare_ctol; 1000+ states: see _oracle_big)
        # many states: exact elimination inside Coq is out of reach (n^4); near-symmetric rare-event chains: the
        # implementation is only accurate to ~1e-5 of the table's scale (see _nearsym_atol).  Oracle only.
        return None
    tol = cq(TOL)
    two_d = c["kind"] == "mfpt_a"
    close = "(CaseLib.qll_close %s)" % tol if two_d else "(CaseLib.ql_close %s)" % tol
    ty = "(list (list Q))" if two_d else "(list Q)"
    parts = []
    for name in [z for z in ALL_CONTAINERS if z in r]:
        x = r[name]
        if "val" in x:
            if two_d:
                lit = clist(x["val"], lambda row: clist(row, lambda v: cq(F(v)), "Q"), "(list Q)")
            else:
                lit = clist(x["val"], lambda v: cq(F(v)), "Q")
            exp = "(Some %s)" % lit
        elif x["err"] in ("IndexError", "LinAlgError"):
            exp = "(@None %s)" % ty
        else:
            return "false"      # NaN/inf or an unexpected exception: never what the model predicts
        part = "CaseLib.opt_eqb %s m %s" % (close, exp)
        if part not in parts:   # identical to the result of an earlier container: already compared
            parts.append(part)
    # m: the definitions regenerated from the current source, compared with the implementation; the hand-written model
    # must give the very same value (that the two are equal is also a theorem: Proof/TptGenProofs.v)
    # (evaluated for the chains with at most 4 states only: it doubles the cost of a case)
    if c["n"] <= 4:
        parts.append("CaseLib.opt_eqb %s m %s" % ("qll_eq" if two_d else "ql_eq", _model(c, r)))
    return "(let m := %s in %s)" % (_model(c, r, "_g"), " && ".join("(%s)" % p for p in parts))


def coq_show(c):
    if c.get("stream") in ("large", "big"):
        return "tt"
    if c["kind"] in ("seq", "hist"):
        return "(%s)" % ", ".join(_model(x, None, "_g") for x in c["calls" if c["kind"] == "seq" else "phases"])
    return _model(c, None, "_g")


# ----------------------------------------------------------------------------- accounting
def nontrivial(c, r):
    if c["kind"] == "seq":
        return all(nontrivial(x, rx) for x, rx in zip(c["calls"], r["calls"]))
    if c["kind"] == "hist":
        return all(nontrivial(x, rx) for x, rx in zip(c["phases"], r["phases"]))
    if c["kind"] == "big":
        if "val" not in r["dense"] or len(r["dense"]["val"]) != c["n"]:
            return False
        if c["what"] == "comm":
            return any(1e-6 < q < 1 - 1e-6 for q in r["dense"]["val"])
        return True
    if "val" not in r["dense"] or not _in_scope(c) or c["n"] < 3:
        return False
    if c["kind"] == "comm":
        q = r["dense"]["val"]
        if len(q) != c["n"]:
            return False
        return any(i not in c["src"] and i not in c["snk"] and 1e-6 < q[i] < 1 - 1e-6 for i in range(c["n"]))
    if c["kind"] == "mfpt_s":
        return c["n"] - len(set(c["snk"])) >= 2
    return True


def _dyadic(C):
    return all((sum(r) & (sum(r) - 1)) == 0 for r in C)


def _f32_exact(c):
    T = _tprob(c)
    return bool((T.astype(np.float32) == T).all())


def _zero_one(C):
    """a 0/1 matrix with row sums 1: it is its own transition matrix and can be held in an integer or boolean array"""
    return all(sum(r) == 1 and all(x in (0, 1) for x in r) for r in C)


def tags(c, r):
    if c["kind"] == "seq":
        t = ["seq"]
        sn = [x["snk"] for x in c["calls"]]
        if all(len(a) == 1 for a in sn) and sorted(a[0] for a in sn) == list(range(c["n"])):
            t.append("seq-column-by-column")
        elif any(not set(a) <= set(b) for a, b in zip(sn, sn[1:])):
            t.append("seq-sinks-not-nested")
        if any(x["kind"] == "comm" for x in c["calls"]):
            t.append("seq-committors-and-mfpts")
        if all("val" in rx["dense"] for rx in r["calls"]):
            t.append("seq-all-calls-returned")
        return t
    if c["kind"] == "hist":
        ph = c["phases"]
        t = ["hist", {"comm": "hist-committors", "mfpt_s": "hist-mfpt-sinks", "mfpt_a": "hist-mfpt-all"}[ph[0]["kind"]],
             "hist-result-" + c["mut"]]
        if ph[1] == ph[0]:
            t.append("hist-same-call-again")
        if any(a["counts"] != b["counts"] for a, b in zip(ph, ph[1:])):
            t.append("hist-matrix-overwritten-in-place")
        if any((a.get("src"), a.get("snk")) != (b.get("src"), b.get("snk")) for a, b in zip(ph, ph[1:])):
            t.append("hist-sets-overwritten-in-place")
        if ph[0]["kind"] == "mfpt_a" and ph[0]["pops"] == "given":
            t.append("hist-populations-overwritten-in-place")
        if all("val" in rx[nm] for rx in r["phases"] for nm in _names(c) + [REALLOC]):
            t.append("hist-all-calls-returned")
        if "dense-f32" in _names(c):
            t.append("hist-float32")
        if any(x.get("neg") for x in ph) and all("val" in rx["dense"] for rx in r["phases"]):
            t.append("hist-neg-index")
            if not ph[0].get("neg"):
                t.append("hist-neg-index-put-in-place")
        return t
    if c["kind"] == "big":
        t = ["big", "n>=1000"]
        if all("val" in r[nm] for nm in BIG_CONTAINERS):
            t.append("big-1000plus-" + ("committors" if c["what"] == "comm" else "mfpt-sinks"))
            t.append("big-double-well" if c["chain"] == "dwell" else "big-two-basins")
            t.append("big-1000plus-sparse-input")
            if "lag" in c and c["lag"] != "1":
                t.append("lag-not-1")
            if len(c["snk"]) > 1:
                t.append("big-multi-sink")
        return t
    t = []
    C = c["counts"]
    n = c["n"]
    if _bad_index(c):
        t = ["index-error"] if r["dense"].get("err") == "IndexError" else ["index-error-missed"]
        return t + (["index-error-below-minus-n"] if c.get("badneg") and t == ["index-error"] else [])
    t.append("reversible" if all(C[i][j] == C[j][i] for i in range(n) for j in range(n)) else "nonreversible")
    t.append("dyadic" if _dyadic(C) else "nondyadic")
    t.append("n=%d" % n)
    if not _strongly_connected(C):
        t.append("reducible")
    elif _period(C) > 1:
        t.append("periodic")
        if c["kind"] == "mfpt_a" and c["pops"] == "none":
            t.append("periodic-all-pairs-pops-none")
    snk = c.get("snk", [])
    if len(set(snk)) > 1 and any(C[a][b] > 0 for a in snk for b in snk if a != b and a < n and b < n):
        t.append("sink-to-sink")
    if c["kind"] == "comm":
        t.append("comm")
        if not _in_scope(c):
            t.append("comm-out-of-scope-sets")
        else:
            if len(c["snk"]) > 1:
                t.append("comm-multi-sink")
            if len(c["src"]) > 1:
                t.append("comm-multi-source")
            if nontrivial(c, r):
                t.append("interior-committor")
    elif c["kind"] == "mfpt_s":
        t.append("mfpt-sinks")
        if len(c["snk"]) > 1:
            t.append("mfpt-multi-sink")
    else:
        t.append("mfpt-all")
        t.append("mfpt-all-pops-given" if c["pops"] == "given" else "mfpt-all-pops-computed")
    if "lag" in c and c["lag"] != "1":
        t.append("lag-not-1")
    if "periodic" in t and c.get("shape"):
        t.append("periodic-" + c["shape"])
        if c["kind"] == "mfpt_a" and c["pops"] == "none":
            t.append("periodic-%s-all-pairs" % c["shape"])
    if _in_scope(c) and all(nm in r and "val" in r[nm] for nm in LAYOUTS if nm != "dense-f32"):
        t.append("layouts-" + {"comm": "committors", "mfpt_s": "mfpt-sinks", "mfpt_a": "mfpt-all"}[c["kind"]])
        if "val" in r.get("dense-f32", {}):
            t.append("float32-" + {"comm": "committors", "mfpt_s": "mfpt-sinks", "mfpt_a": "mfpt-all"}[c["kind"]])
    # round 3s, second wave
    what = {"comm": "committors", "mfpt_s": "mfpt-sinks", "mfpt_a": "mfpt-all"}[c["kind"]]
    ints = [nm for nm in INT_LAYOUTS if nm in r]
    if _in_scope(c) and len(ints) >= 5 and all("val" in r[nm] for nm in ints):
        t.append("int-dtype-" + what)
        if "lag" in c and F(c["lag"]).denominator != 1:
            t.append("int-dtype-noninteger-lag-" + what)
            if c["kind"] == "mfpt_s" and len(c["snk"]) > 1:
                t.append("int-dtype-noninteger-lag-mfpt-multi-sink")
    if c.get("stream") == "nearsym" and "val" in r["dense"]:
        t.append("nearsym-all-pairs-pops-" + c["pops"])
    if c.get("stream") == "rare" and all("val" in r[nm] for nm in CONTAINERS + [x for x in LAYOUTS if x != "dense-f32"]):
        t.append("rare-all-pairs-pops-" + c["pops"])
        t.append("rare-all-pairs-noninteger-lag" if F(c["lag"]).denominator != 1 else "rare-all-pairs-integer-lag-not-1")
    if c.get("stream") == "large" and _in_scope(c) and all("val" in r.get(nm, {}) for nm in SPARSE + MORE_SPARSE):
        t.append("large-sparse-" + what)
        if n >= 200:
            t.append("large-sparse-200plus-" + what)
    # round 3s, fifth wave
    if _in_scope(c) and all("val" in r.get(nm, {}) for nm in ARRAYS):
        t.append("sparse-array-classes-" + what)
        if c.get("stream") == "large":
            t.append("sparse-array-classes-large")
    if all("val" in r.get(nm, {}) for nm in INT_ARRAYS if not (nm.endswith("-bool") and nm not in r)):
        t.append("sparse-array-classes-int-dtype")
    fl = c.get("neg")
    if fl and _in_scope(c) and "val" in r["dense"]:
        t.append("neg-index-" + what)
        if any(fl.get("src") or []):
            t.append("neg-index-source")
        if any(fl.get("snk") or []):
            t.append("neg-index-sink")
        if any(any(f) and not all(f) for f in fl.values()):
            t.append("neg-index-mixed-with-non-negative")
        named = [i for kk, f in fl.items() for i, b in zip(c[kk], f) if b]
        if n - 1 in named:
            t.append("neg-index-minus-one")
        if 0 in named:
            t.append("neg-index-minus-n")
        if c.get("stream") == "large":
            t.append("neg-index-large")
    return t


def search(rng, tier):
    """called when a proof or the correspondence broke but this run's oracle saw nothing: more cases, oracle only"""
    found = []
    for _ in range(3):
        for c in generate(rng, "quick"):
            r = run_impl(c)
            for key, msg in oracle(c, r):
                found.append((key, msg, c, r))
            if found:
                return found
    return found
