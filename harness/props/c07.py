"""C07: committors and mean first-passage times satisfy their first-step equations."""
import itertools, os, sys
from fractions import Fraction as F
import numpy as np
from core import cn, cq, clist, VERIF
sys.path.insert(0, os.path.join(VERIF, "translator"))
import tr_tpt

PID = "C07"
PROPS_FILE = "Props/C07.v"
MODEL_TARGETS = ["Model/TPT.vo", "Gen/TptGen.vo", "Model/TPTGen.vo"]
GEN_FILES = ["Gen/TptGen.v"]
CASE_HEADER = ("From Coq Require Import List ZArith QArith Bool.\nFrom EV Require Import TPT TptBase TptGen TPTGen.\n"
               "Import ListNotations.\n")


def translate(repo):
    return tr_tpt.translate(repo)


RULE = ("irreducible row-stochastic matrices with 3..7 states (thorough: ..9) from small integer count matrices with "
        "zeros (symmetric = reversible, and non-symmetric; half of them with power-of-two row sums so that the double "
        "matrix is exactly stochastic), plus a few reducible chains whose states all reach the absorbing set; source and "
        "sink sets disjoint with 1..3 members each (thorough: every such pair for small chains), plus overlapping / "
        "duplicated sets and empty source sets (correspondence only) and out-of-range indices (error clause); lag in {1, 2.5, 10}; "
        "populations computed or supplied; round 2: sink sets of 2..3 members with direct transitions between the sinks, "
        "irreducible PERIODIC chains (cyclic classes, period 2, 3 or n, dyadic and not) mostly through the all-pairs path "
        "with populations=None, and sequence cases (several calls in one process with the same number of states: "
        "mfpts(T, A) then mfpts(T', B) with A not a subset of B, committors/mfpts interleaved, and the all-pairs table "
        "built column by column in a random order) whose every call is checked like a stand-alone case; every case is run on the real committors/mfpts with dense, csr, csc, coo and "
        "lil input; the definitions REGENERATED from the current source (Gen/TptGen.v, vm_compute over Q) must agree to 1e-9 relative "
        "and, for chains with at most 4 states, coincide exactly with the hand-written model (for all inputs that is a theorem), the oracle evaluates the "
        "first-step equations, bounds, column agreement, lag linearity, container agreement and input preservation on "
        "the implementation's output. non-trivial := at least 3 states and at least one state that is neither source "
        "nor sink with a committor strictly between 0 and 1 (committors) / at least two non-sink states (mfpts)")
TRUSTED = ["translator/tr_tpt.py (fail-closed symbolic reading of _I_m_Q / committors / mfpts into Gen/TptGen.v) and the meaning "
           "of the array vocabulary Base/TptBase.v (NumPy fancy indexing, item assignment, broadcasting, axis sums) -- both "
           "exercised by the correspondence on every case; translator/tr_tpt_selftest.py replays 35 source mutations",
           "modelled not verified: scipy.sparse.linalg.spsolve, np.linalg.solve, np.linalg.inv (model: exact Gauss-Jordan "
           "over Q, now proved sound and total on matrices with trivial kernel (Proof/TPTExist.v); its output is still "
           "re-checked by is_solution before use), eq_probs / scipy.linalg.eig (model: exact "
           "stationary vector, re-checked), NumPy fancy indexing and scipy.sparse container conversions",
           "for double matrices that are not exactly row-stochastic (row sums not a power of two) the populations=None "
           "cases hand the eigen-solver's eq_probs output to the model as the populations argument",
           "comparison of doubles with exact rationals at relative tolerance 1e-9"]
ASSUMPTIONS = ["state indices are non-negative (NumPy's negative-index wrap-around is outside the model)",
               "theorems assume duplicate-free, disjoint source and sink lists and exact rational arithmetic"]
SHARD = 24
EXHAUSTIVE = {"thorough": False}
ESSENTIAL_TAGS = ["comm", "comm-multi-sink", "comm-multi-source", "mfpt-sinks", "mfpt-multi-sink", "mfpt-all",
                  "mfpt-all-pops-given", "reversible", "nonreversible", "dyadic", "nondyadic", "index-error",
                  "lag-not-1", "interior-committor", "periodic", "periodic-all-pairs-pops-none", "sink-to-sink",
                  "seq-sinks-not-nested", "seq-column-by-column", "seq-committors-and-mfpts", "seq-all-calls-returned"]
CONTAINERS = ["dense", "csr", "csc", "coo", "lil"]
TOL = F(1, 10 ** 9)


# ----------------------------------------------------------------------------- generators
def _strongly_connected(C):
    n = len(C)

    def reach(adj):
        seen, st = {0}, [0]
        while st:
            i = st.pop()
            for j in range(n):
                if adj(i, j) and j not in seen:
                    seen.add(j)
                    st.append(j)
        return len(seen) == n
    return reach(lambda i, j: C[i][j] > 0) and reach(lambda i, j: C[j][i] > 0)


def _all_reach(C, A):
    n = len(C)
    seen = set(A)
    changed = True
    while changed:
        changed = False
        for i in range(n):
            if i not in seen and any(C[i][j] > 0 and j in seen for j in range(n)):
                seen.add(i)
                changed = True
    return len(seen) == n


def _counts(rng, n, reversible, dyadic):
    for _ in range(200):
        dens = rng.choice([0.45, 0.6, 0.8, 1.0])
        C = [[(rng.randint(1, 6) if rng.random() < dens else 0) for _ in range(n)] for _ in range(n)]
        if reversible:
            for i in range(n):
                for j in range(i):
                    C[i][j] = C[j][i]
        if dyadic:
            _top_up(C)
        if all(sum(r) > 0 for r in C) and _strongly_connected(C):
            return C
    return [[1] * n for _ in range(n)]


def _top_up(C):
    """make every row sum a power of two by topping up the diagonal (keeps symmetry)"""
    for i in range(len(C)):
        t = sum(C[i])
        p = 8
        while p < t + (0 if C[i][i] else 1):
            p *= 2
        C[i][i] += p - t


def _period(C):
    """period of an irreducible chain: gcd over the edges i->j of level[i] + 1 - level[j] (BFS levels from state 0)"""
    from math import gcd
    n = len(C)
    lev, st = {0: 0}, [0]
    while st:
        nxt = []
        for i in st:
            for j in range(n):
                if C[i][j] > 0 and j not in lev:
                    lev[j] = lev[i] + 1
                    nxt.append(j)
        st = nxt
    g = 0
    for i in range(n):
        for j in range(n):
            if C[i][j] > 0 and i in lev and j in lev:
                g = gcd(g, lev[i] + 1 - lev[j])
    return abs(g)


def _periodic_counts(rng, n, dyadic):
    """irreducible chain of period d >= 2: the states are split into d cyclic classes and every transition goes from a
    class to the next one (d = n: a deterministic cycle, i.e. a permutation matrix)"""
    for _ in range(200):
        d = min(n, rng.choice([2, 2, 3, n]))
        perm = list(range(n))
        rng.shuffle(perm)
        cls = {i: k % d for k, i in enumerate(perm)}
        C = [[0] * n for _ in range(n)]
        for i in range(n):
            nxt = [j for j in range(n) if cls[j] == (cls[i] + 1) % d]
            tg = rng.sample(nxt, rng.randint(1, len(nxt)))
            if dyadic:
                w = {j: 1 for j in tg}
                for _ in range(8 - len(tg)):
                    w[rng.choice(tg)] += 1
            else:
                w = {j: rng.randint(1, 6) for j in tg}
            for j, x in w.items():
                C[i][j] = x
        if _strongly_connected(C) and _period(C) > 1:
            return C
    return [[1 if j == (i + 1) % n else 0 for j in range(n)] for i in range(n)]


def _multi_sets(rng, n):
    """1..2 sources and 2..3 sinks, at least one state left over (n >= 4)"""
    kt = rng.choice([2, 2, 3]) if n >= 5 else 2
    ks = 2 if (n - kt >= 3 and rng.random() < 0.4) else 1
    perm = list(range(n))
    rng.shuffle(perm)
    return perm[:ks], perm[ks:ks + kt]


def _link(C, A, rev):
    """direct transitions between the members of A (in both directions when the chain is to stay symmetric)"""
    for a in A:
        for b in A:
            if a != b and C[a][b] == 0:
                C[a][b] = 1
                if rev:
                    C[b][a] = 1


def _reducible_counts(rng, n):
    """states 0..n-2 irreducible-ish, last state only leaves (transient): still every state reaches any A in the core"""
    C = _counts(rng, n - 1, False, False)
    C = [r + [0] for r in C]
    C.append([rng.randint(0, 3) for _ in range(n - 1)] + [rng.randint(0, 3)])
    if sum(C[-1][:-1]) == 0:
        C[-1][0] = 1
    return C


def _sets(rng, n):
    ks = rng.choice([1, 1, 2, 3])
    kt = rng.choice([1, 1, 2, 3])
    while ks + kt > n - 1:
        if ks > 1:
            ks -= 1
        elif kt > 1:
            kt -= 1
        else:
            break
    perm = list(range(n))
    rng.shuffle(perm)
    return perm[:ks], perm[ks:ks + kt]


def generate(rng, tier):
    big = tier == "thorough"
    sizes = [3, 4, 4, 5, 5, 6, 7] + ([8, 9] if big else [])
    lags = ["1", "5/2", "10"]
    cases = []

    def mat():
        n = rng.choice(sizes)
        rev = rng.random() < 0.5
        dy = rng.random() < 0.5
        return n, _counts(rng, n, rev, dy)
    mult = 8 if big else 1
    for _ in range(150 * mult):
        n, C = mat()
        src, snk = _sets(rng, n)
        cases.append({"kind": "comm", "n": n, "counts": C, "src": src, "snk": snk})
    for _ in range(12 * mult):     # reducible, still solvable: a transient state outside the sets
        n = rng.choice([4, 5, 6])
        C = _reducible_counts(rng, n)
        src, snk = _sets(rng, n - 1)
        cases.append({"kind": "comm", "n": n, "counts": C, "src": src, "snk": snk})
    for _ in range(20 * mult):     # outside the quantifier: overlapping / duplicated / empty sets (model mirrors the code)
        n, C = mat()
        src, snk = _sets(rng, n)
        r = rng.random()
        if r < 0.35:
            src = src + [snk[0]]
        elif r < 0.7:
            snk = snk + [snk[0]]
        else:
            src = []
        cases.append({"kind": "comm", "n": n, "counts": C, "src": src, "snk": snk})
    for _ in range(60 * mult):
        n, C = mat()
        _, snk = _sets(rng, n)
        cases.append({"kind": "mfpt_s", "n": n, "counts": C, "snk": snk, "lag": rng.choice(lags)})
    for _ in range(50 * mult):
        n, C = mat()
        cases.append({"kind": "mfpt_a", "n": n, "counts": C, "lag": rng.choice(lags),
                      "pops": rng.choice(["none", "given"])})
    for _ in range(24 * mult):     # error clause: a state index outside the matrix
        n, C = mat()
        src, snk = _sets(rng, n)
        bad = n + rng.choice([0, 0, 1, 5])
        k = rng.choice(["comm-src", "comm-snk", "mfpt_s"])
        if k == "comm-src":
            cases.append({"kind": "comm", "n": n, "counts": C, "src": src + [bad], "snk": snk})
        elif k == "comm-snk":
            cases.append({"kind": "comm", "n": n, "counts": C, "src": src, "snk": [bad] + snk})
        else:
            cases.append({"kind": "mfpt_s", "n": n, "counts": C, "snk": snk + [bad], "lag": "1"})
    big_sizes = [z for z in sizes if z >= 4]
    for k in range(24 * mult):     # sink sets with direct transitions between the sinks (sink rows/columns of T non-zero)
        n = rng.choice(big_sizes)
        rev, dy = rng.random() < 0.5, rng.random() < 0.5
        C = _counts(rng, n, rev, False)
        src, snk = _multi_sets(rng, n)
        _link(C, snk, rev)
        if dy:
            _top_up(C)
        if k % 2 == 0:
            cases.append({"kind": "comm", "n": n, "counts": C, "src": src, "snk": snk})
        else:
            cases.append({"kind": "mfpt_s", "n": n, "counts": C, "snk": snk, "lag": rng.choice(lags)})
    for k in range(32 * mult):     # irreducible PERIODIC chains (period 2, 3 or n): eigenvalues of modulus 1 besides 1
        n = rng.choice(sizes)
        C = _periodic_counts(rng, n, rng.random() < 0.6)
        if k % 4 == 3:
            src, snk = _sets(rng, n)
            cases.append({"kind": "comm", "n": n, "counts": C, "src": src, "snk": snk})
        elif k % 4 == 2:
            _, snk = _sets(rng, n)
            cases.append({"kind": "mfpt_s", "n": n, "counts": C, "snk": snk, "lag": rng.choice(lags)})
        else:
            cases.append({"kind": "mfpt_a", "n": n, "counts": C, "lag": rng.choice(lags),
                          "pops": "none" if k % 8 != 0 else "given"})
    for k in range(15 * mult):     # sequence probe: calls in one process, same number of states, A not a subset of B
        n = rng.choice([3, 4, 4, 5, 6])
        calls = []
        if k % 3 == 2:
            # the all-pairs table built column by column (sinks [j] one after the other, in a random order)
            C = _counts(rng, n, rng.random() < 0.5, rng.random() < 0.5)
            order = list(range(n))
            rng.shuffle(order)
            lag = rng.choice(lags)
            calls = [{"kind": "mfpt_s", "n": n, "counts": C, "snk": [j], "lag": lag} for j in order]
        else:
            C1 = _counts(rng, n, rng.random() < 0.5, rng.random() < 0.5)
            C2 = _counts(rng, n, rng.random() < 0.5, rng.random() < 0.5)
            for _ in range(50):
                _, A = _sets(rng, n)
                sB, B = _sets(rng, n)
                if not set(A) <= set(B):
                    break
            else:
                A, B, sB = [0], [1], [2]
            if k % 3 == 0:
                calls = [{"kind": "mfpt_s", "n": n, "counts": C1, "snk": A, "lag": rng.choice(lags)},
                         {"kind": "mfpt_s", "n": n, "counts": C2, "snk": B, "lag": rng.choice(lags)}]
            else:
                sA = [i for i in range(n) if i not in A][:1]
                calls = [{"kind": "comm", "n": n, "counts": C1, "src": sA, "snk": A},
                         {"kind": "mfpt_s", "n": n, "counts": C1, "snk": A, "lag": "1"},
                         {"kind": "comm", "n": n, "counts": C2, "src": sB, "snk": B},
                         {"kind": "mfpt_s", "n": n, "counts": C2, "snk": B, "lag": "1"}]
        cases.append({"kind": "seq", "n": n, "calls": calls})
    if big:
        # small scope, exhaustive in the sets: every disjoint non-empty pair with <= 3 members each
        for n in (3, 4, 5):
            for _ in range(2):
                C = _counts(rng, n, rng.random() < 0.5, rng.random() < 0.5)
                for ks in (1, 2, 3):
                    for src in itertools.combinations(range(n), ks):
                        rest = [i for i in range(n) if i not in src]
                        for kt in (1, 2, 3):
                            for snk in itertools.combinations(rest, kt):
                                cases.append({"kind": "comm", "n": n, "counts": C, "src": list(src), "snk": list(snk)})
                for kt in (1, 2, 3):
                    for snk in itertools.combinations(range(n), kt):
                        if kt < n:
                            cases.append({"kind": "mfpt_s", "n": n, "counts": C, "snk": list(snk), "lag": "5/2"})
    return cases


# ----------------------------------------------------------------------------- implementation
def _tprob(c):
    C = np.array(c["counts"], dtype=float)
    return C / C.sum(axis=1)[:, None]


def _containers(T):
    import scipy.sparse as sp
    return {"dense": T.copy(), "csr": sp.csr_matrix(T), "csc": sp.csc_matrix(T), "coo": sp.coo_matrix(T),
            "lil": sp.lil_matrix(T)}


def _same(X, T, kind):
    import scipy.sparse as sp
    if kind == "dense":
        return isinstance(X, np.ndarray) and X.shape == T.shape and bool((X == T).all())
    return sp.issparse(X) and X.format == kind and X.shape == T.shape and bool((X.toarray() == T).all())


def _call(fn):
    try:
        v = np.asarray(fn(), dtype=float)
    except Exception as ex:
        return {"err": type(ex).__name__}
    if not np.isfinite(v).all():
        return {"err": "NonFinite"}
    return {"val": v.tolist()}


def run_impl(c):
    if c["kind"] == "seq":
        # consecutive calls in this process: anything kept between calls (a cached work array) shows up in the later ones
        return {"calls": [run_impl(x) for x in c["calls"]]}
    from enspara.tpt import committors, mfpts
    from enspara.msm.transition_matrices import eq_probs
    T = _tprob(c)
    res = {}
    lag = float(F(c["lag"])) if "lag" in c else None
    pops = None
    if c["kind"] == "mfpt_a":
        # what the eigen-solver (not modelled) returns for this matrix; passed on explicitly in the "given" cases
        eq = np.asarray(eq_probs(T.copy()), dtype=float)
        res["pops"] = eq.tolist()
        if c["pops"] == "given":
            pops = eq
    for name, X in _containers(T).items():
        if c["kind"] == "comm":
            src, snk = list(c["src"]), list(c["snk"])
            r = _call(lambda: committors(X, src, snk))
            ok = src == c["src"] and snk == c["snk"]
        elif c["kind"] == "mfpt_s":
            snk = list(c["snk"])
            r = _call(lambda: mfpts(X, sinks=snk, lagtime=lag))
            ok = snk == c["snk"]
        else:
            p = None if pops is None else pops.copy()
            r = _call(lambda: mfpts(X, populations=p, lagtime=lag))
            ok = p is None or bool((p == pops).all())
        r["unchanged"] = bool(ok and _same(X, T, name))
        res[name] = r
    if c["kind"] == "mfpt_a":
        # the same table through the single-sink routine, and in units of the lag time
        res["cols"] = [_call(lambda: mfpts(T.copy(), sinks=[j], lagtime=lag)) for j in range(c["n"])]
        res["lag1"] = _call(lambda: mfpts(T.copy(), populations=None if pops is None else pops.copy(), lagtime=1.))
    if c["kind"] == "mfpt_s":
        res["lag1"] = _call(lambda: mfpts(T.copy(), sinks=list(c["snk"]), lagtime=1.))
    return res


# ----------------------------------------------------------------------------- oracle
def _in_scope(c):
    """inside the property's quantifier: valid indices, duplicate-free, disjoint, non-empty sets, all states reach the
    absorbing set (true for every irreducible chain)"""
    n = c["n"]
    if c["kind"] == "comm":
        src, snk = c["src"], c["snk"]
        A = src + snk
        return (len(src) > 0 and len(snk) > 0 and len(set(A)) == len(A) and all(0 <= i < n for i in A)
                and _all_reach(c["counts"], A))
    if c["kind"] == "mfpt_s":
        snk = c["snk"]
        return len(snk) > 0 and len(set(snk)) == len(snk) and all(0 <= i < n for i in snk) and _all_reach(c["counts"], snk)
    return _strongly_connected(c["counts"])


def _bad_index(c):
    n = c["n"]
    return any(i >= n for i in c.get("src", []) + c.get("snk", []))


def _close(a, b, tol=TOL):
    return abs(a - b) <= tol * max(1, abs(a), abs(b))


def _flat(v):
    return [x for r in v for x in r] if v and isinstance(v[0], list) else list(v)


def oracle(c, r):
    if c["kind"] == "seq":
        seen, out = set(), []
        for k, (x, rx) in enumerate(zip(c["calls"], r["calls"])):
            for key, msg in oracle(x, rx):
                if key not in seen:
                    seen.add(key)
                    out.append((key, "call %d of the sequence: %s" % (k, msg)))
        return out
    out = []
    n = c["n"]
    # inputs are not modified (every container, every outcome)
    for name in CONTAINERS:
        if not r[name]["unchanged"]:
            out.append(("input-modified", "%s input (or the index lists / populations) changed during the call" % name))
    if _bad_index(c):
        for name in CONTAINERS:
            if r[name].get("err") != "IndexError":
                out.append(("index-error", "%s: out-of-range state index not rejected with IndexError: %s" % (name, r[name])))
        return out
    if not _in_scope(c):
        return out
    for name in CONTAINERS:
        if "val" not in r[name]:
            out.append(("no-result-" + c["kind"], "%s input: %s" % (name, r[name])))
    if out:
        return out
    # dense and sparse inputs give the same values
    d = _flat(r["dense"]["val"])
    for name in CONTAINERS[1:]:
        s = _flat(r[name]["val"])
        if len(s) != len(d) or not all(_close(F(a), F(b)) for a, b in zip(d, s)):
            out.append(("container-agreement", "%s result differs from dense: %s vs %s" % (name, s, d)))
    T = [[F(x) for x in row] for row in _tprob(c).tolist()]
    if c["kind"] == "comm":
        src, snk = c["src"], c["snk"]
        for name in CONTAINERS:
            q = [F(x) for x in r[name]["val"]]
            if len(q) != n:
                out.append(("comm-shape", "%s: %d values for %d states" % (name, len(q), n)))
                continue
            for i in range(n):
                if i in src:
                    if q[i] != 0:
                        out.append(("comm-source", "%s: q[%d]=%s on a source" % (name, i, float(q[i]))))
                elif i in snk:
                    if q[i] != 1:
                        out.append(("comm-sink", "%s: q[%d]=%s on a sink" % (name, i, float(q[i]))))
                else:
                    if not (-TOL <= q[i] <= 1 + TOL):
                        out.append(("comm-bounds", "%s: q[%d]=%s outside [0,1]" % (name, i, float(q[i]))))
                    avg = sum(T[i][j] * q[j] for j in range(n))
                    if not _close(q[i], avg):
                        out.append(("comm-first-step", "%s: q[%d]=%s but sum_j T[%d,j] q[j]=%s" % (name, i, float(q[i]), i, float(avg))))
    elif c["kind"] == "mfpt_s":
        snk, lag = c["snk"], F(c["lag"])
        for name in CONTAINERS:
            t = [F(x) for x in r[name]["val"]]
            if len(t) != n:
                out.append(("mfpt-shape", "%s: %d values for %d states" % (name, len(t), n)))
                continue
            for i in range(n):
                if i in snk:
                    if t[i] != 0:
                        out.append(("mfpt-sink-zero", "%s: t[%d]=%s on a sink" % (name, i, float(t[i]))))
                else:
                    rhs = lag + sum(T[i][j] * t[j] for j in range(n))
                    if not _close(t[i], rhs):
                        out.append(("mfpt-first-step", "%s: t[%d]=%s but lag + sum_j T[%d,j] t[j]=%s" % (name, i, float(t[i]), i, float(rhs))))
        if "val" in r["lag1"]:
            if not all(_close(F(a), lag * F(b)) for a, b in zip(r["dense"]["val"], r["lag1"]["val"])):
                out.append(("mfpt-lag-linear", "mfpts(lagtime=%s) != %s * mfpts(lagtime=1)" % (lag, lag)))
        else:
            out.append(("mfpt-lag-linear", "lagtime=1 run failed: %s" % r["lag1"]))
    else:
        lag = F(c["lag"])
        for name in CONTAINERS:
            M = [[F(x) for x in row] for row in r[name]["val"]]
            if len(M) != n or any(len(row) != n for row in M):
                out.append(("mfpt-shape", "%s: table is not %dx%d" % (name, n, n)))
                continue
            for j in range(n):
                if abs(M[j][j]) > TOL:
                    out.append(("mfpt-all-diagonal", "%s: m[%d,%d]=%s" % (name, j, j, float(M[j][j]))))
                for i in range(n):
                    if i != j:
                        rhs = lag + sum(T[i][k] * M[k][j] for k in range(n) if k != j)
                        if not _close(M[i][j], rhs):
                            out.append(("mfpt-all-first-step", "%s: m[%d,%d]=%s but lag + sum_{k!=j} T[i,k] m[k,j]=%s" % (name, i, j, float(M[i][j]), float(rhs))))
                col = r["cols"][j]
                if "val" not in col or not all(_close(M[i][j], F(col["val"][i])) for i in range(n)):
                    out.append(("mfpt-column-agreement", "%s: column %d of the all-pairs table %s != mfpts(sinks=[%d]) %s" % (
                        name, j, [float(M[i][j]) for i in range(n)], j, col)))
        if "val" in r["lag1"]:
            if not all(_close(F(a), lag * F(b)) for a, b in zip(_flat(r["dense"]["val"]), _flat(r["lag1"]["val"]))):
                out.append(("mfpt-lag-linear", "mfpts(lagtime=%s) != %s * mfpts(lagtime=1)" % (lag, lag)))
        else:
            out.append(("mfpt-lag-linear", "lagtime=1 run failed: %s" % r["lag1"]))
    # report each clause once per case
    seen, uniq = set(), []
    for k, m in out:
        if k not in seen:
            seen.add(k)
            uniq.append((k, m))
    return uniq


# ----------------------------------------------------------------------------- model side
def _qmat(c):
    T = _tprob(c).tolist()
    return clist(T, lambda row: clist(row, lambda x: cq(F(x)), "Q"), "(list Q)")


def _nl(xs):
    return clist(xs, cn, "nat")


def _model(c, r=None, g=""):
    """g = "": the hand-written model (Model/TPT.v); g = "_g": the definitions regenerated from the source
    (Gen/TptGen.v through Model/TPTGen.v)"""
    n = cn(c["n"])
    if c["kind"] == "comm":
        return "(committors%s %s %s %s %s)" % (g, n, _qmat(c), _nl(c["src"]), _nl(c["snk"]))
    if c["kind"] == "mfpt_s":
        return "(mfpts_sinks%s %s %s %s %s)" % (g, n, _qmat(c), _nl(c["snk"]), cq(F(c["lag"])))
    if c["pops"] == "none" and _dyadic(c["counts"]):
        # exactly stochastic double matrix: the model computes the stationary vector itself
        return "(mfpts_all_default%s %s %s %s)" % (g, n, _qmat(c), cq(F(c["lag"])))
    pops = r["pops"] if r is not None else run_impl(c)["pops"]
    return "(mfpts_all%s %s %s %s %s)" % (g, n, _qmat(c), clist(pops, lambda x: cq(F(x)), "Q"), cq(F(c["lag"])))


def coq_check(c, r):
    if c["kind"] == "seq":
        return "(%s)" % " && ".join(coq_check(x, rx) for x, rx in zip(c["calls"], r["calls"]))
    tol = cq(TOL)
    two_d = c["kind"] == "mfpt_a"
    close = "(CaseLib.qll_close %s)" % tol if two_d else "(CaseLib.ql_close %s)" % tol
    ty = "(list (list Q))" if two_d else "(list Q)"
    parts = []
    for name in CONTAINERS:
        x = r[name]
        if "val" in x:
            if two_d:
                lit = clist(x["val"], lambda row: clist(row, lambda v: cq(F(v)), "Q"), "(list Q)")
            else:
                lit = clist(x["val"], lambda v: cq(F(v)), "Q")
            exp = "(Some %s)" % lit
        elif x["err"] in ("IndexError", "LinAlgError"):
            exp = "(@None %s)" % ty
        else:
            return "false"      # NaN/inf or an unexpected exception: never what the model predicts
        parts.append("CaseLib.opt_eqb %s m %s" % (close, exp))
        if x == r["dense"] and name != "dense":
            parts.pop()         # identical to the dense result: already compared
    # m: the definitions regenerated from the current source, compared with the implementation; the hand-written model
    # must give the very same value (that the two are equal is also a theorem: Proof/TptGenProofs.v)
    # (evaluated for the chains with at most 4 states only: it doubles the cost of a case)
    if c["n"] <= 4:
        parts.append("CaseLib.opt_eqb %s m %s" % ("qll_eq" if two_d else "ql_eq", _model(c, r)))
    return "(let m := %s in %s)" % (_model(c, r, "_g"), " && ".join("(%s)" % p for p in parts))


def coq_show(c):
    if c["kind"] == "seq":
        return "(%s)" % ", ".join(_model(x, None, "_g") for x in c["calls"])
    return _model(c, None, "_g")


# ----------------------------------------------------------------------------- accounting
def nontrivial(c, r):
    if c["kind"] == "seq":
        return all(nontrivial(x, rx) for x, rx in zip(c["calls"], r["calls"]))
    if "val" not in r["dense"] or not _in_scope(c) or c["n"] < 3:
        return False
    if c["kind"] == "comm":
        q = r["dense"]["val"]
        return any(i not in c["src"] and i not in c["snk"] and 1e-6 < q[i] < 1 - 1e-6 for i in range(c["n"]))
    if c["kind"] == "mfpt_s":
        return c["n"] - len(set(c["snk"])) >= 2
    return True


def _dyadic(C):
    return all((sum(r) & (sum(r) - 1)) == 0 for r in C)


def tags(c, r):
    if c["kind"] == "seq":
        t = ["seq"]
        sn = [x["snk"] for x in c["calls"]]
        if all(len(a) == 1 for a in sn) and sorted(a[0] for a in sn) == list(range(c["n"])):
            t.append("seq-column-by-column")
        elif any(not set(a) <= set(b) for a, b in zip(sn, sn[1:])):
            t.append("seq-sinks-not-nested")
        if any(x["kind"] == "comm" for x in c["calls"]):
            t.append("seq-committors-and-mfpts")
        if all("val" in rx["dense"] for rx in r["calls"]):
            t.append("seq-all-calls-returned")
        return t
    t = []
    C = c["counts"]
    n = c["n"]
    if _bad_index(c):
        return ["index-error"] if r["dense"].get("err") == "IndexError" else ["index-error-missed"]
    t.append("reversible" if all(C[i][j] == C[j][i] for i in range(n) for j in range(n)) else "nonreversible")
    t.append("dyadic" if _dyadic(C) else "nondyadic")
    t.append("n=%d" % n)
    if not _strongly_connected(C):
        t.append("reducible")
    elif _period(C) > 1:
        t.append("periodic")
        if c["kind"] == "mfpt_a" and c["pops"] == "none":
            t.append("periodic-all-pairs-pops-none")
    snk = c.get("snk", [])
    if len(set(snk)) > 1 and any(C[a][b] > 0 for a in snk for b in snk if a != b and a < n and b < n):
        t.append("sink-to-sink")
    if c["kind"] == "comm":
        t.append("comm")
        if not _in_scope(c):
            t.append("comm-out-of-scope-sets")
        else:
            if len(c["snk"]) > 1:
                t.append("comm-multi-sink")
            if len(c["src"]) > 1:
                t.append("comm-multi-source")
            if nontrivial(c, r):
                t.append("interior-committor")
    elif c["kind"] == "mfpt_s":
        t.append("mfpt-sinks")
        if len(c["snk"]) > 1:
            t.append("mfpt-multi-sink")
    else:
        t.append("mfpt-all")
        t.append("mfpt-all-pops-given" if c["pops"] == "given" else "mfpt-all-pops-computed")
    if "lag" in c and c["lag"] != "1":
        t.append("lag-not-1")
    return t


def search(rng, tier):
    """called when a proof or the correspondence broke but this run's oracle saw nothing: more cases, oracle only"""
    found = []
    for _ in range(3):
        for c in generate(rng, "quick"):
            r = run_impl(c)
            for key, msg in oracle(c, r):
                found.append((key, msg, c, r))
            if found:
                return found
    return found
