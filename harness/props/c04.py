"""C04: every transition-matrix builder returns a valid, stationary and (where promised) reversible model."""
import copy, os, sys
from fractions import Fraction
import numpy as np
from core import cz, cn, cb, cq, clist, copt, VERIF
sys.path.insert(0, os.path.join(VERIF, "translator"))
import tr_builders

PID = "C04"
PROPS_FILE = "Props/C04.v"
MODEL_TARGETS = ["Model/Builders.vo", "Gen/BuildersGen.vo"]
GEN_FILES = ["Gen/BuildersGen.v"]
CASE_HEADER = ("From Coq Require Import List QArith Bool.\nFrom EV Require Import Builders BuildersBase BuildersGen.\n"
               "Import ListNotations.\nOpen Scope Q_scope.\nOpen Scope bool_scope.\n"
               "Definition gres (r : res (arr * arr * option (list Q))) : option result :=\n"
               "  match r with Ok (c, t, o) => Some (a_val c, a_val t, o) | _ => None end.\n"
               "Definition gkinds_ok (r : res (arr * arr * option (list Q))) (kc kt : kind) : bool :=\n"
               "  match r with Ok (c, t, _) => kind_eqb (a_kind c) kc && kind_eqb (a_kind t) kt | _ => false end.\n"
               "Definition ex_eig (T : arr) : eig_ans := ans_of_opt (stationary (a_val T)).\n"
               "Definition no_eqp (T : arr) : res (list Q) := Ok [].\n"
               "Definition no_prinz (C : arr) : res (arr * list Q) := Ok (mkarr KArr [], []).\n"
               "Definition loop_X (X : mat) : arr -> list Q -> arr -> list Q -> arr * list Q :=\n"
               "  fun _ _ _ _ => (mkarr KArr X, rowsums X).\n")


def translate(repo):
    return tr_builders.translate(repo)

SHARD = 25
RULE = ("random square count matrices, 2..6 states (mle 2..5), entries 0..5 with many zeros (some half-integer valued), "
        "classes: strongly connected (random Hamiltonian cycle forced; incl. bare cycles), all-rows-positive but "
        "possibly reducible, with a zero row; x builder {normalize, transpose, mle} x prior {none, int/float scalar, "
        "dense matrix} x equilibrium on/off; every case is run on the real builders in 10 containers (ndarray, "
        "csr/csc/coo/lil/dok/dia/bsr _matrix, csr_array, coo_array); the Coq model is compared (1e-9) with the ndarray "
        "result and one sparse container per case, the oracle checks every container; a malformed stream covers the "
        "rejecting paths (mle with a state without outgoing counts, prior of another shape, non-square counts); "
        "round 2: the builders regenerated from the current builders.py / eq_probs (Gen/BuildersGen.v) are evaluated "
        "too -- numbers against the sparse container of the case, container kinds of counts/probabilities against all "
        "10 containers; 1000-state sparse chains (fast mixing, and a slowly mixing ring on which ARPACK fails: it returns "
        "non-leading eigenpairs, or gives up with ArpackNoConvergence after ~60 s) are "
        "run on the real code through eq_probs' ARPACK path, oracle only; on each of them eq_probs(T, maxiter=1) "
        "is called too (ARPACK then gives up at once: the populations must still be the dense solver's); "
        "round 3s streams (systematic products): (a) non-canonically stored sparse counts -- coo/csr/csc _matrix and _array, "
        "bsr -- with several stored entries per cell (also one stored 1 per transition, and the matrix assigns_to_counts "
        "itself returns), stored zeros, unsorted indices, int32/int64/float64, x builder x prior kind, reference = the dense "
        "matrix; (b) prior counts present but zero (0, 0.0, int and float zeros arrays) x builder, dense input also as "
        "F-ordered, read-only and strided view of a larger array (whose other cells must stay), every such call made twice "
        "on the same objects (history-call-twice); (c) one-way count patterns (C[i][j] = 0 < C[j][i], mostly below the "
        "diagonal) through mle without prior; (d) nearly symmetric metastable chains (|T - T^T| <= 2^-28, rare transitions "
        "2^-28..2^-38 with ratio >= 4, symmetric equal-row-sum basins, as dyadic and as huge integer counts) through "
        "normalize/eq_probs: populations compared with the exactly computed stationary distribution (stationary-vector: "
        "5e-3 there -- LAPACK's forward error is eps/gap, <= 4e-5 observed --, 1e-8 for every other strongly connected "
        "normalize case), Coq compares counts and probabilities of these; "
        "(e) counts held in a narrow integer dtype (int8, uint8, int16, uint16, int32, uint32; 2-4 states, strongly "
        "connected): every entry of C and of C + C^T fits the dtype while row totals of C + C^T (for normalize / mle also "
        "of C) and the grand total do not; every dtype x {transpose (first one: populations on, no prior), transpose, "
        "normalize, mle (8/16-bit)}; dense input, its F-ordered / read-only / strided-view forms and all 9 sparse containers "
        "of that same dtype, each judged against the exact rational model (and in Coq like every other case); "
        "plus small scope: all 2x2 count matrices over {0,1,2} (thorough: all; and a third of the 3x3 0/1 matrices); "
        "non-trivial := accepted, >= 3 states, counts not symmetric and with at least one zero entry")
TRUSTED = ["translator/tr_builders.py (statement-by-statement translation of _apply_prior_counts, _row_normalize, "
           "normalize, transpose, mle, prologue/guards/final step of _prinz_mle_py, eq_probs; ownership analysis "
           "rejecting in-place writes into buffers shared with an argument) and the numpy/scipy conventions written "
           "down in Base/BuildersBase.v (which container kind an operation returns, sparse + number raising "
           "NotImplementedError except for DOK) -- the kinds are compared with the implementation's on every case",
           "modelled not verified: LAPACK eig behind eq_probs/eigenspectrum (its output is compared at 1e-9 with the exact "
           "stationary vector computed and checked in Coq), scipy sparse container conversions and arithmetic",
           "mle: only the guard and the post-iteration step are modelled; the symmetric X handed to the model is "
           "reconstructed from the implementation's own output as (diag(pi)T + (diag(pi)T)^T)/2 (the iteration is C12)",
           "IEEE rounding of the builders' float arithmetic (tolerance 1e-9 relative)"]
ASSUMPTIONS = ["count matrices are square and non-negative; stationarity of normalize's populations and everything about "
               "mle is claimed for strongly connected counts only",
               "prior counts are None, a non-negative scalar or a dense matrix of the same shape (sparse priors are not "
               "exercised: scipy then picks the container)"]
EXHAUSTIVE = {"thorough": False}

KINDS = ["ndarray", "csr_matrix", "csc_matrix", "coo_matrix", "lil_matrix", "dok_matrix", "dia_matrix", "bsr_matrix",
         "csr_array", "coo_array"]
SPARSE = KINDS[1:]
TOL = Fraction(1, 10 ** 9)


# ----------------------------------------------------------------------------- generation
def _F(x):
    return Fraction(x)


def _sc_matrix(rng, n, density):
    M = [[(rng.randint(1, 5) if rng.random() < density else 0) for _ in range(n)] for _ in range(n)]
    perm = list(range(n))
    rng.shuffle(perm)
    for a in range(n):
        i, j = perm[a], perm[(a + 1) % n]
        if M[i][j] == 0:
            M[i][j] = rng.randint(1, 3)
    return M


def _strongly_connected(M):
    n = len(M)

    def reach(adj):
        seen = {0}
        st = [0]
        while st:
            i = st.pop()
            for j in range(n):
                if adj(i, j) and j not in seen:
                    seen.add(j)
                    st.append(j)
        return len(seen) == n
    return reach(lambda i, j: M[i][j] > 0) and reach(lambda i, j: M[j][i] > 0)


def _oneway_matrix(rng, n):
    """strongly connected counts dominated by one-way pairs (C[i][j] == 0 < C[j][i]), mostly with the
    observed direction in the lower triangle: the pattern of C differs from that of C + C^T"""
    M = [[0] * n for _ in range(n)]
    low = rng.choice([0.35, 0.55, 0.8])
    for i in range(n):
        if rng.random() < 0.5:
            M[i][i] = rng.randint(1, 5)
        for j in range(i + 1, n):
            u = rng.random()
            if u < low:
                M[j][i] = rng.randint(1, 5)
            elif u < low + 0.15:
                M[i][j] = rng.randint(1, 5)
            elif u < low + 0.25:
                M[i][j], M[j][i] = rng.randint(1, 5), rng.randint(1, 5)
    perm = list(range(n))
    rng.shuffle(perm)
    if rng.random() < 0.5:                 # the cycle n-1 -> n-2 -> ... -> 0 -> n-1: all but one edge point down
        perm = list(range(n - 1, -1, -1))
    for a in range(n):
        i, j = perm[a], perm[(a + 1) % n]
        if M[i][j] == 0:
            M[i][j] = rng.randint(1, 3)
    return M


def _lower_oneway(C):
    M = [[_F(x) for x in r] for r in C]
    n = len(M)
    return sum(1 for i in range(n) for j in range(i + 1, n) if len(M[i]) == n and M[i][j] == 0 < M[j][i])


PRIOR_KINDS = ["none", "scalar", "mat", "zero-int", "zero-float", "zeros-int", "zeros-float"]


def _gen_prior(rng, n, pk):
    if pk == "none":
        return None
    if pk == "scalar":
        p = {"scalar": str(rng.choice([Fraction(1), Fraction(2), Fraction(1, 2), Fraction(1, 4)]))}
        if rng.random() < 0.3:
            p["float"] = True
        return p
    if pk == "zero-int":
        return {"scalar": "0"}
    if pk == "zero-float":
        return {"scalar": "0", "float": True}
    if pk in ("zeros-int", "zeros-float"):
        return {"mat": [["0"] * n for _ in range(n)], "float": pk == "zeros-float"}
    p = {"mat": [[str(Fraction(rng.choice([0, 0, 1, 1, 2, 3]), rng.choice([1, 1, 2]))) for _ in range(n)]
                 for _ in range(n)]}
    if all(_F(x) == 0 for r in p["mat"] for x in r):
        p["mat"][rng.randrange(n)][rng.randrange(n)] = "1"
    if rng.random() < 0.3:
        p["float"] = True
    return p


def _prior_kind(prior):
    if prior is None:
        return "none"
    if "scalar" in prior:
        if _F(prior["scalar"]) == 0:
            return "zero-float" if prior.get("float") else "zero-int"
        return "scalar"
    if all(_F(x) == 0 for r in prior["mat"] for x in r):
        return "zeros-float" if prior.get("float") else "zeros-int"
    return "mat"


def _gen_raw(rng, C):
    """a non-canonical sparse storage of the count matrix C: several stored entries at the same
    (row, col) -- in particular one stored 1 per observed transition, what assigns_to_counts returns --,
    explicitly stored zeros, entries in no particular order.  The matrix it denotes is C."""
    M = [[_F(x) for x in r] for r in C]
    n = len(M)
    integer = all(x.denominator == 1 for r in M for x in r)
    unit = integer and rng.random() < 0.35
    ent = []
    for i in range(n):
        for j in range(len(M[i])):
            v = M[i][j]
            if v == 0:
                continue
            if unit:
                parts = [Fraction(1)] * int(v)
            else:
                q = Fraction(1) if integer else Fraction(1, 2)
                units = int(v / q)
                k = min(units, rng.choice([1, 1, 2, 2, 3]))
                cuts = sorted(rng.sample(range(1, units), k - 1)) if k > 1 else []
                parts = [q * (b - a) for a, b in zip([0] + cuts, cuts + [units])]
            ent += [[i, j, p] for p in parts]
    nz = 0 if unit else rng.choice([0, 1, 2, 3])
    for _ in range(nz):                      # explicitly stored zeros, on empty and on occupied cells
        ent.append([rng.randrange(n), rng.randrange(len(M[0])), Fraction(0)])
    if not any(a[:2] == b[:2] for k, a in enumerate(ent) for b in ent[:k]):
        i, j, v = ent[rng.randrange(len(ent))]
        ent.append([i, j, Fraction(0)])      # at least one repeated coordinate
    rng.shuffle(ent)
    dtype = ("int64" if rng.random() < 0.7 else "int32") if integer else "float64"
    return {"entries": [[i, j, str(v)] for i, j, v in ent], "dtype": dtype, "unit": unit,
            "a2c": bool(unit and rng.random() < 0.6)}


def _gen_valid(rng, tier, builder=None, pk=None, cls=None, raw=None, layouts=None):
    builder = builder or rng.choice(["normalize", "transpose", "mle"])
    n = rng.randint(2, 5 if builder == "mle" else 6)
    if cls is None:
        cls = rng.choice(["sc", "sc", "oneway"]) if builder == "mle" else \
            rng.choice(["sc", "sc", "oneway", "rows", "zero-row"])
    density = rng.choice([0.15, 0.35, 0.6, 0.9])
    if cls == "sc":
        M = _sc_matrix(rng, n, 0.0 if rng.random() < 0.08 else density)   # 8 %: a bare cycle
    elif cls == "oneway":
        n = max(n, 3)
        M = _oneway_matrix(rng, n)
    else:
        M = [[(rng.randint(1, 5) if rng.random() < density else 0) for _ in range(n)] for _ in range(n)]
        for i in range(n):
            if sum(M[i]) == 0:
                M[i][rng.randrange(n)] = rng.randint(1, 3)
        if cls == "zero-row":
            z = rng.randrange(n)
            M[z] = [0] * n
            if rng.random() < 0.5:                      # isolated state: row and column empty
                for i in range(n):
                    M[i][z] = 0
            if sum(map(sum, M)) == 0:                   # keep at least one count (0/0 is outside the property)
                a = rng.choice([i for i in range(n) if i != z])
                M[a][a] = rng.randint(1, 3)
    half = rng.random() < 0.15
    C = [[str(Fraction(x, 2) if half else Fraction(x)) for x in r] for r in M]
    if pk is None:
        pk = rng.choice(["none"] * 4 + ["scalar"] * 3 + ["mat"] * 2 + ["zero-int", "zero-float", "zeros-int", "zeros-float"])
    prior = _gen_prior(rng, n, pk)
    if builder == "normalize" and cls not in ("sc", "oneway"):
        # stationary vector is only determined (and only claimed) for strongly connected counts
        eff = _effective(C, prior)
        eq = _strongly_connected(eff) and rng.random() < 0.5
    else:
        eq = rng.random() < 0.6
    c = {"builder": builder, "C": C, "prior": prior, "eq": eq, "cls": cls, "kind": rng.choice(SPARSE),
         "expect_err": False}
    if raw if raw is not None else rng.random() < 0.15:
        c["raw"] = _gen_raw(rng, C)
    if layouts if layouts is not None else (pk.startswith("zero") or rng.random() < 0.2):
        c["layouts"] = True
    return c


NARROW = {"int8": 2 ** 7 - 1, "uint8": 2 ** 8 - 1, "int16": 2 ** 15 - 1, "uint16": 2 ** 16 - 1, "int32": 2 ** 31 - 1,
          "uint32": 2 ** 32 - 1}


def _gen_narrow(rng, tier, dt, builder, plain=False):
    """Counts held in a narrow integer dtype (as they are kept on disk): every entry of C, of C + prior and of C + C^T
    fits the dtype, but row totals of C and of C + C^T (and the grand total) do not."""
    top = NARROW[dt]
    s = top // 10
    while True:
        n = rng.randint(2, 4)
        base = _sc_matrix(rng, n, rng.choice([0.6, 0.9, 1.0]))
        M = [[(x * s - rng.randint(0, min(3, s - 1)) if x else 0) for x in r] for r in base]
        if rng.random() < 0.3:
            i = rng.randrange(n)
            M[i][i] = top // 2                              # 2 C[i][i] is the largest value the dtype holds (or one less)
        if any(M[i][j] + M[j][i] > top for i in range(n) for j in range(n)):
            continue
        sym_tot = [sum(M[i][j] + M[j][i] for j in range(n)) for i in range(n)]
        if max(sym_tot) > top and (builder == "transpose" or max(sum(r) for r in M) > top):
            break
    C = [[str(x) for x in r] for r in M]
    pk = "none" if plain else rng.choice(["none", "none", "none", "scalar"])
    prior = None if pk == "none" else {"scalar": str(rng.choice([Fraction(1, 2), Fraction(1), Fraction(1, 4)])), "float": True}
    return {"builder": builder, "C": C, "prior": prior, "eq": plain or rng.random() < 0.9, "cls": "sc",
            "kind": rng.choice(SPARSE), "expect_err": False, "cdt": dt, "layouts": rng.random() < 0.4}


def _rownorm_exact(M):
    return [[(x / sum(r) if sum(r) else Fraction(0)) for x in r] for r in M]


def _stationary_exact(T):
    """the stationary distribution of an irreducible stochastic matrix, by exact elimination"""
    n = len(T)
    A = [[(T[j][i] - (1 if i == j else 0)) for j in range(n)] for i in range(n)]    # (T^T - I) x = 0
    A[n - 1] = [Fraction(1)] * n                                                   # sum x = 1
    b = [Fraction(0)] * (n - 1) + [Fraction(1)]
    for k in range(n):
        p = next((r for r in range(k, n) if A[r][k] != 0), None)
        if p is None:
            return None
        A[k], A[p], b[k], b[p] = A[p], A[k], b[p], b[k]
        for r in range(n):
            if r != k and A[r][k] != 0:
                f = A[r][k] / A[k][k]
                A[r] = [x - f * y for x, y in zip(A[r], A[k])]
                b[r] -= f * b[k]
    return [b[k] / A[k][k] for k in range(n)]


def _gen_nearsym(rng, tier):
    """Metastable chains whose transition matrix is symmetric up to entries of 2^-28 .. 2^-38 (all < 1e-8) while the
    stationary distribution is far from uniform: basins with symmetric, equal-row-sum internal counts
    (uniform inside a basin), joined by rare transitions whose two directions differ by a factor >= 4.
    |T - T^T| < 1e-8 everywhere; the basin weights are fixed by the ratio of the rare transitions alone."""
    nb = rng.choice([2, 2, 3])
    sizes = [rng.randint(1, 3) for _ in range(nb)]
    if sum(sizes) < 3:
        sizes[0] += 1
    n = sum(sizes)
    starts = [sum(sizes[:k]) for k in range(nb)]
    sym = rng.random() < 0.75
    R = rng.choice([8, 16, 20])
    M = [[Fraction(0)] * n for _ in range(n)]
    for k in range(nb):
        idx = list(range(starts[k], starts[k] + sizes[k]))
        if sym:
            for a in idx:
                for b in idx:
                    if a < b:
                        M[a][b] = M[b][a] = Fraction(rng.randint(1, 3))
            for a in idx:
                M[a][a] = R - sum(M[a])                      # equal row sums R: uniform inside the basin
        else:                                                # ordinary (asymmetric) basin: a control
            for a in idx:
                for b in idx:
                    M[a][b] = Fraction(rng.randint(1, 4))
    e = rng.randint(28, 34)
    order = list(range(nb))
    rng.shuffle(order)
    links = [(order[k], order[k + 1]) for k in range(nb - 1)]
    if nb == 3 and rng.random() < 0.5:
        links.append((order[2], order[0]))
    for (p, q) in links:
        a = starts[p] + rng.randrange(sizes[p])
        b = starts[q] + rng.randrange(sizes[q])
        ratio = rng.choice([4, 8, 16])
        f, g = Fraction(1, 2 ** e), Fraction(1, ratio * 2 ** e)      # 2^-28 .. 2^-38, all below 1e-8
        if rng.random() < 0.5:
            f, g = g, f
        M[a][b] += f * R
        M[b][a] += g * R
    scale = 2 ** (e + 4) if rng.random() < 0.4 else 1        # 40 %: the same chain as (huge) integer counts
    C = [[str(x * scale) for x in r] for r in M]
    return {"builder": "normalize", "C": C, "prior": None, "eq": True, "cls": "nearsym", "kind": rng.choice(SPARSE),
            "expect_err": False, "layouts": rng.random() < 0.3, "sym_basins": sym}


def _gen_malformed(rng):
    which = rng.choice(["mle-no-outgoing", "mle-no-outgoing", "prior-shape", "nonsquare"])
    n = rng.randint(2, 5)
    M = _sc_matrix(rng, n, 0.5)
    prior = None
    if which == "mle-no-outgoing":
        builder = "mle"
        z = rng.randrange(n)
        M[z] = [0] * n
        if rng.random() < 0.3:
            for i in range(n):
                M[i][z] = 0
        if rng.random() < 0.3:
            prior = {"scalar": "0"}
    elif which == "prior-shape":
        builder = rng.choice(["normalize", "transpose", "mle"])
        prior = {"mat": [["1"] * (n + 1) for _ in range(n + 1)]}
    else:
        builder = rng.choice(["transpose", "mle"])
        for r in M:
            r.append(rng.randint(0, 3))
    C = [[str(Fraction(x)) for x in r] for r in M]
    return {"builder": builder, "C": C, "prior": prior, "eq": rng.random() < 0.5, "cls": which,
            "kind": rng.choice(SPARSE), "expect_err": True}


def _small_scope(rng, tier):
    """All 2x2 count matrices over {0,1,2} (and, thorough, a slice of the 3x3 ones over {0,1}) with at
    least one count: the corner cases of the sparse formats (empty rows/columns/diagonals)."""
    import itertools
    mats = [[list(v[0:2]), list(v[2:4])] for v in itertools.product(range(3), repeat=4)]
    if tier == "thorough":
        mats += [[list(v[0:3]), list(v[3:6]), list(v[6:9])] for v in itertools.product(range(2), repeat=9)][::3]
    out = []
    for M in mats:
        if sum(map(sum, M)) == 0:
            continue
        sc = _strongly_connected(M)
        cls = "sc" if sc else "rows" if all(sum(r) > 0 for r in M) else "zero-row"
        C = [[str(Fraction(x)) for x in r] for r in M]
        for b in ("normalize", "transpose", "mle"):
            if b == "mle" and not sc:
                continue
            out.append({"builder": b, "C": C, "prior": None, "eq": (sc if b == "normalize" else True), "cls": cls,
                        "kind": rng.choice(SPARSE), "expect_err": False})
    if tier == "quick":
        out = rng.sample(out, 40)
    return out


def generate(rng, tier):
    n = 200 if tier == "quick" else 1700
    cases = [_gen_valid(rng, tier) for _ in range(n)]
    cases += [_gen_malformed(rng) for _ in range(n // 6)]
    cases += _small_scope(rng, tier)
    # round 3s streams, each a systematic product rather than a random draw:
    reps = 1 if tier == "quick" else 8
    # (a) non-canonically stored sparse counts x builder x prior kind
    for _ in range(reps):
        for b in ("normalize", "transpose", "mle"):
            for pk in PRIOR_KINDS + ["scalar", "none"]:
                cases.append(_gen_valid(rng, tier, builder=b, pk=pk, raw=True,
                                        cls=rng.choice(["sc", "sc", "oneway"] if b == "mle" else ["sc", "oneway", "rows"])))
    # (b) prior counts that are present but zero x builder, with layouts of the dense input and a second call
    for _ in range(reps):
        for b in ("normalize", "transpose", "mle"):
            for pk in ("zero-int", "zero-float", "zeros-int", "zeros-float"):
                cases.append(_gen_valid(rng, tier, builder=b, pk=pk, raw=False, layouts=True))
    # (c) one-way count patterns through mle (and the other builders), no prior
    for _ in range(4 * reps):
        for b in ("mle", "mle", "normalize", "transpose"):
            cases.append(_gen_valid(rng, tier, builder=b, pk="none", cls="oneway", raw=False))
    # (d) nearly symmetric metastable chains through eq_probs
    cases += [_gen_nearsym(rng, tier) for _ in range(24 * reps)]
    # (e) counts held in narrow integer dtypes whose range the row totals leave (dense and every sparse container)
    for _ in range(reps):
        for dt in NARROW:
            for k, b in enumerate(("transpose", "transpose", "normalize") + (("mle",) if NARROW[dt] < 2 ** 16 else ())):
                cases.append(_gen_narrow(rng, tier, dt, b, plain=(k == 0)))
    # the >= 1000-state sparse branch of eq_probs goes through ARPACK instead of LAPACK: one (two) big chains
    for _ in range(1 if tier == "quick" else 2):
        cases.append({"kind": "big", "n": rng.choice([1000, 1003]), "seed": rng.randrange(10 ** 6),
                      "builder": "normalize", "fmt": rng.choice(["csr_matrix", "coo_matrix"])})
        cases.append({"kind": "big", "n": 1000, "seed": rng.randrange(10 ** 6), "ring": True,
                      "builder": "normalize", "fmt": "csr_matrix"})
    return cases


def _run_big(c):
    import scipy.sparse as sp
    from enspara.msm import builders
    rs = np.random.RandomState(c["seed"])
    n = c["n"]
    rows, cols, vals = [], [], []
    for i in range(n):
        if c.get("ring"):                  # slowly mixing banded ring: eigenvalues crowd near 1 (hard for ARPACK)
            nb = ((i, 5), ((i + 1) % n, 2), ((i - 1) % n, 1), ((i + 7) % n, 1))
        else:                              # fast mixing: a few random long-range jumps per state
            nb = [(i, 5), ((i + 1) % n, 2)] + [(int(rs.randint(n)), 1) for _ in range(4)]
        for j, lo in nb:
            rows.append(i); cols.append(j); vals.append(lo + rs.randint(0, 6))
    C = sp.coo_matrix((np.array(vals, dtype=float), (rows, cols)), shape=(n, n)).tocsr()
    out = {}
    for kind, A in (("sparse", getattr(sp, c["fmt"])(C)), ("dense", C.toarray())):
        try:
            _, T, pi = getattr(builders, c["builder"])(A, calculate_eq_probs=True)
            T = T.toarray() if sp.issparse(T) else np.asarray(T)
            pi = np.asarray(pi, dtype=float).ravel()
            out[kind] = {"resid": float(np.abs(pi @ T - pi).max()), "sum": float(pi.sum()), "min": float(pi.min()),
                         "rowsum": float(np.abs(T.sum(axis=1) - 1).max()), "pi": pi}
        except Exception as ex:
            out[kind] = {"err": type(ex).__name__}
    if "pi" in out["sparse"] and "pi" in out["dense"]:
        out["agree"] = float(np.abs(out["sparse"]["pi"] - out["dense"]["pi"]).max())
    # ARPACK made to give up at once (one restart): eq_probs must hand on the dense solver's vector, not
    # scipy.sparse.linalg.ArpackNoConvergence (which the default maxiter meets on ~1 ring in 12, after a minute)
    try:
        from enspara.msm.transition_matrices import eq_probs
        _, T, _ = builders.normalize(getattr(sp, c["fmt"])(C), calculate_eq_probs=False)
        pi = np.asarray(eq_probs(T, maxiter=1), dtype=float).ravel()
        Td = T.toarray()
        out["giveup"] = {"resid": float(np.abs(pi @ Td - pi).max()), "sum": float(pi.sum()), "min": float(pi.min())}
    except Exception as ex:
        out["giveup"] = {"err": type(ex).__name__}
    for k in ("sparse", "dense"):
        out[k].pop("pi", None)
    return out


# ----------------------------------------------------------------------------- running the real code
def _effective(C, prior):
    """C + prior as exact Fractions (same shape assumed)."""
    M = [[_F(x) for x in r] for r in C]
    if prior is None:
        return M
    if "scalar" in prior:
        return [[x + _F(prior["scalar"]) for x in r] for r in M]
    P = prior["mat"]
    return [[x + _F(P[i][j]) for j, x in enumerate(r)] for i, r in enumerate(M)]


def _np_matrix(C):
    fr = [[_F(x) for x in r] for r in C]
    if all(x.denominator == 1 for r in fr for x in r):
        return np.array([[int(x) for x in r] for r in fr], dtype=np.int64)
    return np.array([[float(x) for x in r] for r in fr], dtype=float)


def _container(kind, A):
    import scipy.sparse as sp
    return np.array(A) if kind == "ndarray" else getattr(sp, kind)(A)


def _dense(x):
    import scipy.sparse as sp
    return np.asarray(x.toarray()) if sp.issparse(x) else np.asarray(x)


def _prior_arg(prior):
    if prior is None:
        return None
    if "scalar" in prior:
        f = _F(prior["scalar"])
        return float(f) if (prior.get("float") or f.denominator != 1) else int(f)
    P = _np_matrix(prior["mat"])
    return P.astype(float) if prior.get("float") else P


def _fr_mat(A):
    return [[str(Fraction(float(x))) for x in r] for r in np.asarray(A, dtype=float)]


RAW_KINDS = ["coo_matrix:raw", "coo_array:raw", "csr_matrix:raw", "csr_array:raw", "csc_matrix:raw", "csc_array:raw",
             "bsr_matrix:raw"]
LAYOUT_KINDS = ["ndarray:F", "ndarray:ro", "ndarray:view"]


def _raw_container(kind, raw, shape):
    """the stored entries exactly as listed (scipy does not canonicalise on construction)"""
    import scipy.sparse as sp
    name = kind.split(":")[0]
    dt = np.dtype(raw["dtype"])
    ent = [(i, j, _F(v)) for i, j, v in raw["entries"]]
    val = (lambda v: int(v)) if dt.kind == "i" else (lambda v: float(v))
    if kind.endswith(":a2c"):                 # the producer itself: one 2-frame trajectory per observed transition
        from enspara.msm.transition_matrices import assigns_to_counts
        trjs = np.array([[i, j] for i, j, v in ent for _ in range(int(v))], dtype=int)    # stored zeros are no transitions
        return assigns_to_counts(trjs, lag_time=1, max_n_states=shape[0])
    if name.startswith("coo"):
        return getattr(sp, name)((np.array([val(v) for _, _, v in ent], dtype=dt),
                                  (np.array([i for i, _, _ in ent]), np.array([j for _, j, _ in ent]))), shape=shape)
    major = 1 if name.startswith("csc") else 0
    ent = sorted(ent, key=lambda t: t[major])                    # stable: minor indices stay in listed order
    indptr = np.zeros(shape[major] + 1, dtype=np.int32)
    for t in ent:
        indptr[t[major] + 1] += 1
    indptr = np.cumsum(indptr).astype(np.int32)
    indices = np.array([t[1 - major] for t in ent], dtype=np.int32)
    data = np.array([val(v) for _, _, v in ent], dtype=dt)
    if name.startswith("bsr"):
        return sp.bsr_matrix((data.reshape(-1, 1, 1), indices, indptr), shape=shape)
    return getattr(sp, name)((data, indices, indptr), shape=shape)


def _make_input(kind, A, raw=None):
    """-> (the object handed to the builder, an owner array whose every cell must stay unchanged or None)"""
    if kind in ("ndarray:F",):
        return np.asfortranarray(A), None
    if kind == "ndarray:ro":
        X = np.array(A)
        X.setflags(write=False)
        return X, None
    if kind == "ndarray:view":                # every second row/column of a larger array (filled with 7s)
        big = np.full((2 * A.shape[0], 2 * A.shape[1]), 7, dtype=A.dtype)
        big[::2, ::2] = A
        return big[::2, ::2], big
    if ":" in kind:
        X = _raw_container(kind, raw, A.shape)
        if X.shape != A.shape or not np.array_equal(np.asarray(X.toarray(), dtype=float), np.asarray(A, dtype=float)):
            raise AssertionError("harness: raw container %s does not denote the case's matrix" % kind)
        return X, None
    return _container(kind, A), None


def _snapshot(X):
    """what 'the caller's matrix' is: type, dtype, shape, denoted matrix and writeability"""
    import scipy.sparse as sp
    if sp.issparse(X):
        return (type(X), X.dtype, X.shape, np.asarray(X.toarray()).copy(), None)
    return (type(X), X.dtype, X.shape, np.array(X, copy=True), (X.flags.writeable, X.strides))


def _same_snapshot(a, b):
    return a[0] is b[0] and a[1] == b[1] and a[2] == b[2] and np.array_equal(a[3], b[3]) and a[4] == b[4]


def _summ(c, t, pi):
    cd, td = _dense(c), _dense(t)
    fin = bool(np.all(np.isfinite(cd)) and np.all(np.isfinite(td)) and
               (pi is None or np.all(np.isfinite(np.asarray(pi, dtype=float)))))
    return {"kC": type(c).__name__, "kT": type(t).__name__,
            "kpi": None if pi is None else type(pi).__name__,
            "shape": [list(cd.shape), list(td.shape), None if pi is None else list(np.shape(pi))],
            "C": _fr_mat(cd) if cd.ndim == 2 and fin else None, "T": _fr_mat(td) if td.ndim == 2 and fin else None,
            "pi": None if pi is None or not fin else [str(Fraction(float(x))) for x in np.asarray(pi, dtype=float).ravel()],
            "finite": fin}


def _call(builder, kind, A, prior, eq, raw=None, twice=False):
    from enspara.msm import builders
    X, owner = _make_input(kind, A, raw)
    before = _snapshot(X)
    obefore = None if owner is None else owner.copy()
    P = _prior_arg(prior)
    Pbefore = None if not isinstance(P, np.ndarray) else (P.copy(), P.dtype)
    try:
        c, t, pi = getattr(builders, builder)(X, prior_counts=P, calculate_eq_probs=eq)
    except Exception as ex:
        return {"err": type(ex).__name__}
    out = _summ(c, t, pi)
    if not out["finite"]:
        return {"err": "NonFiniteOutput"}

    def untouched():
        return bool(_same_snapshot(_snapshot(X), before) and
                    (obefore is None or np.array_equal(owner, obefore)) and
                    (Pbefore is None or (np.array_equal(P, Pbefore[0]) and P.dtype == Pbefore[1])))
    out["unchanged"] = untouched()
    if twice:
        # the same call again on the very same objects: a builder is a function of its arguments
        try:
            c2, t2, pi2 = getattr(builders, builder)(X, prior_counts=P, calculate_eq_probs=eq)
            o2 = _summ(c2, t2, pi2)
            out["again"] = {k: o2[k] for k in ("kC", "kT", "C", "T", "pi")}
            out["again"]["unchanged"] = untouched()
        except Exception as ex:
            out["again"] = {"err": type(ex).__name__}
    return out


def run_impl(c):
    if c.get("kind") == "big":
        return _run_big(c)
    A = _np_matrix(c["C"])
    if c.get("cdt"):
        if A.dtype.kind != "i" or np.any(A.astype(c["cdt"]).astype(np.int64) != A):
            return {"err": "harness", "msg": "counts do not fit %s" % c["cdt"]}
        A = A.astype(c["cdt"])
    res = {"by_kind": {}}
    kinds = list(KINDS)
    if c.get("layouts"):
        kinds += LAYOUT_KINDS
    if c.get("raw"):
        kinds += RAW_KINDS + (["coo_matrix:a2c"] if c["raw"].get("a2c") else [])
    zero_prior = _prior_kind(c["prior"]).startswith("zero")
    for k in kinds:
        twice = zero_prior or ":" in k or k in ("ndarray", c["kind"])
        res["by_kind"][k] = _call(c["builder"], k, A, c["prior"], c["eq"], raw=c.get("raw"), twice=twice)
    if c["builder"] == "mle" and not c["expect_err"]:
        # populations of the same (deterministic) run, needed to rebuild X when eq is off
        if c["eq"]:
            res["mle_pi"] = res["by_kind"]["ndarray"].get("pi")
        else:
            res["mle_pi"] = _call("mle", "ndarray", A, c["prior"], True).get("pi")
        # "prior counts are added before estimation": same model from the pre-added counts
        if c["prior"] is not None:
            eff = _effective(c["C"], c["prior"])
            res["mle_preadded"] = _call("mle", "ndarray", _np_matrix([[str(x) for x in r] for r in eff]), None, True)
    return res


# ----------------------------------------------------------------------------- oracle
def _close(a, b, tol=TOL):
    return abs(a - b) <= tol * max(1, abs(b))


def _mat(M):
    return [[_F(x) for x in r] for r in M]


def _check_one(c, kind, r, eff, out, pistar=None):
    b, n = c["builder"], len(eff)
    tag = "[%s/%s] " % (b, kind)
    kind = kind.split(":")[0]             # "csr_matrix:raw", "ndarray:F", ...: the container type is what counts below
    if "err" in r:
        if r["err"] == "NonFiniteOutput":
            out.append(("finite", tag + "valid input gives nan/inf in the returned model"))
        else:
            out.append(("error-clause", tag + "valid input rejected with %s" % r["err"]))
        return
    if not r["finite"] or r["C"] is None or r["T"] is None or r["shape"][0] != [n, n] or r["shape"][1] != [n, n]:
        out.append(("shape", tag + "non-finite or wrongly shaped output %s" % r["shape"]))
        return
    C, T = _mat(r["C"]), _mat(r["T"])
    pi = None if r["pi"] is None else [_F(x) for x in r["pi"]]
    # returned counts: C + prior (normalize, mle) / its symmetrisation (transpose) -- exact
    if b == "transpose":
        basis = [[eff[i][j] + eff[j][i] for j in range(n)] for i in range(n)]
        expC = [[x / 2 for x in row] for row in basis]
    else:
        basis = eff
        expC = eff
    if C != expC:
        out.append(("counts", tag + "returned counts %s, expected %s" % (r["C"], [[str(x) for x in q] for q in expC])))
    # rows of T are probability distributions for every state with outgoing counts; others stay zero
    for i in range(n):
        w = sum(basis[i])
        if any(x < 0 for x in T[i]):
            out.append(("stochastic", tag + "negative probability in row %d" % i))
        if w > 0:
            if not _close(sum(T[i]), Fraction(1)):
                out.append(("stochastic", tag + "row %d sums to %s" % (i, float(sum(T[i])))))
        elif any(x != 0 for x in T[i]):
            out.append(("stochastic", tag + "state %d has no outgoing counts but a non-zero row" % i))
        if b in ("normalize", "transpose") and w > 0:
            for j in range(n):
                if not _close(T[i][j] * w, basis[i][j]):
                    out.append(("rownorm-def", tag + "T[%d][%d]*rowsum = %s != count %s" %
                                (i, j, float(T[i][j] * w), float(basis[i][j]))))
    # populations
    if not c["eq"]:
        if pi is not None and b != "mle":
            out.append(("pi-prob", tag + "populations returned although not requested"))
    else:
        if pi is None or r["shape"][2] != [n]:
            out.append(("pi-prob", tag + "populations missing or wrongly shaped: %s" % r["shape"][2]))
        else:
            if any(x < -Fraction(1, 10 ** 12) for x in pi) or not _close(sum(pi), Fraction(1)):
                out.append(("pi-prob", tag + "populations are not a probability vector: %s" % [float(x) for x in pi]))
            if b != "normalize" or _strongly_connected(eff):
                for j in range(n):
                    v = sum(pi[i] * T[i][j] for i in range(n))
                    if not _close(v, pi[j]):
                        out.append(("stationary", tag + "(pi T)[%d] = %s but pi[%d] = %s" % (j, float(v), j, float(pi[j]))))
            if pistar is not None:
                # irreducible chain: "stationary under T" determines the vector; a residual test alone cannot
                # see a wrong vector when the chain mixes slowly (its residual is of the size of the rare
                # transition probabilities), so compare with the exactly computed stationary distribution
                tolv = Fraction(5, 1000) if c["cls"] == "nearsym" else Fraction(1, 10 ** 8)
                worst = max(abs(x - y) for x, y in zip(pi, pistar))
                if worst > tolv:
                    out.append(("stationary-vector", tag + "populations %s are not the stationary distribution %s of the "
                                "returned chain (off by %.3g)" % ([round(float(x), 6) for x in pi],
                                                                  [round(float(x), 6) for x in pistar], float(worst))))
            if b in ("transpose", "mle"):
                for i in range(n):
                    for j in range(i + 1, n):
                        if not _close(pi[i] * T[i][j], pi[j] * T[j][i]):
                            out.append(("detailed-balance", tag + "pi[%d]T[%d][%d] = %s != pi[%d]T[%d][%d] = %s" % (
                                i, i, j, float(pi[i] * T[i][j]), j, j, i, float(pi[j] * T[j][i]))))
    # container rule: same kind as passed in; adding prior counts to a sparse matrix may densify it
    allowed = {kind}
    if c["prior"] is not None and kind != "ndarray":
        allowed.add("ndarray")
    if r["kC"] not in allowed or r["kT"] not in allowed or r["kC"] != r["kT"]:
        out.append(("container", tag + "outputs come back as %s / %s" % (r["kC"], r["kT"])))
    if r["kpi"] not in (None, "ndarray"):
        out.append(("container", tag + "populations come back as %s" % r["kpi"]))
    if not r["unchanged"]:
        out.append(("input-mutated", tag + "the caller's matrix (or prior) was changed"))
    ag = r.get("again")
    if ag is not None:
        if "err" in ag:
            out.append(("history-call-twice", tag + "the same call on the same objects raised %s the second time" % ag["err"]))
        else:
            if ag["kC"] != r["kC"] or ag["kT"] != r["kT"] or ag["C"] != r["C"]:
                out.append(("history-call-twice", tag + "second call on the same objects returns other counts: %s, first %s"
                            % (ag["C"], r["C"])))
            elif ag["T"] is None or (ag["pi"] is None) != (r["pi"] is None) or \
                    any(not _close(_F(y), _F(x)) for p, q in zip(r["T"], ag["T"]) for x, y in zip(p, q)) or \
                    (r["pi"] is not None and any(not _close(_F(y), _F(x)) for x, y in zip(r["pi"], ag["pi"]))):
                out.append(("history-call-twice", tag + "second call on the same objects returns another model"))
            if not ag["unchanged"]:
                out.append(("input-mutated", tag + "the caller's matrix (or prior) was changed by the second call"))


def _oracle_big(c, r):
    out = []
    for k in ("sparse", "dense"):
        x = r[k]
        if "err" in x:
            # ARPACK giving up (ArpackNoConvergence after maxiter restarts) is keyed apart from every other failure
            key = "big-no-value:ArpackNoConvergence" if (x["err"] == "ArpackNoConvergence" and k == "sparse") else "big-no-value"
            out.append((key, "%s %s on %d states raised %s" % (c["builder"], k, c["n"], x["err"])))
            continue
        if x["resid"] > 1e-8 or abs(x["sum"] - 1) > 1e-8 or x["min"] < -1e-12:
            out.append(("stationary", "%s %s, %d states: |pi T - pi| = %.2e, sum %.6f, min %.2e" % (c["builder"], k, c["n"], x["resid"], x["sum"], x["min"])))
        if x["rowsum"] > 1e-9:
            out.append(("stochastic", "%s %s: row sums off by %.2e" % (c["builder"], k, x["rowsum"])))
    if r.get("agree", 0) > 1e-8:
        out.append(("kinds-agree", "sparse and dense populations differ by %.2e on %d states" % (r["agree"], c["n"])))
    g = r.get("giveup")
    if g is not None:
        what = "eq_probs(%s T of %d states, maxiter=1)" % (c["fmt"], c["n"])
        if "err" in g:
            key = "big-no-value:ArpackNoConvergence" if g["err"] == "ArpackNoConvergence" else "big-no-value"
            out.append((key, "%s raised %s (ARPACK gives up: the dense solver has the answer)" % (what, g["err"])))
        elif g["resid"] > 1e-8 or abs(g["sum"] - 1) > 1e-8 or g["min"] < -1e-12:
            out.append(("stationary", "%s: |pi T - pi| = %.2e, sum %.6f, min %.2e" % (what, g["resid"], g["sum"], g["min"])))
    return out


def oracle(c, r):
    if c.get("kind") == "big":
        return _oracle_big(c, r)
    out = []
    if "by_kind" not in r:
        return [("harness", "run_impl failed: %s %s" % (r.get("err"), r.get("msg")))]
    bk = r["by_kind"]
    if c["expect_err"]:
        for k in KINDS:
            if "err" not in bk[k]:
                out.append(("error-clause", "[%s/%s] %s input accepted" % (c["builder"], k, c["cls"])))
        return out
    eff = _effective(c["C"], c["prior"])
    pistar = None
    if c["builder"] == "normalize" and c["eq"] and _strongly_connected(eff):
        pistar = _stationary_exact(_rownorm_exact(eff))
    for k in bk:
        _check_one(c, k, bk[k], eff, out, pistar)
    ref = bk["ndarray"]
    if "err" not in ref and ref["T"] is not None:
        for k in bk:
            if k == "ndarray":
                continue
            rk = bk[k]
            if "err" in rk or rk["T"] is None:
                continue
            for name in ("C", "T"):
                A, B = _mat(ref[name]), _mat(rk[name])
                if len(A) != len(B) or any(len(x) != len(y) for x, y in zip(A, B)) or \
                        any(not _close(y, x) for p, q in zip(A, B) for x, y in zip(p, q)):
                    out.append(("kinds-agree", "[%s] %s differs between ndarray and %s" % (c["builder"], name, k)))
            if (ref["pi"] is None) != (rk["pi"] is None) or (ref["pi"] is not None and (
                    len(ref["pi"]) != len(rk["pi"]) or
                    any(not _close(_F(y), _F(x)) for x, y in zip(ref["pi"], rk["pi"])))):
                out.append(("kinds-agree", "[%s] populations differ between ndarray and %s" % (c["builder"], k)))
    if "mle_preadded" in r and "err" not in ref:
        pa = r["mle_preadded"]
        if "err" in pa or any(not _close(_F(y), _F(x)) for p, q in zip(ref["T"], pa["T"]) for x, y in zip(p, q)):
            out.append(("prior-first", "mle(C, prior) differs from mle(C + prior)"))
    return out


# ----------------------------------------------------------------------------- Coq side
def _cqs(s):
    return cq(_F(s))


def _cmat(M):
    return clist(M, lambda r: clist(r, _cqs, "Q"), "(list Q)")


def _cprior(p):
    if p is None:
        return "NoPrior"
    if "scalar" in p:
        return "(PScalar %s)" % _cqs(p["scalar"])
    return "(PMat %s)" % _cmat(p["mat"])


def _model_term(c, r):
    b = c["builder"]
    args = "%s %s %s" % (_cmat(c["C"]), _cprior(c["prior"]), cb(c["eq"]))
    if b == "mle":
        ref = r["by_kind"]["ndarray"] if r is not None else {"err": "-"}
        pi = r.get("mle_pi") if r is not None else None
        if "err" in ref or pi is None or ref.get("T") is None:
            X = "(@nil (list Q))"
        else:
            X = "(sym_of %s %s)" % (clist(pi, _cqs, "Q"), _cmat(ref["T"]))
        return "(mle_builder %s %s)" % (args, X)
    return "(%s_builder %s)" % (b, args)


def _expected(rk, nopi=False):
    if "err" in rk or rk.get("C") is None or rk.get("T") is None:
        return "(@None result)"
    pi = "(@None (list Q))" if rk["pi"] is None or nopi else "(Some %s)" % clist(rk["pi"], _cqs, "Q")
    return "(Some (%s, %s, %s))" % (_cmat(rk["C"]), _cmat(rk["T"]), pi)


_FMT = {"csr": "Csr", "csc": "Csc", "coo": "Coo", "lil": "Lil", "dok": "Dok", "dia": "Dia", "bsr": "Bsr"}


def _ckind(name):
    if name == "ndarray":
        return "KArr"
    if name == "matrix":
        return "KMat"
    f, fam = name.split("_")
    return "(KSp %s %s)" % ("true" if fam == "array" else "false", _FMT[f])


def _gen_term(c, r, kind, kinds_only=False):
    """the builder regenerated from the source, on the container `kind`"""
    b = c["builder"]
    args = "(mkarr %s Cm) Pr %s" % (_ckind(kind), cb(c["eq"]))     # Cm, Pr: bound once per case in coq_check
    if b == "normalize":
        return "(gen_normalize %s %s)" % ("no_eqp" if kinds_only else "(gen_eq_probs ex_eig)", args)
    if b == "transpose":
        return "(gen_transpose %s)" % args
    if kinds_only:
        return "(gen_mle no_prinz %s)" % args
    ref = r["by_kind"]["ndarray"] if r is not None else {"err": "-"}
    pi = r.get("mle_pi") if r is not None else None
    if "err" in ref or pi is None or ref.get("T") is None:
        X = "(@nil (list Q))"
    else:
        X = "(sym_of %s %s)" % (clist(pi, _cqs, "Q"), _cmat(ref["T"]))
    return "(gen_mle (gen_prinz_mle_py (loop_X %s)) %s)" % (X, args)


def coq_check(c, r):
    if c.get("kind") == "big":
        return None       # 1000-state chains are outside what the exact Coq solve evaluates; oracle only
    if "by_kind" not in r:
        return None
    bk = r["by_kind"]
    nopi = c["cls"] == "nearsym"
    if nopi:
        # slowly mixing chain: LAPACK's stationary vector is accurate to about eps/gap (1e-7 .. 1e-4), not to the 1e-9 of
        # the exact comparison; counts and probabilities are compared here (normalize's do not depend on the flag),
        # the populations by the oracle (clauses stationary, stationary-vector)
        c = dict(c, eq=False)
    parts = ["(let m := %s in result_close (1#1000000000) m %s)" % (_model_term(c, r), _expected(bk["ndarray"], nopi)),
             "(let g := gres %s in result_close (1#1000000000) g %s)" % (_gen_term(c, r, c["kind"]),
                                                                        _expected(bk[c["kind"]], nopi))]
    for k in KINDS:
        rk = bk[k]
        if "err" in rk or rk.get("kC") is None:
            continue
        try:
            kc, kt = _ckind(rk["kC"]), _ckind(rk["kT"])
        except (KeyError, ValueError):
            parts.append("false")
            continue
        parts.append("(gkinds_ok %s %s %s)" % (_gen_term(c, r, k, kinds_only=True), kc, kt))
    return "(let Cm := %s in let Pr := %s in %s)" % (_cmat(c["C"]), _cprior(c["prior"]), " && ".join(parts))


def coq_show(c):
    if c.get("kind") == "big":
        return "tt"
    if c["builder"] == "mle":
        try:
            r = run_impl(c)
        except Exception:
            r = None
        return "result_red " + _model_term(c, r)
    return "result_red " + _model_term(c, None)


def nontrivial(c, r):
    if c.get("kind") == "big":
        return True
    if c["expect_err"] or "by_kind" not in r or "err" in r["by_kind"]["ndarray"]:
        return False
    M = _mat(c["C"])
    n = len(M)
    return n >= 3 and any(M[i][j] != M[j][i] for i in range(n) for j in range(n)) and \
        any(x == 0 for row in M for x in row)


def tags(c, r):
    if c.get("kind") == "big":
        return ["arpack-1000-states"]
    pk = _prior_kind(c["prior"])
    t = ["builder:" + c["builder"], "class:" + c["cls"], "eq-on" if c["eq"] else "eq-off", "cmp-kind:" + c["kind"],
         "prior:" + ("none" if c["prior"] is None else "scalar" if "scalar" in c["prior"] else "matrix"),
         "n=%d" % len(c["C"])]
    if pk.startswith("zero"):
        t += ["prior-zero:" + pk, "prior-zero:" + c["builder"]]
    if c["prior"] is not None and c["prior"].get("float"):
        t.append("prior-float-typed")
    if not c["expect_err"]:
        low = _lower_oneway(c["C"])
        if low >= 2:
            t.append("lower-oneway>=2")
            if c["builder"] == "mle" and c["prior"] is None:
                t.append("mle-no-prior-lower-oneway>=2")
    if c.get("layouts"):
        t.append("dense-layouts(F,readonly,strided-view)")
    if c.get("cdt"):
        t += ["counts-dtype:" + c["cdt"], "narrow-counts:" + c["builder"]]
        M = [[int(_F(x)) for x in row] for row in c["C"]]
        n = len(M)
        if max(sum(M[i][j] + M[j][i] for j in range(n)) for i in range(n)) > NARROW[c["cdt"]]:
            t.append("sym-row-total-exceeds-counts-dtype")
            if c["builder"] == "transpose" and c["eq"] and c["prior"] is None:
                t.append("transpose-populations-row-total-exceeds:" + c["cdt"])
        if max(sum(row) for row in M) > NARROW[c["cdt"]]:
            t.append("row-total-exceeds-counts-dtype")
    if c.get("raw"):
        ent = c["raw"]["entries"]
        t += ["noncanon:%s:prior-%s" % (c["builder"], "none" if pk == "none" else "scalar" if "scalar" in c["prior"] else "matrix"),
              "noncanon:" + c["raw"]["dtype"]]
        if c["raw"]["unit"]:
            t.append("noncanon:one-entry-per-transition")
        if c["raw"].get("a2c"):
            t.append("noncanon:from-assigns_to_counts")
        if any(_F(v) == 0 for _, _, v in ent):
            t.append("noncanon:stored-zero")
        if len({(i, j) for i, j, _ in ent}) < len(ent):
            t.append("noncanon:duplicates")
    if c["cls"] == "nearsym":
        t.append("nearsym:" + ("symmetric-basins" if c.get("sym_basins") else "asymmetric-basins"))
        t.append("nearsym:" + ("integer-counts" if all("/" not in x for row in c["C"] for x in row) else "dyadic-counts"))
    if "by_kind" in r and any("again" in v for v in r["by_kind"].values()):
        t.append("call-twice")
    if c["expect_err"]:
        t.append("error-expected")
    if any("/" in x for row in c["C"] for x in row):
        t.append("real-valued-counts")
    if "by_kind" in r:
        nd = r["by_kind"]["ndarray"]
        if "err" in nd:
            t.append("impl-rejects")
        elif c["prior"] is not None and any(r["by_kind"][k].get("kC") == "ndarray" for k in SPARSE):
            t.append("prior-densified-sparse")
    return t


ESSENTIAL_TAGS = ["arpack-1000-states", "builder:normalize", "builder:transpose", "builder:mle", "class:sc", "class:rows", "class:zero-row",
                  "eq-on", "eq-off", "prior:none", "prior:scalar", "prior:matrix", "error-expected", "impl-rejects",
                  "class:mle-no-outgoing", "class:prior-shape", "class:nonsquare", "prior-densified-sparse"] + \
                 ["cmp-kind:" + k for k in SPARSE] + \
                 ["class:oneway", "class:nearsym", "lower-oneway>=2", "mle-no-prior-lower-oneway>=2", "call-twice",
                  "dense-layouts(F,readonly,strided-view)", "prior-float-typed",
                  "noncanon:duplicates", "noncanon:stored-zero", "noncanon:one-entry-per-transition",
                  "noncanon:from-assigns_to_counts", "noncanon:int64", "noncanon:float64",
                  "nearsym:symmetric-basins", "nearsym:integer-counts", "nearsym:dyadic-counts",
                  "sym-row-total-exceeds-counts-dtype", "row-total-exceeds-counts-dtype",
                  "narrow-counts:transpose", "narrow-counts:normalize", "narrow-counts:mle"] + \
                 ["counts-dtype:" + d for d in NARROW] + \
                 ["transpose-populations-row-total-exceeds:" + d for d in ("uint8", "int16", "uint16", "int32")] + \
                 ["prior-zero:" + k for k in ("zero-int", "zero-float", "zeros-int", "zeros-float",
                                              "normalize", "transpose", "mle")] + \
                 ["noncanon:%s:prior-%s" % (b, k) for b in ("normalize", "transpose", "mle")
                  for k in ("none", "scalar", "matrix")]


def search(rng, tier):
    """Deeper look for a concrete failing input when a proof or the correspondence broke but the
    oracle saw nothing on this run's cases: fresh random cases plus the whole small scope."""
    found = []
    cases = [_gen_valid(rng, tier, raw=True) for _ in range(60)] + [_gen_nearsym(rng, tier) for _ in range(40)] + \
        [_gen_narrow(rng, tier, dt, b) for dt in NARROW for b in ("transpose", "normalize")] + \
        _small_scope(rng, "thorough") + [_gen_valid(rng, tier) for _ in range(600)] + \
        [_gen_malformed(rng) for _ in range(60)]
    for c in cases:
        try:
            r = run_impl(c)
        except Exception as ex:
            r = {"err": "Unexpected:" + type(ex).__name__, "msg": str(ex)[:200]}
        for key, msg in oracle(c, r):
            found.append((key, msg, c, r))
        if found:
            break
    return found
